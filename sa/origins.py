"""Ownership (points-to) analysis of the flattener: tree.py + ast.py, entry tree.flatten.

Question decided: can any statement executed under ``flatten(root, class_name)``
write to an object owned by the caller's tree?

Abstract objects (AO)
  T:ROOT            the ``root`` argument and everything it owns (summary object)
  T:LOOKUP:<site>   result of an un-copied lookup (find_class(copy=False)) — tree-owned
  T:PARENT          reached through .parent / .root of a copy (Class.__deepcopy__ shares it)
  T:CONST:<site>    result of find_constant_symbol — the tree's own Symbol
  D:<site>          a deep copy (copy.deepcopy / find_class(copy=True)): fresh, and everything it
                    owns is fresh, except the fields the __deepcopy__ hooks share (parent, scope)
  A:<Class>@<site>  one allocated ast node (its __init__ containers are fresh and owned by it)
  L:<site>          a local container (list/dict display, comprehension, list(...), slice ...)

Values are sets of references: ('o', AO) — the object — or ('c', AO, field) — the
container/sub-object held in a field of an allocated object.  The heap has two maps
per (AO, field): ``val`` (objects assigned to the field) and ``elem`` (elements
stored into the container).  Local variables are flow-sensitive through reaching
definitions on the statement CFG; the heap is flow-insensitive; functions are
context-insensitive except for the listener argument of TreeWalker.walk (one
context per listener class) and the ``copy`` flag of find_class (constant-propagated
per call site).  It is a may-analysis: everything it reports is a *possible* write;
there is no exception list (see EXCEPTIONS below and DESIGN.md A.5).
"""
from __future__ import annotations

import ast
from collections import defaultdict
from typing import Dict, List, Optional, Set, Tuple

from .cfg import CFG, reaching_defs
from .engine import AnalysisError, Context, norm
from .pyutil import dotted, literal

TREE = "src/pymoca/tree.py"
ASTM = "src/pymoca/ast.py"

SHARED = {"parent", "scope"}
TYPED_FIELDS = {"scope"}  # pure back references: stores/reads are restricted to objects of the classes that declare them
MUTATORS = {"append", "extend", "remove", "pop", "update", "insert", "clear", "setdefault", "add", "discard",
            "popitem", "sort", "reverse", "appendleft", "popleft", "__setitem__", "__delitem__"}
VIEWS = {"values", "items", "keys"}
CONTAINER_BUILTINS = {"list", "sorted", "reversed", "tuple", "set", "frozenset", "OrderedDict", "dict", "deque",
                      "enumerate", "zip", "filter", "map", "iter"}
PURE_BUILTINS = {"isinstance", "len", "str", "int", "float", "bool", "hasattr", "type", "print", "range", "id", "repr",
                 "min", "max", "sum", "any", "all", "abs", "super", "issubclass", "callable", "hash", "next"}

# Reviewed exceptions: NONE.  Two were listed until defect hunting showed that both "reviewed" writes are observable
# (D29: constant Symbols renamed in place; D30: the star-import memo names the wrong package) — both were repaired in
# /repo and every write to a tree-owned object is a violation again.
EXCEPTIONS = []
CONST_REASON = None


def is_tree(ao: str) -> bool:
    return ao.startswith("T:")


class Result:
    def __init__(self):
        self.findings: List[dict] = []
        self.stats: dict = {}
        self.notes: List[str] = []


class _Fn:
    def __init__(self, key, node, cls, modkey):
        self.key = key
        self.node = node
        self.cls = cls
        self.modkey = modkey
        self.cfg: Optional[CFG] = None
        self.rd: Dict[str, dict] = {}
        self.params = [a.arg for a in list(node.args.posonlyargs) + list(node.args.args)]
        self.kwonly = [a.arg for a in node.args.kwonlyargs]
        self.locals: Set[str] = set()


def _compact(v: set, limit: int = 2) -> None:
    """Bound a variable's set: more than ``limit`` field-containers of one allocated
    object are merged into ('c', ao, '**') = "some field's container of ao" (sound:
    its elements are the union over all fields, stores through it are seen by every field)."""
    per = {}
    for r in v:
        if r[0] == "c" and r[2] != "**":
            per.setdefault(r[1], []).append(r)
    for ao, rs in per.items():
        if len(rs) > limit or ("c", ao, "**") in v:
            for r in rs:
                v.discard(r)
            v.add(("c", ao, "**"))


class _Cells:
    """dict of sets with version counters and read tracking (for incremental re-evaluation)."""

    def __init__(self, an, tag):
        self.an, self.tag, self.d = an, tag, {}

    def __getitem__(self, k):
        if self.an.reads is not None:
            self.an.reads.add((self.tag, k))
        v = self.d.get(k)
        if v is None:
            v = self.d[k] = set()
        return v

    def get(self, k, default=None):
        if self.an.reads is not None:
            self.an.reads.add((self.tag, k))
        return self.d.get(k, default if default is not None else set())

    def put(self, k, refs) -> bool:
        v = self.d.get(k)
        if v is None:
            v = self.d[k] = set()
        n = len(v)
        v |= refs
        if len(v) > 40 and self.tag != "ds":
            _compact(v)
        if len(v) != n:
            self.an.ver[(self.tag, k)] += 1
            self.an.changed = True
            return True
        return False

    def values(self):
        return self.d.values()

    def items(self):
        return self.d.items()

    def __len__(self):
        return len(self.d)


class Analysis:
    def __init__(self, ctx: Context, rule: str):
        self.ctx = ctx
        self.rule = rule
        self.mods = {"tree": ctx.module(TREE, rule), "ast": ctx.module(ASTM, rule)}
        self.funcs: Dict[str, _Fn] = {}
        self.by_method: Dict[str, List[str]] = defaultdict(list)
        self.class_bases: Dict[str, List[str]] = {}
        self.class_mod: Dict[str, str] = {}
        for mk, mod in self.mods.items():
            for st in mod.body:
                if isinstance(st, ast.FunctionDef):
                    self.funcs["%s:%s" % (mk, st.name)] = _Fn("%s:%s" % (mk, st.name), st, None, mk)
                elif isinstance(st, ast.ClassDef):
                    self.class_bases[st.name] = [(dotted(b) or "").split(".")[-1] for b in st.bases]
                    self.class_mod[st.name] = mk
                    for m in st.body:
                        if isinstance(m, ast.FunctionDef):
                            q = "%s:%s.%s" % (mk, st.name, m.name)
                            self.funcs[q] = _Fn(q, m, st.name, mk)
                            self.by_method[m.name].append(q)
        self.heapval = _Cells(self, "hv")
        self.heapelem = _Cells(self, "he")
        self.params = _Cells(self, "p")
        self.rets = _Cells(self, "r")
        self.defs = _Cells(self, "d")
        self.deep_src = _Cells(self, "ds")
        self.ver: Dict[tuple, int] = defaultdict(int)
        self.reads: Optional[set] = None
        self.snap: Dict[tuple, Dict[tuple, int]] = {}
        self.reached: List[tuple] = []
        self.reached_set: Set[tuple] = set()
        self.sinks: Dict[tuple, dict] = {}
        self.changed = False
        self.site_counter: Dict[tuple, int] = {}
        self.site_ids: Dict[tuple, str] = {}
        self.skip_fields = self._skip_fields()
        self.cur: Optional[tuple] = None  # current (fn key, ctx)
        self.comp_stack: List[dict] = []
        self.unknown_calls: Set[str] = set()
        self.callers: Dict[tuple, set] = defaultdict(set)
        self.fields: Dict[str, set] = defaultdict(set)
        self._declaring: Dict[str, Set[str]] = {}

    # ------------------------------------------------------------------
    def _skip_fields(self) -> Set[str]:
        fn = self.funcs.get("tree:TreeWalker.skip_child")
        out = set()
        if fn is not None:
            for n in ast.walk(fn.node):
                if isinstance(n, ast.Constant) and isinstance(n.value, str):
                    out.add(n.value)
        if "parent" not in out:
            raise AnalysisError(self.rule, "TreeWalker.skip_child no longer skips 'parent': the walker would leave the class being walked")
        return out

    def mro(self, cls: str) -> List[str]:
        out, todo = [], [cls]
        while todo:
            c = todo.pop(0)
            if c in out or c not in self.class_bases:
                continue
            out.append(c)
            todo.extend(self.class_bases[c])
        return out

    def resolve_method(self, cls: str, name: str) -> Optional[str]:
        for c in self.mro(cls):
            q = "%s:%s.%s" % (self.class_mod[c], c, name)
            if q in self.funcs:
                return q
        return None

    def methods_with_prefix(self, cls: str, prefix: str) -> List[str]:
        seen, out = set(), []
        for c in self.mro(cls):
            for q, f in self.funcs.items():
                if f.cls == c and f.node.name.startswith(prefix) and f.node.name not in seen:
                    seen.add(f.node.name)
                    out.append(q)
        return out

    def _field(self, ao, f):
        if f not in self.fields[ao]:
            self.fields[ao].add(f)
            self.ver[("fl", ao)] += 1
            self.changed = True

    def declaring(self, field: str) -> Set[str]:
        """AST classes (with their subclasses) whose __init__ assigns self.<field> — recomputed from ast.py on every run"""
        if field not in self._declaring:
            base = set()
            for q, f in self.funcs.items():
                if q.startswith("ast:") and f.node.name == "__init__" and f.cls:
                    for n in ast.walk(f.node):
                        if isinstance(n, ast.Attribute) and n.attr == field and isinstance(n.ctx, ast.Store) and isinstance(n.value, ast.Name) and n.value.id == "self":
                            base.add(f.cls)
            out = set(base)
            for c in self.class_bases:
                if set(self.mro(c)) & base:
                    out.add(c)
            self._declaring[field] = out
        return self._declaring[field]

    def fields_of(self, ao):
        if self.reads is not None:
            self.reads.add(("fl", ao))
        return list(self.fields.get(ao, ()))

    def put_hv(self, ao, f, refs):
        self._field(ao, f)
        self.heapval.put((ao, f), refs)

    def put_he(self, key, refs):
        self._field(key[0], key[1])
        self.heapelem.put(key, refs)

    def site(self, node: ast.AST, kind: str) -> str:
        k = (id(node), kind)
        if k not in self.site_ids:
            fk = self.cur[0]
            c = (fk, kind)
            self.site_counter[c] = self.site_counter.get(c, 0) + 1
            self.site_ids[k] = "%s#%s%d" % (fk, kind, self.site_counter[c])
        return self.site_ids[k]

    @staticmethod
    def ao_class(ao: str) -> Optional[str]:
        if ao.startswith("A:"):
            return ao[2:].split("@")[0]
        return None

    # -- heap -------------------------------------------------------------
    def read_field(self, refs, f: str, _seen=None) -> set:
        out = set()
        if f in ("__class__", "__name__", "__doc__"):
            return out
        _seen = _seen if _seen is not None else set()
        for r in refs:
            if (r, f) in _seen:
                continue
            _seen.add((r, f))
            if r[0] == "o":
                ao = r[1]
                if f in TYPED_FIELDS and self.ao_class(ao) is not None and self.ao_class(ao) not in self.declaring(f):
                    continue
                if is_tree(ao):
                    out.add(("o", "T:PARENT" if f in ("parent", "root") else ao))
                elif ao.startswith("D:"):
                    if f in SHARED:
                        # filled in when the copy is created (shared with its sources by the __deepcopy__ hooks)
                        out |= self.heapval.get((ao, f), set())
                    elif f == "root":
                        out.add(r)
                        out |= self.read_field(self.heapval.get((ao, "parent"), set()), "root", _seen)
                    else:
                        out.add(("c", ao, f))
                        out |= self.heapval.get((ao, f), set())
                else:
                    if f == "root":
                        ps = self.heapval.get((ao, "parent"), set())
                        out.add(r)
                        out |= self.read_field(ps, "root", _seen)
                    elif f in SHARED:
                        out |= self.heapval.get((ao, f), set())
                    else:
                        out.add(("c", ao, f))
                        out |= self.heapval.get((ao, f), set())
            else:
                _c, ao, g = r
                if ao.startswith("D:") or is_tree(ao):
                    out |= self.read_field({("o", ao)}, f, _seen)
                else:
                    out.add(("c", ao, "*"))
                    out |= self.heapval.get((ao, "*"), set())
                    out |= self.heapval.get((ao, "*." + f), set())
        return out

    def read_any_field(self, refs) -> set:
        """tree.__dict__[child] in the walker: every field except the skipped ones."""
        out = set()
        for r in refs:
            ao = r[1]
            if is_tree(ao):
                out.add(("o", ao))
                continue
            if ao.startswith("D:"):
                out.add(("o", ao))
            if r[0] == "o":
                for f in self.fields_of(ao):
                    if f in self.skip_fields or (f.startswith("*.") and f[2:] in self.skip_fields):
                        continue
                    out |= self.heapval.get((ao, f), set())
                out.add(("c", ao, "**"))  # "some field's container of ao"
            else:
                out |= self.heapval.get((ao, "*"), set())
                for f in self.fields_of(ao):
                    if f.startswith("*.") and f[2:] not in self.skip_fields:
                        out |= self.heapval.get((ao, f), set())
                out.add(("c", ao, "*"))
        return out

    def elements(self, refs) -> set:
        out = set()
        for r in refs:
            ao = r[1]
            if is_tree(ao):
                out.add(("o", ao))
            elif r[0] == "o":
                if ao.startswith("D:"):
                    out.add(r)
                out |= self.heapelem.get((ao, "*"), set())
            else:
                if ao.startswith("D:"):
                    out.add(("o", ao))
                if r[2] == "**":
                    for f in self.fields_of(ao):
                        if f not in self.skip_fields:
                            out |= self.heapelem.get((ao, f), set())
                else:
                    out |= self.heapelem.get((ao, r[2]), set())
                    out |= self.heapelem.get((ao, "**"), set())
        return out

    def ckey(self, r):
        return (r[1], "*") if r[0] == "o" else (r[1], r[2])

    def sink(self, receivers, stmt: ast.AST, what: str):
        for r in receivers:
            if is_tree(r[1]):
                k = (r[1], self.cur[0], norm(stmt)[:120])
                if k not in self.sinks:
                    self.sinks[k] = {"label": r[1], "fn": self.cur[0], "stmt": norm(stmt)[:120], "what": what}
                    self.changed = True

    def store_attr(self, receivers, attr: str, value, stmt):
        self.sink(receivers, stmt, "attribute store")
        for r in receivers:
            if is_tree(r[1]):
                continue
            if attr in TYPED_FIELDS and r[0] == "o" and self.ao_class(r[1]) is not None and self.ao_class(r[1]) not in self.declaring(attr):
                # the abstract receiver set is imprecise: an object allocated as <Cls> is never the receiver of a store into a
                # field that only other classes declare (e.g. `.scope` exists on ClassModificationArgument only)
                continue
            if r[0] == "o":
                self.put_hv(r[1], attr, value)
            else:
                if r[1].startswith("D:"):
                    self.put_hv(r[1], attr, value)
                else:
                    # attribute of SOME element held by a container of this object: kept per attribute name ("*.scope"),
                    # so that a store into one attribute does not flow out of every other attribute of those elements
                    self.put_hv(r[1], "*" if attr in ("?", "*") else "*." + attr, value)

    def store_elem(self, receivers, value, stmt, check=True):
        if check:
            self.sink(receivers, stmt, "container mutation")
        for r in receivers:
            if is_tree(r[1]):
                continue
            self.put_he(self.ckey(r), value)

    # -- variables ----------------------------------------------------------
    def fn_info(self, fk: str) -> _Fn:
        f = self.funcs[fk]
        if f.cfg is None:
            f.cfg = CFG(f.node, self.rule)
            for n in ast.walk(f.node):
                if isinstance(n, ast.Name) and isinstance(n.ctx, (ast.Store, ast.Del)):
                    f.locals.add(n.id)
            f.locals |= set(f.params) | set(f.kwonly)
            if f.node.args.vararg:
                f.locals.add(f.node.args.vararg.arg)
            if f.node.args.kwarg:
                f.locals.add(f.node.args.kwarg.arg)
        return f

    def lookup(self, name: str, nid: int) -> set:
        for sc in reversed(self.comp_stack):
            if name in sc:
                return sc[name]
        f = self.fn_info(self.cur[0])
        if name not in f.locals:
            return set()
        if name not in f.rd:
            f.rd[name] = reaching_defs(f.cfg, name)
        out = set()
        for d in f.rd[name].get(nid, ()):
            if d == f.cfg.entry:
                out |= self.params[(self.cur, name)]
            else:
                out |= self.defs[(self.cur, d, name)]
        return out

    def bind(self, target, value, nid, stmt, unpack=False):
        if isinstance(target, ast.Name):
            self.defs.put((self.cur, nid, target.id), value)
        elif isinstance(target, (ast.Tuple, ast.List)):
            ev = self.elements(value) if not unpack else value
            for e in target.elts:
                self.bind(e.value if isinstance(e, ast.Starred) else e, ev, nid, stmt)
        elif isinstance(target, ast.Attribute):
            self.store_attr(self.ev(target.value, nid), target.attr, value, stmt)
        elif isinstance(target, ast.Subscript):
            if isinstance(target.value, ast.Attribute) and target.value.attr == "__dict__":
                self.store_attr(self.ev(target.value.value, nid), "?", value, stmt)
            else:
                self.store_elem(self.ev(target.value, nid), value, stmt)
        elif isinstance(target, ast.Starred):
            self.bind(target.value, value, nid, stmt)

    # -- expressions ----------------------------------------------------------
    def local_container(self, node, elems) -> set:
        ao = "L:" + self.site(node, "c")
        self.put_he((ao, "*"), elems)
        return {("o", ao)}

    def ev(self, e, nid) -> set:
        if e is None:
            return set()
        if isinstance(e, ast.Name):
            return self.lookup(e.id, nid)
        if isinstance(e, ast.Attribute):
            if e.attr == "__dict__":
                return self.ev(e.value, nid)
            base = self.ev(e.value, nid)
            return self.read_field(self._unmark(base), e.attr)
        if isinstance(e, ast.Subscript):
            if isinstance(e.value, ast.Attribute) and e.value.attr == "__dict__":
                self.ev(e.slice, nid)
                return self.read_any_field(self.ev(e.value.value, nid))
            base = self.ev(e.value, nid)
            self.ev(e.slice, nid) if not isinstance(e.slice, ast.Slice) else None
            if isinstance(e.slice, ast.Slice):
                return self.local_container(e, self.elements(base))
            return self.elements(base)
        if isinstance(e, ast.Call):
            return self.ev_call(e, nid)
        if isinstance(e, (ast.List, ast.Tuple, ast.Set)):
            elems = set()
            for x in e.elts:
                if isinstance(x, ast.Starred):
                    elems |= self.elements(self.ev(x.value, nid))
                else:
                    elems |= self.ev(x, nid)
            return self.local_container(e, elems)
        if isinstance(e, ast.Dict):
            elems = set()
            for k, v in zip(e.keys, e.values):
                if k is None:
                    elems |= self.elements(self.ev(v, nid))
                else:
                    self.ev(k, nid)
                    elems |= self.ev(v, nid)
            return self.local_container(e, elems)
        if isinstance(e, (ast.ListComp, ast.SetComp, ast.GeneratorExp, ast.DictComp)):
            scope = {}
            self.comp_stack.append(scope)
            try:
                for g in e.generators:
                    it = self.elements(self.ev(g.iter, nid))
                    for nm in ast.walk(g.target):
                        if isinstance(nm, ast.Name):
                            scope[nm.id] = scope.get(nm.id, set()) | it
                    for c in g.ifs:
                        self.ev(c, nid)
                if isinstance(e, ast.DictComp):
                    self.ev(e.key, nid)
                    elems = self.ev(e.value, nid)
                else:
                    elems = self.ev(e.elt, nid)
            finally:
                self.comp_stack.pop()
            return self.local_container(e, elems)
        if isinstance(e, ast.BoolOp):
            out = set()
            for v in e.values:
                out |= self.ev(v, nid)
            return out
        if isinstance(e, ast.IfExp):
            self.ev(e.test, nid)
            return self.ev(e.body, nid) | self.ev(e.orelse, nid)
        if isinstance(e, ast.BinOp):
            a, b = self.ev(e.left, nid), self.ev(e.right, nid)
            if a or b:
                return self.local_container(e, self.elements(a) | self.elements(b))
            return set()
        if isinstance(e, ast.Compare):
            self.ev(e.left, nid)
            for c in e.comparators:
                self.ev(c, nid)
            return set()
        if isinstance(e, ast.UnaryOp):
            self.ev(e.operand, nid)
            return set()
        if isinstance(e, ast.Starred):
            return self.ev(e.value, nid)
        if isinstance(e, ast.JoinedStr):
            for v in e.values:
                if isinstance(v, ast.FormattedValue):
                    self.ev(v.value, nid)
            return set()
        if isinstance(e, ast.NamedExpr):
            v = self.ev(e.value, nid)
            self.bind(e.target, v, nid, e)
            return v
        return set()

    def _dict_marker(self, refs):
        return refs  # `.__dict__` alone (e.g. .keys()) — treated as the object itself

    @staticmethod
    def _unmark(refs):
        return refs

    # -- calls ----------------------------------------------------------------
    def ev_args(self, call, nid):
        pos = []
        for a in call.args:
            if isinstance(a, ast.Starred):
                pos.append(("*", self.elements(self.ev(a.value, nid))))
            else:
                pos.append(("", self.ev(a, nid)))
        kws = {}
        for k in call.keywords:
            if k.arg is None:
                kws["**"] = self.elements(self.ev(k.value, nid))
            else:
                kws[k.arg] = self.ev(k.value, nid)
        return pos, kws

    def call_function(self, fk: str, ctxs: str, self_refs, pos, kws, call) -> set:
        f = self.funcs[fk]
        key = (fk, ctxs)
        if key not in self.reached_set:
            self.reached_set.add(key)
            self.reached.append(key)
            self.changed = True
        self.callers[key].add(self.cur)
        params = list(f.params)
        is_method = f.cls is not None and not any(
            isinstance(d, ast.Name) and d.id == "staticmethod" for d in f.node.decorator_list)
        is_classmethod = any(isinstance(d, ast.Name) and d.id == "classmethod" for d in f.node.decorator_list)
        if is_method and params:
            if not is_classmethod:
                self.params.put((key, params[0]), self_refs)
            params = params[1:]
        i = 0
        for star, v in pos:
            if star:
                for p in params[i:]:
                    self.params.put((key, p), v)
                break
            if i < len(params):
                self.params.put((key, params[i]), v)
            elif f.node.args.vararg:
                self.params.put((key, f.node.args.vararg.arg), v)
            i += 1
        for k, v in kws.items():
            if k == "**":
                for p in params + f.kwonly:
                    self.params.put((key, p), v)
            elif k in params or k in f.kwonly:
                self.params.put((key, k), v)
            elif f.node.args.kwarg:
                self.params.put((key, f.node.args.kwarg.arg), v)
        return set(self.rets[key])

    def alloc(self, cls: str, call, pos, kws, nid) -> set:
        ao = "A:%s@%s" % (cls, self.site(call, "n"))
        ref = {("o", ao)}
        for k, v in kws.items():
            if k != "**":
                self.put_hv(ao, k, v)
        init = self.resolve_method(cls, "__init__")
        if init and self.class_mod.get(cls) == "tree":
            self.call_function(init, "", ref, pos, kws, call)
        return ref

    def lookup_copies(self) -> bool:
        """find_class(copy=True) really deep-copies: `if copy: c = c.copy_including_children()`
        and copy_including_children returns copy.deepcopy(self)."""
        if hasattr(self, "_lookup_copies"):
            return self._lookup_copies
        ok = False
        cic = self.funcs.get("ast:Class.copy_including_children")
        fc = self.funcs.get("ast:Class.find_class")
        if cic is not None and fc is not None:
            rets = [n for n in ast.walk(cic.node) if isinstance(n, ast.Return)]
            deep = len(rets) == 1 and isinstance(rets[0].value, ast.Call) and dotted(rets[0].value.func) in ("copy.deepcopy", "deepcopy") \
                and isinstance(rets[0].value.args[0], ast.Name) and rets[0].value.args[0].id == cic.params[0]
            shape = False
            for n in ast.walk(fc.node):
                if isinstance(n, ast.If) and isinstance(n.test, ast.Name) and n.test.id == "copy":
                    for st in n.body:
                        if isinstance(st, ast.Assign) and isinstance(st.value, ast.Call) and isinstance(st.value.func, ast.Attribute) \
                                and st.value.func.attr == "copy_including_children":
                            shape = True
            ok = deep and shape
        self._lookup_copies = ok
        return ok

    def new_deep(self, ao, src):
        self.deep_src.put(ao, src)
        for f in SHARED:
            v = self.read_field(src, f)
            if v:
                self.put_hv(ao, f, v)

    def const_copy_flag(self, call) -> Optional[bool]:
        fc = self.funcs.get("ast:Class.find_class")
        if fc is None:
            raise AnalysisError(self.rule, "Class.find_class not found")
        params = fc.params[1:]
        val = None
        for k in call.keywords:
            if k.arg == "copy":
                val = k.value
        if val is None and "copy" in params:
            idx = params.index("copy")
            if idx < len(call.args):
                val = call.args[idx]
        if val is None:
            defaults = dict(zip(fc.params[len(fc.params) - len(fc.node.args.defaults):], fc.node.args.defaults))
            val = defaults.get("copy")
        if isinstance(val, ast.Constant):
            return bool(val.value)
        return None

    def ev_call(self, call: ast.Call, nid) -> set:
        f = call.func
        name = dotted(f)
        pos, kws = self.ev_args(call, nid)
        arg0 = pos[0][1] if pos else set()
        if name in ("copy.deepcopy", "deepcopy"):
            ao = "D:" + self.site(call, "d")
            self.new_deep(ao, arg0)
            return {("o", ao)}
        if name in ("copy.copy",):
            # a shallow copy's fields alias the source's containers: treat it as the source itself
            return set(arg0)
        if isinstance(f, ast.Name):
            n = f.id
            if n in CONTAINER_BUILTINS:
                elems = set()
                for _s, v in pos:
                    elems |= self.elements(v)
                if n in ("OrderedDict", "dict", "zip", "enumerate"):
                    elems |= self.elements(elems)
                return self.local_container(call, elems)
            if n == "getattr":
                fld = literal(call.args[1]) if len(call.args) > 1 else None
                base = arg0
                out = self.read_field(base, fld) if isinstance(fld, str) else self._read_all(base)
                if len(pos) > 2:
                    out |= pos[2][1]
                return out
            if n == "setattr":
                fld = literal(call.args[1]) if len(call.args) > 1 else None
                self.store_attr(arg0, fld if isinstance(fld, str) else "?", pos[2][1] if len(pos) > 2 else set(), call)
                return set()
            if n == "delattr":
                self.sink(arg0, call, "attribute delete")
                return set()
            if n in PURE_BUILTINS:
                return set()
            fk = "%s:%s" % (self.funcs[self.cur[0]].modkey, n)
            if fk in self.funcs:
                return self.call_function(fk, self._listener_ctx(fk, pos, kws), set(), pos, kws, call)
            for mk in ("tree", "ast"):
                if n in self.class_bases and self.class_mod[n] == mk:
                    return self.alloc(n, call, pos, kws, nid)
            if n[:1].isupper() or n.endswith("Error") or n == "Exception":
                return set()
            self.unknown_calls.add(n)
            return set()
        if isinstance(f, ast.Call) and isinstance(f.func, ast.Name) and f.func.id == "getattr":
            # getattr(listener, "enter" + name)(tree): dynamic dispatch of the walker
            lst = self.ev(f.args[0], nid)
            prefix = None
            a1 = f.args[1]
            if isinstance(a1, ast.BinOp) and isinstance(a1.left, ast.Constant) and isinstance(a1.left.value, str):
                prefix = a1.left.value
            out = set()
            for r in lst:
                cls = self.ao_class(r[1])
                if cls is None or prefix is None:
                    continue
                for q in self.methods_with_prefix(cls, prefix):
                    if self.funcs[q].node.name in ("enterEvery", "exitEvery"):
                        continue
                    out |= self.call_function(q, "", {r}, pos, kws, call)
            return out
        if isinstance(f, ast.Attribute):
            m = f.attr
            bd = dotted(f.value)
            if bd == "ast" and m in self.class_bases:
                return self.alloc(m, call, pos, kws, nid)
            if bd in ("np", "logger", "sys", "logging", "json", "itertools", "copy"):
                return set()
            recv = self.ev(f.value, nid)
            if m == "find_class":
                return self.summary_find_class(call, recv, pos, kws, nid)
            if m in ("find_constant_symbol",):
                q = "ast:Class.find_constant_symbol"
                res = self.call_function(q, "", recv, pos, kws, call)
                lab = "T:CONST:" + self.site(call, "k")
                return {("o", lab) if is_tree(r[1]) else r for r in res}
            if m in MUTATORS and not self._is_ast_method(m, recv):
                if m in ("update", "extend"):
                    self.store_elem(recv, self.elements(arg0), call)
                    for k, v in kws.items():
                        self.store_elem(recv, v, call, check=False)
                elif m in ("append", "add", "appendleft"):
                    self.store_elem(recv, arg0, call)
                elif m in ("insert", "setdefault"):
                    self.store_elem(recv, pos[1][1] if len(pos) > 1 else set(), call)
                    if m == "setdefault":
                        return self.elements(recv) | (pos[1][1] if len(pos) > 1 else set())
                else:
                    self.sink(recv, call, "container mutation")
                if m in ("pop", "popitem", "popleft"):
                    return self.elements(recv)
                return set()
            if m in VIEWS:
                return recv
            if m in ("get",):
                return self.elements(recv) | (pos[1][1] if len(pos) > 1 else set())
            if m == "copy" and not self._is_ast_method(m, recv):
                return self.local_container(call, self.elements(recv))
            targets = []
            for r in recv:
                cls = self.ao_class(r[1])
                if cls and cls in self.class_bases:
                    q = self.resolve_method(cls, m)
                    if q:
                        targets.append((q, {r}))
                elif is_tree(r[1]) or r[1].startswith("D:") or r[0] == "c":
                    for q in self.by_method.get(m, []):
                        if self.funcs[q].modkey == "ast" or True:
                            targets.append((q, {r}))
            out = set()
            seen = set()
            for q, rr in targets:
                k = (q, tuple(sorted(rr)))
                if k in seen:
                    continue
                seen.add(k)
                out |= self.call_function(q, self._listener_ctx(q, pos, kws), rr, pos, kws, call)
            return out
        # calling something computed
        self.ev(f, nid)
        return set()

    def _is_ast_method(self, m, recv) -> bool:
        return False

    def _read_all(self, refs) -> set:
        out = set()
        for r in refs:
            if is_tree(r[1]) or r[1].startswith("D:"):
                out.add(("o", r[1]))
            for (a, fld), v in list(self.heapval.items()):
                if a == r[1] and fld.split(".")[0] not in SHARED and not (fld.startswith("*.") and fld[2:] in SHARED):
                    out |= v
        return out

    def _listener_ctx(self, fk, pos, kws) -> str:
        f = self.funcs[fk]
        params = f.params[1:] if f.cls else f.params
        if "listener" not in params:
            return ""
        idx = params.index("listener")
        v = kws.get("listener") or (pos[idx][1] if idx < len(pos) else set())
        classes = sorted({self.ao_class(r[1]) or "?" for r in v})
        return ",".join(classes)

    def summary_find_class(self, call, recv, pos, kws, nid) -> set:
        """find_class: OWN iff `copy` is truthy (R06.4 checks the body has that shape)."""
        q = "ast:Class._find_class"
        if q not in self.funcs:
            raise AnalysisError(self.rule, "Class._find_class not found")
        p2 = pos[:1]
        found = self.call_function(q, "", recv, p2, {}, call)
        # the built-in branch allocates a fresh Class
        out = {("o", "A:Class@" + self.site(call, "b"))}
        flag = self.const_copy_flag(call)
        if not self.lookup_copies():
            flag = False  # the "copy" the lookup makes is not a deep copy: it aliases the tree
        if flag is True or flag is None:
            ao = "D:" + self.site(call, "f")
            self.new_deep(ao, found)
            out.add(("o", ao))
        if flag is False or flag is None:
            lab = "T:LOOKUP:" + self.site(call, "u")
            for r in found:
                out.add(("o", lab) if is_tree(r[1]) else r)
        return out

    # -- statements -------------------------------------------------------------
    def run_function(self, key):
        self.cur = key
        f = self.fn_info(key[0])
        cfg = f.cfg
        for n in cfg.nodes:
            a = n.ast
            if n.kind == "stmt":
                if isinstance(a, ast.Assign):
                    v = self.ev(a.value, n.id)
                    for t in a.targets:
                        if isinstance(t, (ast.Tuple, ast.List)) and isinstance(a.value, (ast.Tuple, ast.List)) and len(t.elts) == len(a.value.elts):
                            for te, ve in zip(t.elts, a.value.elts):
                                self.bind(te, self.ev(ve, n.id), n.id, a)
                        else:
                            self.bind(t, v, n.id, a)
                elif isinstance(a, ast.AnnAssign):
                    if a.value is not None:
                        self.bind(a.target, self.ev(a.value, n.id), n.id, a)
                elif isinstance(a, ast.AugAssign):
                    v = self.ev(a.value, n.id)
                    t = a.target
                    if isinstance(t, ast.Name):
                        old = self.lookup(t.id, n.id)
                        self.store_elem(old, self.elements(v), a)
                        self.defs.put((self.cur, n.id, t.id), old)
                    elif isinstance(t, ast.Attribute):
                        owner = self.ev(t.value, n.id)
                        cont = self.read_field(owner, t.attr)
                        self.sink(owner, a, "augmented attribute store")
                        self.store_elem(cont, self.elements(v), a)
                    elif isinstance(t, ast.Subscript):
                        self.store_elem(self.ev(t.value, n.id), v, a)
                elif isinstance(a, ast.Expr):
                    self.ev(a.value, n.id)
                elif isinstance(a, ast.Return):
                    self.rets.put(key, self.ev(a.value, n.id))
                elif isinstance(a, ast.Delete):
                    for t in a.targets:
                        if isinstance(t, ast.Attribute):
                            self.sink(self.ev(t.value, n.id), a, "attribute delete")
                        elif isinstance(t, ast.Subscript):
                            self.sink(self.ev(t.value, n.id), a, "item delete")
                elif isinstance(a, ast.Raise):
                    self.ev(a.exc, n.id)
                elif isinstance(a, ast.Assert):
                    self.ev(a.test, n.id)
            elif n.kind == "test":
                self.ev(a, n.id)
            elif n.kind == "iter":
                self.bind(a.target, self.elements(self.ev(a.iter, n.id)), n.id, a, unpack=False) if not isinstance(a.target, (ast.Tuple, ast.List)) \
                    else self.bind(a.target, self.elements(self.ev(a.iter, n.id)), n.id, a)
            elif n.kind == "with":
                for it in a.items:
                    v = self.ev(it.context_expr, n.id)
                    if it.optional_vars is not None:
                        self.bind(it.optional_vars, v, n.id, a)

    def solve(self, entry: str, root_param: str):
        key = (entry, "")
        self.reached.append(key)
        self.reached_set.add(key)
        self.params.put((key, root_param), {("o", "T:ROOT")})
        rounds = 0
        runs = 0
        while True:
            rounds += 1
            self.changed = False
            for k in list(self.reached):
                snap = self.snap.get(k)
                if snap is not None and all(self.ver[c] == v for c, v in snap.items()):
                    continue
                self.reads = set()
                self.run_function(k)
                runs += 1
                self.snap[k] = {c: self.ver[c] for c in self.reads}
                self.reads = None
            if not self.changed:
                break
            if rounds > 200:
                raise AnalysisError(self.rule, "ownership analysis did not reach a fixpoint in 200 rounds")
        self.runs = runs
        return rounds


def _label_site(label: str) -> str:
    return label


def analyse_flatten(ctx: Context, rule: str) -> Result:
    if "origins" in ctx.cache:
        return ctx.cache["origins"]
    an = Analysis(ctx, rule)
    if "tree:flatten" not in an.funcs:
        raise AnalysisError(rule, "tree.flatten not found")
    fl = an.funcs["tree:flatten"]
    rounds = an.solve("tree:flatten", fl.params[0])
    for k in an.reached_set:
        ctx.functions_analysed.add(("%s:%s" % (TREE if k[0].startswith("tree:") else ASTM, k[0].split(":", 1)[1])))
    res = Result()
    res.stats = {
        "functions_reached": len({k[0] for k in an.reached_set}),
        "contexts": len(an.reached_set),
        "fixpoint_rounds": rounds,
        "abstract_objects": len({r[1] for v in list(an.defs.values()) + list(an.params.values()) for r in v}),
        "heap_cells": len(an.heapval) + len(an.heapelem),
        "sinks_on_tree_objects": len(an.sinks),
        "unresolved_callee_names": sorted(an.unknown_calls),
    }
    by_label: Dict[str, List[dict]] = defaultdict(list)
    for s in an.sinks.values():
        by_label[s["label"]].append(s)

    def fnsite(fk):
        mk, q = fk.split(":", 1)
        return "%s:%s" % (TREE if mk == "tree" else ASTM, q)

    labels = set(by_label) | {"T:ROOT", "T:PARENT"}
    for lab in sorted(labels):
        sinks = sorted(by_label.get(lab, []), key=lambda s: (s["fn"], s["stmt"]))
        open_, exempt = [], []
        for s in sinks:
            reason = None
            for fq, pred, why in EXCEPTIONS:
                if s["fn"] == fq and pred(s["stmt"]):
                    reason = why
            (exempt if reason else open_).append((s, reason))
        if lab.startswith("T:LOOKUP:") or lab.startswith("T:CONST:"):
            src = lab.split(":", 2)[2]
            fk = src.split("#")[0]
            site = fnsite(fk)
        elif lab == "T:ROOT":
            site = fnsite("tree:flatten")
        else:
            site = ASTM + ":Class.__deepcopy__"
        key = "source:" + lab[2:]
        if open_:
            ex = "; ".join("%s: `%s`" % (fnsite(s["fn"]).split(":", 1)[1], s["stmt"]) for s, _ in open_[:4])
            res.findings.append({
                "site": site, "key": key, "ok": False,
                "msg": "%d statement(s) may write to objects owned by the caller's tree (source: %s). e.g. %s"
                       % (len(open_), _describe(lab), ex),
                "path": " | ".join("%s: %s" % (s["fn"], s["stmt"]) for s, _ in open_[:12]),
            })
        else:
            res.findings.append({
                "site": site, "key": key, "ok": True,
                "msg": "no write reaches objects with this origin (%s)%s" % (
                    _describe(lab), ("; %d write(s) covered by a reviewed exception" % len(exempt)) if exempt else ""),
            })
        for s, why in exempt[:0]:
            pass
        if exempt:
            res.notes.append("reviewed exception for %s: %d write(s), e.g. %s: `%s` — %s"
                             % (lab, len(exempt), exempt[0][0]["fn"], exempt[0][0]["stmt"], exempt[0][1]))
    ctx.cache["origins"] = res
    ctx.cache["origins_analysis"] = an
    return res


def _describe(lab: str) -> str:
    if lab == "T:ROOT":
        return "the root argument of flatten"
    if lab == "T:PARENT":
        return ".parent/.root of a copied class (shared on purpose by Class.__deepcopy__)"
    if lab.startswith("T:LOOKUP:"):
        return "un-copied lookup at " + lab.split(":", 2)[2]
    if lab.startswith("T:CONST:"):
        return "find_constant_symbol result at " + lab.split(":", 2)[2]
    return lab
