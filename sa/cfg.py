"""Statement-level control-flow graph for the Python subset pymoca uses.

Hand-built because no CFG library is available offline.  It fails closed
(AnalysisError) on statement kinds it does not know (match, async, yield).

Node kinds
  entry / exit / raise_exit     function boundaries (raise_exit = leaves by exception)
  stmt                          a simple statement
  test                          the condition of an if/while (ast = the expr)
  iter                          the iterable of a for loop (ast = the For)
  assume                        synthetic marker on a branch edge: (test expr, taken?)
  with                          evaluation of with-items
  handler                       entry of an except clause (ast = ExceptHandler)

Exceptions: every node created inside a ``try`` body gets an edge to each
handler of the enclosing ``try`` statements (innermost first, stopping after a
catch-all), i.e. "any statement may raise anything" — conservative for
must-pass-through rules, which quantify over paths.  Outside ``try`` bodies only
explicit ``raise`` statements leave through ``raise_exit``; paths that leave by
an implicit exception are outside every path rule here (documented in DESIGN).
"""
from __future__ import annotations

import ast
from typing import Callable, Dict, Iterable, List, Optional, Set

from .engine import AnalysisError, norm


class Node:
    __slots__ = ("id", "kind", "ast", "taken", "label")

    def __init__(self, id, kind, astnode=None, taken=None, label=""):
        self.id = id
        self.kind = kind
        self.ast = astnode
        self.taken = taken
        self.label = label

    def text(self) -> str:
        if self.kind in ("entry", "exit", "raise_exit"):
            return "<%s>" % self.kind
        if self.kind == "assume":
            return "assume %s(%s)" % ("" if self.taken else "not ", norm(self.ast))
        if self.kind == "handler":
            t = norm(self.ast.type) if self.ast.type is not None else ""
            return "except %s:" % t
        if self.kind == "iter":
            return "for %s in %s" % (norm(self.ast.target), norm(self.ast.iter))
        if self.kind == "with":
            return "with " + ", ".join(norm(i) for i in self.ast.items)
        return norm(self.ast)

    @property
    def lineno(self):
        return getattr(self.ast, "lineno", 0)

    def __repr__(self):
        return "<%d %s %s>" % (self.id, self.kind, self.text()[:60])


_CATCH_ALL = {"Exception", "BaseException"}


def _handler_names(h: ast.ExceptHandler) -> List[str]:
    if h.type is None:
        return ["BaseException"]
    t = h.type
    elts = t.elts if isinstance(t, ast.Tuple) else [t]
    out = []
    for e in elts:
        out.append(norm(e))
    return out


class CFG:
    def __init__(self, fn: ast.AST, rule: str = "cfg"):
        self.fn = fn
        self.rule = rule
        self.nodes: List[Node] = []
        self.succ: Dict[int, Set[int]] = {}
        self.pred: Dict[int, Set[int]] = {}
        self.entry = self._new("entry").id
        self.exit = self._new("exit").id
        self.raise_exit = self._new("raise_exit").id
        self._loops = []  # (continue_target_id, break_collector_list)
        self._trys = []  # list of lists of handler node ids (+ catchall flag)
        self._finals = []  # pending finalbodies (list of stmts)
        body = fn.body if hasattr(fn, "body") else fn
        outs = self._seq(body, {self.entry})
        for o in outs:
            self._edge(o, self.exit)
        self._dom = None
        self._pdom = None

    # -- construction ---------------------------------------------------
    def _new(self, kind, astnode=None, taken=None) -> Node:
        n = Node(len(self.nodes), kind, astnode, taken)
        self.nodes.append(n)
        self.succ[n.id] = set()
        self.pred[n.id] = set()
        return n

    def _edge(self, a: int, b: int):
        self.succ[a].add(b)
        self.pred[b].add(a)

    def _link(self, preds: Iterable[int], n: Node):
        for p in preds:
            self._edge(p, n.id)
        # exception edges for nodes inside try bodies
        self._exc_edges(n.id)

    def _exc_edges(self, nid: int, explicit_types: Optional[List[str]] = None):
        """Connect nid to the handlers that may catch an exception raised there."""
        for handlers, in_body in reversed(self._trys):
            if not in_body:
                continue
            caught_all = False
            for hid, names in handlers:
                self._edge(nid, hid)
                if any(n.split(".")[-1] in _CATCH_ALL for n in names):
                    caught_all = True
            if caught_all:
                return
        if explicit_types is not None or self._trys:
            # may propagate out of the function
            if explicit_types is not None:
                self._edge(nid, self.raise_exit)
            else:
                self._edge(nid, self.raise_exit)

    def _run_finals(self, preds: Set[int], upto: int = 0) -> Set[int]:
        """Abrupt exit: run pending finally bodies (innermost first)."""
        cur = set(preds)
        for fb in reversed(self._finals[upto:]):
            saved = self._finals
            self._finals = []
            cur = self._seq(fb, cur)
            self._finals = saved
        return cur

    def _seq(self, stmts, preds: Set[int]) -> Set[int]:
        cur = set(preds)
        for st in stmts:
            cur = self._stmt(st, cur)
        return cur

    def _stmt(self, st, preds: Set[int]) -> Set[int]:
        if isinstance(st, ast.If):
            t = self._new("test", st.test)
            self._link(preds, t)
            a_t = self._new("assume", st.test, True)
            a_f = self._new("assume", st.test, False)
            self._edge(t.id, a_t.id)
            self._edge(t.id, a_f.id)
            out_t = self._seq(st.body, {a_t.id})
            out_f = self._seq(st.orelse, {a_f.id})
            return out_t | out_f
        if isinstance(st, ast.While):
            t = self._new("test", st.test)
            self._link(preds, t)
            a_t = self._new("assume", st.test, True)
            a_f = self._new("assume", st.test, False)
            self._edge(t.id, a_t.id)
            self._edge(t.id, a_f.id)
            breaks: List[int] = []
            self._loops.append((t.id, breaks, len(self._finals)))
            out_b = self._seq(st.body, {a_t.id})
            self._loops.pop()
            for o in out_b:
                self._edge(o, t.id)
            out_else = self._seq(st.orelse, {a_f.id})
            return out_else | set(breaks)
        if isinstance(st, (ast.For,)):
            it = self._new("iter", st)
            self._link(preds, it)
            a_t = self._new("assume", st.iter, True)  # an element was produced
            a_f = self._new("assume", st.iter, False)  # exhausted
            self._edge(it.id, a_t.id)
            self._edge(it.id, a_f.id)
            breaks = []
            self._loops.append((it.id, breaks, len(self._finals)))
            out_b = self._seq(st.body, {a_t.id})
            self._loops.pop()
            for o in out_b:
                self._edge(o, it.id)
            out_else = self._seq(st.orelse, {a_f.id})
            return out_else | set(breaks)
        if isinstance(st, ast.With):
            w = self._new("with", st)
            self._link(preds, w)
            return self._seq(st.body, {w.id})
        if isinstance(st, ast.Try) or st.__class__.__name__ == "TryStar":
            handlers = []
            for h in st.handlers:
                hn = self._new("handler", h)
                handlers.append((hn.id, _handler_names(h)))
            if st.finalbody:
                self._finals.append(st.finalbody)
            self._trys.append((handlers, True))
            out_body = self._seq(st.body, preds)
            self._trys.pop()
            # else-clause and handlers run outside the protection of this try
            out_else = self._seq(st.orelse, out_body) if st.orelse else out_body
            outs = set(out_else)
            for (hid, _names), h in zip(handlers, st.handlers):
                outs |= self._seq(h.body, {hid})
            if st.finalbody:
                self._finals.pop()
                # normal completion runs the finally body once
                outs = self._seq(st.finalbody, outs)
                if not handlers:
                    # try/finally: an exception in the body runs the finally
                    # body and propagates; model as edge body->finally->raise
                    pass
            return outs
        if isinstance(st, ast.Return):
            n = self._new("stmt", st)
            self._link(preds, n)
            outs = self._run_finals({n.id})
            for o in outs:
                self._edge(o, self.exit)
            return set()
        if isinstance(st, ast.Raise):
            n = self._new("stmt", st)
            for p in preds:
                self._edge(p, n.id)
            names = None
            if st.exc is not None:
                e = st.exc.func if isinstance(st.exc, ast.Call) else st.exc
                names = [norm(e)]
            self._raise_edges(n.id, names)
            return set()
        if isinstance(st, ast.Break):
            n = self._new("stmt", st)
            self._link(preds, n)
            if not self._loops:
                raise AnalysisError(self.rule, "break outside loop")
            _t, breaks, depth = self._loops[-1]
            breaks.extend(self._run_finals({n.id}, depth))
            return set()
        if isinstance(st, ast.Continue):
            n = self._new("stmt", st)
            self._link(preds, n)
            if not self._loops:
                raise AnalysisError(self.rule, "continue outside loop")
            t, _breaks, depth = self._loops[-1]
            for o in self._run_finals({n.id}, depth):
                self._edge(o, t)
            return set()
        if isinstance(
            st,
            (
                ast.Expr,
                ast.Assign,
                ast.AugAssign,
                ast.AnnAssign,
                ast.Pass,
                ast.Delete,
                ast.Assert,
                ast.Import,
                ast.ImportFrom,
                ast.Global,
                ast.Nonlocal,
                ast.FunctionDef,
                ast.ClassDef,
            ),
        ):
            if isinstance(st, ast.Expr) and isinstance(st.value, (ast.Yield, ast.YieldFrom, ast.Await)):
                raise AnalysisError(self.rule, "unsupported statement kind: yield/await")
            n = self._new("stmt", st)
            self._link(preds, n)
            return {n.id}
        raise AnalysisError(self.rule, "unsupported statement kind: %s" % type(st).__name__)

    def _raise_edges(self, nid: int, names: Optional[List[str]]):
        """Explicit raise: go to the first enclosing try (in its body) whose
        handler names may match; conservative by-name matching."""
        for handlers, in_body in reversed(self._trys):
            if not in_body:
                continue
            matched_all = False
            for hid, hnames in handlers:
                self._edge(nid, hid)
                short = {h.split(".")[-1] for h in hnames}
                if short & _CATCH_ALL:
                    matched_all = True
                if names and {n.split(".")[-1] for n in names} & short:
                    matched_all = True
            if matched_all:
                return
        outs = self._run_finals({nid})
        for o in outs:
            self._edge(o, self.raise_exit)

    # -- queries --------------------------------------------------------
    def find(self, pred: Callable[[Node], bool]) -> List[Node]:
        return [n for n in self.nodes if pred(n)]

    def stmts(self) -> List[Node]:
        return [n for n in self.nodes if n.kind == "stmt"]

    def reachable(self, src: int, avoid: Optional[Set[int]] = None, forward=True) -> Set[int]:
        avoid = avoid or set()
        nxt = self.succ if forward else self.pred
        seen = set()
        stack = [src]
        while stack:
            x = stack.pop()
            if x in seen:
                continue
            seen.add(x)
            for y in nxt[x]:
                if y not in avoid and y not in seen:
                    stack.append(y)
        return seen

    def path(self, src: int, dst: int, avoid: Optional[Set[int]] = None) -> Optional[List[Node]]:
        """A shortest path src→dst avoiding the given nodes (for diagnostics)."""
        avoid = avoid or set()
        prev = {src: None}
        queue = [src]
        while queue:
            x = queue.pop(0)
            if x == dst:
                out = []
                while x is not None:
                    out.append(self.nodes[x])
                    x = prev[x]
                return list(reversed(out))
            for y in sorted(self.succ[x]):
                if y not in prev and y not in avoid:
                    prev[y] = x
                    queue.append(y)
        return None

    def must_pass(self, src: int, dst: int, through: Set[int]) -> Optional[List[Node]]:
        """None if every path src→dst passes a node of ``through``;
        otherwise a witness path that avoids them."""
        through = set(through) - {src, dst}
        return self.path(src, dst, through)

    def dominators(self) -> Dict[int, Set[int]]:
        if self._dom is None:
            self._dom = self._compute_dom(self.entry, self.pred, self.succ)
        return self._dom

    def postdominators(self) -> Dict[int, Set[int]]:
        if self._pdom is None:
            self._pdom = self._compute_dom(self.exit, self.succ, self.pred)
        return self._pdom

    def _compute_dom(self, root, pred, succ):
        reach = set()
        stack = [root]
        while stack:
            x = stack.pop()
            if x in reach:
                continue
            reach.add(x)
            stack.extend(succ[x])
        dom = {n: set(reach) for n in reach}
        dom[root] = {root}
        changed = True
        order = sorted(reach)
        while changed:
            changed = False
            for n in order:
                if n == root:
                    continue
                ps = [p for p in pred[n] if p in reach]
                if not ps:
                    new = {n}
                else:
                    new = set.intersection(*(dom[p] for p in ps)) | {n}
                if new != dom[n]:
                    dom[n] = new
                    changed = True
        return dom

    def dominated_by(self, nid: int, pred: Callable[[Node], bool]) -> List[Node]:
        d = self.dominators().get(nid, set())
        return [self.nodes[i] for i in sorted(d) if i != nid and pred(self.nodes[i])]

    def describe(self, path: List[Node], limit: int = 12) -> str:
        parts = []
        for n in path:
            if n.kind in ("stmt", "assume", "handler", "entry", "exit", "raise_exit", "iter"):
                t = n.text()
                parts.append(t if len(t) < 70 else t[:67] + "...")
        if len(parts) > limit:
            parts = parts[: limit // 2] + ["..."] + parts[-limit // 2 :]
        return " -> ".join(parts)


# ---------------------------------------------------------------------------
# Reaching definitions of one local variable


def _binds(n: Node, var: str) -> bool:
    a = n.ast
    if n.kind == "stmt":
        if isinstance(a, ast.Assign):
            for t in a.targets:
                for x in ast.walk(t):
                    if isinstance(x, ast.Name) and x.id == var and isinstance(x.ctx, ast.Store):
                        return True
        elif isinstance(a, (ast.AugAssign, ast.AnnAssign)):
            t = a.target
            if isinstance(t, ast.Name) and t.id == var:
                return not (isinstance(a, ast.AnnAssign) and a.value is None)
        elif isinstance(a, (ast.FunctionDef, ast.ClassDef)):
            return a.name == var
        elif isinstance(a, (ast.Import, ast.ImportFrom)):
            return any((al.asname or al.name.split(".")[0]) == var for al in a.names)
        # walrus
        for x in ast.walk(a) if not isinstance(a, (ast.FunctionDef, ast.ClassDef)) else []:
            if isinstance(x, ast.NamedExpr) and isinstance(x.target, ast.Name) and x.target.id == var:
                return True
    elif n.kind == "iter":
        for x in ast.walk(a.target):
            if isinstance(x, ast.Name) and x.id == var:
                return True
    elif n.kind == "with":
        for it in a.items:
            if it.optional_vars is not None:
                for x in ast.walk(it.optional_vars):
                    if isinstance(x, ast.Name) and x.id == var:
                        return True
    elif n.kind == "handler":
        return a.name == var
    elif n.kind == "test":
        for x in ast.walk(a):
            if isinstance(x, ast.NamedExpr) and isinstance(x.target, ast.Name) and x.target.id == var:
                return True
    return False


def reaching_defs(cfg: CFG, var: str) -> Dict[int, frozenset]:
    """node id -> set of node ids whose binding of ``var`` may reach the *entry*
    of that node.  cfg.entry stands for 'parameter / free variable'."""
    gen = {n.id for n in cfg.nodes if _binds(n, var)}
    IN: Dict[int, set] = {n.id: set() for n in cfg.nodes}
    OUT: Dict[int, set] = {n.id: set() for n in cfg.nodes}
    OUT[cfg.entry] = {cfg.entry}
    work = [n.id for n in cfg.nodes]
    while work:
        x = work.pop(0)
        new_in = set()
        for p in cfg.pred[x]:
            new_in |= OUT[p]
        IN[x] = new_in
        if x == cfg.entry:
            new_out = {cfg.entry}
        elif x in gen:
            new_out = {x}
        else:
            new_out = new_in
        if new_out != OUT[x]:
            OUT[x] = set(new_out)
            for s in cfg.succ[x]:
                if s not in work:
                    work.append(s)
    return {k: frozenset(v) for k, v in IN.items()}


def def_value(n: Node, var: str):
    """The expression bound to ``var`` by a simple ``var = <expr>`` node, else None."""
    a = n.ast
    if n.kind == "stmt" and isinstance(a, ast.Assign) and len(a.targets) == 1:
        t = a.targets[0]
        if isinstance(t, ast.Name) and t.id == var:
            return a.value
    if n.kind == "stmt" and isinstance(a, ast.AnnAssign) and isinstance(a.target, ast.Name):
        if a.target.id == var:
            return a.value
    return None


# ---------------------------------------------------------------------------
# Path-sensitive exploration: along one concrete path exactly one definition of
# a variable reaches, so the state is (node, reaching def).  ``none_polarity``
# tells which tests are None-tests of the variable: it returns True for
# `v is None`, False for `v is not None`, None for anything else.  A branch is
# infeasible when the reaching def binds the literal None and the branch asserts
# "not None", or binds another literal constant and the branch asserts "None".


def _simple_bind(n: Node, var: str) -> bool:
    return def_value(n, var) is not None


def explore_defs(cfg: CFG, var: str, none_polarity, src=None, src_defs=None, avoid=()):
    """Returns (reach, prev): reach[node] = set of def ids that can reach the
    entry of node on a feasible path from ``src``; prev for witness paths."""
    avoid = set(avoid)
    if src is None:
        src = cfg.entry
    if src_defs is None:
        src_defs = {cfg.entry}
    start = [(src, d) for d in src_defs]
    prev = {s: None for s in start}
    reach: Dict[int, set] = {}
    queue = list(start)
    while queue:
        n, d = queue.pop(0)
        reach.setdefault(n, set()).add(d)
        node = cfg.nodes[n]
        if node.kind == "assume":
            pol = none_polarity(node.ast)
            if pol is not None and d != cfg.entry:
                v = def_value(cfg.nodes[d], var)
                asserts_none = pol == node.taken
                if isinstance(v, ast.Constant):
                    if v.value is None and not asserts_none:
                        reach[n].discard(d)
                        continue
                    if v.value is not None and asserts_none:
                        reach[n].discard(d)
                        continue
        binds = _binds(node, var)
        d_out = n if binds else d
        for s in cfg.succ[n]:
            if s in avoid:
                continue
            outs = [d_out]
            if cfg.nodes[s].kind == "handler" and binds:
                outs = [d] if _simple_bind(node, var) else [d, d_out]
            for do in outs:
                st = (s, do)
                if st not in prev:
                    prev[st] = (n, d)
                    queue.append(st)
    return reach, prev


def witness(cfg: CFG, prev, node: int) -> Optional[List[Node]]:
    for (n, d) in prev:
        if n == node:
            out = []
            cur = (n, d)
            while cur is not None:
                out.append(cfg.nodes[cur[0]])
                cur = prev[cur]
            return list(reversed(out))
    return None


def must_facts(cfg: CFG, transfer: Callable[[Node, frozenset], frozenset], join=None) -> Dict[int, frozenset]:
    """Forward dataflow over the CFG.  `transfer(node, in)` gives the node's OUT set; `join(list of OUT sets)` merges
    predecessors (default: intersection = facts that hold on EVERY path reaching a node); unreached nodes are left out."""
    join = join or (lambda ins: frozenset.intersection(*ins))
    IN: Dict[int, Optional[frozenset]] = {n.id: None for n in cfg.nodes}
    OUT: Dict[int, Optional[frozenset]] = {n.id: None for n in cfg.nodes}
    IN[cfg.entry] = frozenset()
    work = [cfg.entry]
    while work:
        x = work.pop()
        if x != cfg.entry:
            ins = [OUT[p] for p in cfg.pred[x] if OUT[p] is not None]
            if not ins:
                continue
            new_in = join(ins)
            IN[x] = new_in
        out = transfer(cfg.nodes[x], IN[x])
        if out != OUT[x]:
            OUT[x] = out
            work.extend(cfg.succ[x])
    return {k: v for k, v in IN.items() if v is not None}


def explore_facts(cfg: CFG, transfer: Callable[[Node, frozenset], Optional[frozenset]], start: Optional[int] = None,
                  init: frozenset = frozenset(), limit: int = 50000) -> Dict[int, Set[frozenset]]:
    """Path-sensitive forward exploration: every node gets the SET of fact sets with which it can be reached (no join, so
    correlations between variables survive).  `transfer(node, facts)` returns the facts after the node, or None when the
    node cannot be passed with these facts (an `assume` that contradicts them): the path is infeasible and dropped."""
    start = cfg.entry if start is None else start
    seen: Dict[int, Set[frozenset]] = {n.id: set() for n in cfg.nodes}
    work = [(start, init)]
    steps = 0
    while work:
        nid, facts = work.pop()
        if facts in seen[nid]:
            continue
        seen[nid].add(facts)
        steps += 1
        if steps > limit:
            raise AnalysisError("cfg", "explore_facts: state limit exceeded")
        out = transfer(cfg.nodes[nid], facts)
        if out is None:
            continue
        for s in cfg.succ[nid]:
            work.append((s, out))
    return seen


def none_facts_transfer(node: Node, facts: frozenset) -> Optional[frozenset]:
    """facts ("none", v) / ("nn", v) about local names being None / not None, from assignments and `is None` tests"""
    f = set(facts)

    def known(v):
        return "none" if ("none", v) in f else ("nn" if ("nn", v) in f else None)

    def atoms(test, positive):
        if isinstance(test, ast.UnaryOp) and isinstance(test.op, ast.Not):
            return atoms(test.operand, not positive)
        if isinstance(test, ast.BoolOp):
            if (isinstance(test.op, ast.And) and positive) or (isinstance(test.op, ast.Or) and not positive):
                out = []
                for v in test.values:
                    a = atoms(v, positive)
                    if a is None:
                        return None
                    out.extend(a)
                return out
            # a disjunction known true (or conjunction known false): if all but one alternative are refuted, the last holds
            alts = []
            for v in test.values:
                a = atoms(v, positive)
                if a is None:
                    return []  # unknown alternative: nothing to learn
                refuted = any((k == "none" and known(x) == "nn") or (k == "nn" and known(x) == "none") for k, x in a)
                if not refuted:
                    alts.append(a)
            if not alts:
                return None  # every alternative contradicts the facts: infeasible
            return alts[0] if len(alts) == 1 else []
        if isinstance(test, ast.Compare) and len(test.ops) == 1 and isinstance(test.left, ast.Name) \
                and isinstance(test.comparators[0], ast.Constant) and test.comparators[0].value is None and isinstance(test.ops[0], (ast.Is, ast.IsNot)):
            is_none = isinstance(test.ops[0], ast.Is) == positive
            return [("none" if is_none else "nn", test.left.id)]
        return []

    if node.kind == "assume":
        a = atoms(node.ast, bool(node.taken))
        if a is None:
            return None
        for k, v in a:
            if known(v) is not None and known(v) != k:
                return None
            f.add((k, v))
    elif node.kind == "stmt" and isinstance(node.ast, (ast.Assign, ast.AugAssign, ast.AnnAssign)):
        tgts = node.ast.targets if isinstance(node.ast, ast.Assign) else [node.ast.target]
        for t in tgts:
            for nm in ast.walk(t):
                if isinstance(nm, ast.Name) and isinstance(nm.ctx, ast.Store):
                    f = {x for x in f if x[1] != nm.id}
        if isinstance(node.ast, ast.Assign) and len(tgts) == 1 and isinstance(tgts[0], ast.Name):
            v = node.ast.value
            if isinstance(v, ast.Constant):
                f.add(("none" if v.value is None else "nn", tgts[0].id))
            elif isinstance(v, ast.Name) and known(v.id):
                f.add((known(v.id), tgts[0].id))
            elif isinstance(v, (ast.List, ast.Tuple, ast.Dict, ast.Set, ast.BinOp, ast.JoinedStr)) or (
                    isinstance(v, ast.Call) and isinstance(v.func, ast.Name) and v.func.id in ("slice", "int", "list", "str", "len", "range")):
                f.add(("nn", tgts[0].id))
    elif node.kind == "iter":
        for nm in ast.walk(node.ast.target):
            if isinstance(nm, ast.Name):
                f = {x for x in f if x[1] != nm.id}
    return frozenset(f)


_NEG = {ast.NotEq: ast.Eq, ast.IsNot: ast.Is, ast.NotIn: ast.In}


def _canon_test(e):
    """(canonical positive text, polarity) of a test: strips `not`, turns != / is not / not in into their positive forms"""
    pol = True
    while isinstance(e, ast.UnaryOp) and isinstance(e.op, ast.Not):
        e, pol = e.operand, not pol
    if isinstance(e, ast.Compare) and len(e.ops) == 1 and type(e.ops[0]) in _NEG:
        e2 = ast.Compare(left=e.left, ops=[_NEG[type(e.ops[0])]()], comparators=e.comparators)
        return norm(e2), not pol
    return norm(e), pol


def assume_truth(x: Node, expr: str) -> Optional[bool]:
    """If CFG node `x` is an assume node about `expr` (written in any polarity: `E`, `not E`, `a != b` for `a == b`, ...),
    the truth value of `expr` on the outgoing side; None when the node is about something else.  Conjunctions known true and
    disjunctions known false are looked into."""
    if x.kind != "assume":
        return None
    want, wpol = _canon_test(ast.parse(expr, mode="eval").body)

    def look(t, holds: bool):
        if isinstance(t, ast.UnaryOp) and isinstance(t.op, ast.Not):
            return look(t.operand, not holds)
        if isinstance(t, ast.BoolOp):
            if (isinstance(t.op, ast.And) and holds) or (isinstance(t.op, ast.Or) and not holds):
                for v in t.values:
                    r = look(v, holds)
                    if r is not None:
                        return r
            return None
        got, gpol = _canon_test(t)
        if got == want:
            return (holds == gpol) == wpol
        return None

    return look(x.ast, bool(x.taken))


def iteration_skips(cfg: CFG, loop: ast.For, pred: Callable[[Node], bool]) -> Optional[List[Node]]:
    """A path through one iteration of `loop` (from its head into the body and back to the head, or out of the loop through a
    `break`) that passes no node satisfying `pred`; None when every iteration passes one.  Paths that leave by raising are not
    iterations that "end" and are not reported."""
    it = [x for x in cfg.nodes if x.kind == "iter" and x.ast is loop]
    if not it:
        raise AnalysisError("cfg", "loop head not found in CFG")
    it = it[0]
    inside = {id(n) for st in loop.body for n in ast.walk(st)}
    through = {x.id for x in cfg.nodes if x.ast is not None and pred(x)}
    starts = []
    for s in cfg.succ[it.id]:
        nd = cfg.nodes[s]
        if nd.kind == "assume" and nd.taken:
            starts.extend(cfg.succ[s])
        elif nd.ast is not None and id(nd.ast) in inside:
            starts.append(s)
    if not starts:
        raise AnalysisError("cfg", "loop body entry not found in CFG")
    for s in starts:
        if s in through:
            continue
        # back to the head
        w = cfg.path(s, it.id, through)
        if w is not None:
            return w
        # or out through a break of THIS loop (a break of a loop nested in the body ends that loop, not the iteration)
        nested = {id(n) for st in loop.body for lp2 in ast.walk(st) if isinstance(lp2, (ast.For, ast.While)) for b in lp2.body + lp2.orelse for n in ast.walk(b)}
        for x in cfg.nodes:
            if x.kind == "stmt" and isinstance(x.ast, ast.Break) and id(x.ast) in inside and id(x.ast) not in nested:
                w = cfg.path(s, x.id, through | {it.id})
                if w is not None and x.id not in through:
                    return w
    return None


def enclosing_loops(fn: ast.AST, inner: ast.AST) -> List[ast.For]:
    """the For loops of `fn` that contain `inner`, outermost first (inner itself excluded)"""
    out = []

    def walk(node, chain):
        for ch in ast.iter_child_nodes(node):
            if ch is inner:
                out.extend(chain)
                return True
            if isinstance(ch, (ast.FunctionDef, ast.AsyncFunctionDef, ast.Lambda, ast.ClassDef)):
                continue
            if walk(ch, chain + [ch] if isinstance(ch, ast.For) else chain):
                return True
        return False

    walk(fn, [])
    return out


def loop_nest_skips(cfg: CFG, fn: ast.AST, inner: ast.For, pred: Callable[[Node], bool]):
    """(loop, witness path) for the first loop of the nest around `inner` (outermost first, `inner` last) one of whose iterations can end
    without reaching the next loop of the nest — or, for `inner` itself, without passing a node that satisfies `pred`; None when the
    nest is total: every element of every level gets to the statement `pred` describes."""
    chain = enclosing_loops(fn, inner) + [inner]
    for i, lp in enumerate(chain):
        if lp is inner:
            w = iteration_skips(cfg, lp, pred)
        else:
            nxt = chain[i + 1]
            w = iteration_skips(cfg, lp, lambda x, nxt=nxt: x.kind == "iter" and x.ast is nxt)
        if w is not None:
            return lp, w
    return None
