"""Core of the static-analysis framework: source context, obligations, reports.

Nothing here runs pymoca.  Every verdict is taken from the *source text* of
/repo (Python ``ast``, the ANTLR grammar text, literal tables), re-read on
every run.
"""
from __future__ import annotations

import ast
import hashlib
import json
import os
import re
import time
from dataclasses import dataclass, field
from typing import Callable, Dict, Iterable, List, Optional


class AnalysisError(Exception):
    """The checker could not analyse (anchor vanished, parse error ...).

    Turned into ``ANALYSIS-ERROR`` + exit status 2 by check.py; never a
    silent pass and never a VIOLATION.
    """

    def __init__(self, rule: str, what: str):
        super().__init__("rule=%s %s" % (rule, what))
        self.rule = rule
        self.what = what


class MechanismMissing(AnalysisError):
    """The anchor function exists but the construct that implements the property's
    mechanism could not be found in it (guard deleted, loop rewritten away ...).
    Unlike a vanished file/function this is reported as a VIOLATION of the rule:
    the disappearance of the mechanism is what a must-exist rule is about."""


def norm(node_or_text) -> str:
    """Normalised text of an AST node (or string): formatting-insensitive."""
    if isinstance(node_or_text, ast.AST):
        txt = ast.unparse(node_or_text)
    else:
        txt = str(node_or_text)
    return re.sub(r"\s+", " ", txt).strip()


def short(txt: str, n: int = 140) -> str:
    txt = re.sub(r"\s+", " ", txt).strip()
    return txt if len(txt) <= n else txt[: n - 3] + "..."


@dataclass
class Obligation:
    rule: str
    site: str  # "<relative file>:<qualified function or table>"
    key: str  # normalised construct that identifies the instance
    ok: bool
    msg: str  # what was required / what was found
    detail: dict = field(default_factory=dict)

    def ident(self):
        return (self.rule, self.site, self.key)

    def to_json(self):
        d = {
            "rule": self.rule,
            "site": self.site,
            "key": self.key,
            "verdict": "discharged" if self.ok else "VIOLATED",
            "msg": self.msg,
        }
        if self.detail:
            d["detail"] = self.detail
        return d


# per-file canonicalisers registered by a property module (applied after the general normalisers): (module AST) -> None
FILE_NORMALISERS: Dict[str, list] = {}


class Context:
    """Read-only view of the repository under analysis.

    ``overlay`` maps a relative path to replacement source text; it is how the
    thorough tier evaluates a rule on a seeded variant of one file without
    touching /repo or writing scratch copies.
    """

    def __init__(self, repo: str = "/repo", overlay: Optional[Dict[str, str]] = None):
        self.repo = repo
        self.overlay = dict(overlay or {})
        self._text: Dict[str, str] = {}
        self._mod: Dict[str, ast.Module] = {}
        self.files_read: Dict[str, str] = {}  # rel -> sha1
        self.functions_analysed: set = set()
        self.cache: dict = {}

    # -- files ----------------------------------------------------------
    def exists(self, rel: str) -> bool:
        return rel in self.overlay or os.path.exists(os.path.join(self.repo, rel))

    def read(self, rel: str, rule: str = "source") -> str:
        if rel not in self._text:
            if rel in self.overlay:
                txt = self.overlay[rel]
            else:
                p = os.path.join(self.repo, rel)
                try:
                    with open(p, "r", encoding="utf-8") as f:
                        txt = f.read()
                except OSError as e:
                    raise AnalysisError(rule, "cannot read %s: %s" % (rel, e))
            self._text[rel] = txt
            self.files_read[rel] = hashlib.sha1(txt.encode("utf-8")).hexdigest()[:12]
        return self._text[rel]

    def module(self, rel: str, rule: str = "source") -> ast.Module:
        if rel not in self._mod:
            txt = self.read(rel, rule)
            try:
                mod = ast.parse(txt, filename=rel)
            except SyntaxError as e:
                raise AnalysisError(rule, "cannot parse %s: %s" % (rel, e))
            if rel.endswith(".py") and "/generated/" not in rel and os.environ.get("VERIF_NO_NORMALISE") != "1":
                from .inline_helpers import inline_new_helpers, inventory
                known = inventory().get(rel)
                if known is not None and os.environ.get("VERIF_NO_INLINE") != "1":
                    from .inline_helpers import inline_new_generators
                    n_gen = inline_new_generators(mod, known)
                    self.cache["inlined_helpers:" + rel] = inline_new_helpers(mod, known) + n_gen
                from .inline_helpers import inline_new_module_constants, module_names
                if module_names().get(rel) is not None and os.environ.get("VERIF_NO_INLINE") != "1":
                    from .inline_helpers import inline_new_class_constants
                    self.cache["inlined_constants:" + rel] = inline_new_module_constants(mod, module_names()[rel]) + inline_new_class_constants(mod, module_names()[rel])
                from .pyutil import unroll_literal_dispatch_inplace, loops_to_comprehensions_inplace, merge_nested_ifs_inplace
                unroll_literal_dispatch_inplace(mod)
                if os.environ.get("VERIF_NO_EXTENDLOOP") != "1":
                    from .pyutil import extend_comprehension_to_loop_inplace, list_iadd_to_append_inplace
                    self.cache["iaddappend:" + rel] = list_iadd_to_append_inplace(mod)
                    self.cache["extendloop:" + rel] = extend_comprehension_to_loop_inplace(mod)
                if os.environ.get("VERIF_NO_ANYLOOP") != "1":
                    from .pyutil import any_guard_to_loops_inplace
                    self.cache["anyloop:" + rel] = any_guard_to_loops_inplace(mod)
                if os.environ.get("VERIF_NO_IFMERGE") != "1":
                    self.cache["ifmerge:" + rel] = merge_nested_ifs_inplace(mod)
                if os.environ.get("VERIF_NO_LOOPCOMP") != "1":
                    self.cache["loopcomp:" + rel] = loops_to_comprehensions_inplace(mod)
                normalise_polarity(mod)
                inline_temporaries(mod)
                if os.environ.get("VERIF_NO_IFEXP") != "1":
                    # after the temporaries: `t = A if c else B; self.x = t` is first `self.x = A if c else B`, then the statement form
                    from .pyutil import ifexp_assign_to_if_inplace
                    self.cache["ifexp:" + rel] = ifexp_assign_to_if_inplace(mod)
                    if self.cache["ifexp:" + rel]:
                        normalise_polarity(mod)
                if known is not None and self.cache.get("inlined_helpers:" + rel):
                    from .inline_helpers import drop_self_assignments, tidy_flags
                    drop_self_assignments(mod)
                    tidy_flags(mod)
            if os.environ.get("VERIF_NO_NORMALISE") != "1":
                for fnorm in FILE_NORMALISERS.get(rel, []):
                    fnorm(mod)
            for parent in ast.walk(mod):
                for child in ast.iter_child_nodes(parent):
                    child._parent = parent  # type: ignore[attr-defined]
            self._mod[rel] = mod
        return self._mod[rel]

    # -- lookups --------------------------------------------------------
    def find(self, rel: str, qualname: str):
        """Return the def/class named by a dotted path, or None."""
        node = self.module(rel)
        for part in qualname.split("."):
            nxt = None
            body = getattr(node, "body", [])
            for st in _flat_defs(body):
                if isinstance(st, (ast.FunctionDef, ast.AsyncFunctionDef, ast.ClassDef)):
                    if st.name == part:
                        nxt = st
                        break
            if nxt is None:
                return None
            node = nxt
        return node

    def func(self, rel: str, qualname: str, rule: str) -> ast.FunctionDef:
        n = self.find(rel, qualname)
        if not isinstance(n, (ast.FunctionDef, ast.AsyncFunctionDef)):
            raise AnalysisError(rule, "anchor function %s:%s not found" % (rel, qualname))
        self.functions_analysed.add("%s:%s" % (rel, qualname))
        return n

    def new_callees(self, rel: str, fn: ast.FunctionDef, depth: int = 3) -> List[ast.FunctionDef]:
        """functions of `rel` that the reference tree does not have (helpers split off later that could not be inlined: they define
        nested functions, loop with returns, ...) and that `fn` calls, transitively — a rule anchored in `fn` looks there as well"""
        from .inline_helpers import inventory, qualnames
        known = inventory().get(rel)
        if known is None:
            return []
        new = {q: f for q, f in qualnames(self.module(rel)).items() if q not in known}
        out, todo, seen = [], [fn], set()
        for _ in range(depth):
            nxt = []
            for g in todo:
                for c in ast.walk(g):
                    if isinstance(c, ast.Call):
                        nm = c.func.attr if isinstance(c.func, ast.Attribute) else c.func.id if isinstance(c.func, ast.Name) else None
                        for q, f in new.items():
                            if q.split(".")[-1] == nm and id(f) not in seen and f is not fn:
                                seen.add(id(f))
                                out.append(f)
                                nxt.append(f)
            todo = nxt
        return out

    def cls(self, rel: str, qualname: str, rule: str) -> ast.ClassDef:
        n = self.find(rel, qualname)
        if not isinstance(n, ast.ClassDef):
            raise AnalysisError(rule, "anchor class %s:%s not found" % (rel, qualname))
        return n

    def methods(self, rel: str, clsname: str, rule: str) -> Dict[str, ast.FunctionDef]:
        c = self.cls(rel, clsname, rule)
        out = {}
        for st in c.body:
            if isinstance(st, ast.FunctionDef):
                out[st.name] = st
                self.functions_analysed.add("%s:%s.%s" % (rel, clsname, st.name))
        return out

    def module_assign(self, rel: str, name: str, rule: str) -> ast.expr:
        """Value of a module-level ``name = <expr>``."""
        for st in self.module(rel).body:
            if isinstance(st, ast.Assign):
                for t in st.targets:
                    if isinstance(t, ast.Name) and t.id == name:
                        return st.value
            if isinstance(st, ast.AnnAssign) and isinstance(st.target, ast.Name):
                if st.target.id == name and st.value is not None:
                    return st.value
        raise AnalysisError(rule, "anchor table %s:%s not found" % (rel, name))


_POSITIVE = {ast.NotEq: ast.Eq, ast.IsNot: ast.Is, ast.NotIn: ast.In}


def normalise_polarity(mod: ast.AST) -> int:
    """Canonical polarity of plain if/else statements: `if not T: A else: B` is read as `if T: B else: A`, and `if a != b`,
    `a is not b`, `a not in b` with an else branch as their positive form with the branches exchanged.  Behaviour is the same;
    rules that look at "the branch taken when T holds" then do not depend on which way round a developer wrote the test.
    elif chains are left alone (turning one inside out is not an edit anybody makes)."""
    n_flipped = 0
    # first, negated single comparisons and double negations are written directly: not (a == b) is a != b, not (a in b) is a not in b,
    # not not x is x where x is itself a boolean expression (comparison / not / and / or)
    inverse = {ast.Eq: ast.NotEq, ast.NotEq: ast.Eq, ast.In: ast.NotIn, ast.NotIn: ast.In, ast.Is: ast.IsNot, ast.IsNot: ast.Is}

    class _Neg(ast.NodeTransformer):
        def visit_UnaryOp(self, n):
            self.generic_visit(n)
            if isinstance(n.op, ast.Not):
                o = n.operand
                if isinstance(o, ast.Compare) and len(o.ops) == 1 and type(o.ops[0]) in inverse:
                    return ast.copy_location(ast.Compare(left=o.left, ops=[inverse[type(o.ops[0])]()], comparators=o.comparators), n)
                if isinstance(o, ast.UnaryOp) and isinstance(o.op, ast.Not) and isinstance(o.operand, (ast.Compare, ast.BoolOp, ast.UnaryOp)):
                    return o.operand
            return n

    _Neg().visit(mod)
    for n in ast.walk(mod):
        if not (isinstance(n, ast.If) and n.orelse):
            continue
        if len(n.orelse) == 1 and isinstance(n.orelse[0], ast.If):
            continue  # an elif chain
        p = getattr(n, "_chain_member", False)
        t = n.test
        if isinstance(t, ast.UnaryOp) and isinstance(t.op, ast.Not):
            n.test = t.operand
        elif isinstance(t, ast.Compare) and len(t.ops) == 1 and type(t.ops[0]) in _POSITIVE:
            t.ops = [_POSITIVE[type(t.ops[0])]()]
        else:
            continue
        n.body, n.orelse = n.orelse, n.body
        n_flipped += 1
    return n_flipped


def _fn_params(fn) -> set:
    a = fn.args
    out = {x.arg for x in a.posonlyargs + a.args + a.kwonlyargs}
    if a.vararg:
        out.add(a.vararg.arg)
    if a.kwarg:
        out.add(a.kwarg.arg)
    return out


def inline_temporaries(mod: ast.AST) -> int:
    """Canonical form w.r.t. one-shot temporaries: a local that is bound exactly once by a plain `t = <expr>` and read exactly
    once, in the very next simple statement of the same block (and not inside a lambda/comprehension/nested def), is replaced
    by its value there and the binding is dropped.  `t = f(x); obj.a = t` and `obj.a = f(x)` are then the same statement for
    every rule, whichever of the two a developer wrote."""
    count = 0
    for fn in [n for n in ast.walk(mod) if isinstance(n, (ast.FunctionDef, ast.AsyncFunctionDef))]:
        changed = True
        while changed:
            changed = False
            stores, loads = {}, {}
            for n in ast.walk(fn):
                if isinstance(n, ast.Name):
                    (stores if isinstance(n.ctx, (ast.Store, ast.Del)) else loads).setdefault(n.id, []).append(n)
                elif isinstance(n, (ast.Global, ast.Nonlocal)):
                    for nm in n.names:
                        stores.setdefault(nm, []).extend([n, n])
            params = _fn_params(fn)
            for node in ast.walk(fn):
                for fld in ("body", "orelse", "finalbody"):
                    b = getattr(node, fld, None)
                    if not isinstance(b, list):
                        continue
                    i = 0
                    while i + 1 < len(b):
                        st, nxt = b[i], b[i + 1]
                        if isinstance(st, ast.Assign) and len(st.targets) == 1 and isinstance(st.targets[0], ast.Name):
                            v = st.targets[0].id
                            if v not in params and len(stores.get(v, [])) == 1 and len(loads.get(v, [])) == 1 \
                                    and not isinstance(st.value, (ast.Yield, ast.YieldFrom, ast.Await)) \
                                    and isinstance(nxt, (ast.Assign, ast.Expr, ast.Return, ast.AugAssign)):
                                use = loads[v][0]
                                inside = any(x is use for x in ast.walk(nxt))
                                nested = any(isinstance(x, (ast.Lambda, ast.ListComp, ast.GeneratorExp, ast.SetComp, ast.DictComp, ast.FunctionDef))
                                             and any(y is use for y in ast.walk(x)) for x in ast.walk(nxt))
                                if inside and not nested:
                                    val = st.value

                                    class _R(ast.NodeTransformer):
                                        def visit_Name(self, n, _u=use, _val=val):
                                            return _val if n is _u else n

                                    b[i + 1] = _R().visit(nxt)
                                    del b[i]
                                    count += 1
                                    changed = True
                                    continue
                        i += 1
                    if changed:
                        break
                if changed:
                    break
    return count


def _flat_defs(body):
    """defs in a body, looking through if/try at the same level."""
    for st in body:
        yield st
        if isinstance(st, (ast.If, ast.Try, ast.With)):
            for sub in ("body", "orelse", "finalbody"):
                yield from _flat_defs(getattr(st, sub, []) or [])
            for h in getattr(st, "handlers", []) or []:
                yield from _flat_defs(h.body)


class Report:
    def __init__(self, prop: str):
        self.prop = prop
        self.obligations: List[Obligation] = []
        self.notes: List[str] = []
        self.rule_counts: Dict[str, int] = {}
        self.extra: dict = {}
        self.analysis_errors: List[AnalysisError] = []

    def ob(self, rule: str, site: str, key: str, ok: bool, msg: str, **detail) -> bool:
        self.obligations.append(Obligation(rule, site, short(key, 200), bool(ok), msg, detail))
        self.rule_counts[rule] = self.rule_counts.get(rule, 0) + 1
        return bool(ok)

    def note(self, txt: str):
        self.notes.append(txt)

    def count(self, rule: str) -> int:
        return self.rule_counts.get(rule, 0)

    def require_instances(self, rule: str, minimum: int, what: str):
        n = self.count(rule)
        if n < minimum:
            raise MechanismMissing(
                rule,
                "only %d instance(s) of %s matched, expected at least %d "
                "(the rule would pass vacuously)" % (n, what, minimum),
            )

    @property
    def violations(self) -> List[Obligation]:
        return [o for o in self.obligations if not o.ok]



def run_as(rule_fn, new_id: str, ctx, rep: "Report"):
    """Runs a rule function written for another property under the rule id `new_id`: its obligations, instance counts and
    missing-mechanism reports are filed under the new id (the analysis is shared, the claim is per property)."""

    class _Proxy:
        def __init__(self, inner):
            self._i = inner

        def ob(self, rule, site, key, ok, msg, **detail):
            return self._i.ob(new_id, site, key, ok, msg, **detail)

        def note(self, txt):
            self._i.note(txt)

        def count(self, rule):
            return self._i.count(new_id)

        def require_instances(self, rule, minimum, what):
            return self._i.require_instances(new_id, minimum, what)

        def __getattr__(self, name):
            return getattr(self._i, name)

    try:
        rule_fn(ctx, _Proxy(rep))
    except AnalysisError as e:
        e.rule = new_id
        raise


@dataclass
class Rule:
    rid: str
    text: str  # the rule, in words (goes into the evidence)
    fn: Callable[[Context, Report], None]
    tier: str = "quick"  # "quick" rules run always, "thorough" only in thorough


@dataclass
class Mutant:
    """A seeded variant: an AST-computed edit of one file that breaks one rule
    instance.  ``edit`` maps the module AST (already parsed) to new source."""

    name: str
    rel: str
    edit: Callable[[ast.Module], Optional[ast.Module]]
    expect_rule: str
    expect_key: str = ""  # substring of key/site/msg that must be named
    needs_fixed: bool = False  # meaningful only once the known defect is repaired


class PropertySpec:
    def __init__(self, pid: str, title: str, decided: str, not_decided: str):
        self.pid = pid
        self.title = title
        self.decided = decided
        self.not_decided = not_decided
        self.rules: List[Rule] = []
        self.mutants: List[Mutant] = []
        self.assumptions: List[str] = []

    def rule(self, rid: str, text: str, tier: str = "quick"):
        def deco(fn):
            self.rules.append(Rule(rid, text, fn, tier))
            return fn

        return deco

    def mutant(self, name, rel, expect_rule, expect_key="", needs_fixed=False):
        def deco(fn):
            self.mutants.append(Mutant(name, rel, fn, expect_rule, expect_key, needs_fixed))
            return fn

        return deco


def run_rules(spec: PropertySpec, ctx: Context, tier: str) -> Report:
    rep = Report(spec.pid)
    for r in spec.rules:
        if r.tier == "thorough" and tier != "thorough":
            continue
        try:
            r.fn(ctx, rep)
        except MechanismMissing as e:
            rep.ob(e.rule, "%s:%s" % (spec.pid, e.rule), "mechanism present", False,
                   "the construct this rule inspects was not found in its anchor function: %s" % e.what)
        except AnalysisError as e:
            # do not let one rule's vanished anchor hide another rule's violation
            rep.analysis_errors.append(e)
        except Exception as e:  # noqa: BLE001  a crash of one rule is an analysis error of that rule (exit 2), never a pass
            import traceback
            rep.analysis_errors.append(AnalysisError(r.rid if hasattr(r, "rid") else "rule", "rule crashed: %s: %s @ %s" % (
                type(e).__name__, e, traceback.format_exc().strip().splitlines()[-3].strip())))
    return rep


# ---------------------------------------------------------------------------
# Known findings


def load_known(path: str) -> List[dict]:
    if not os.path.exists(path):
        return []
    with open(path) as f:
        data = json.load(f)
    return data.get("findings", [])


def match_known(known: List[dict], prop: str, ob: Obligation) -> Optional[dict]:
    for k in known:
        if k.get("fixed"):
            continue  # fixed entries suppress nothing
        if (
            k.get("property") == prop
            and k.get("rule") == ob.rule
            and k.get("site") == ob.site
            and k.get("key") == ob.key
        ):
            return k
    return None


class Timer:
    def __init__(self):
        self.t0 = time.time()

    def s(self) -> float:
        return round(time.time() - self.t0, 3)
