"""Small AST helpers shared by the rule modules."""
from __future__ import annotations

import ast
from typing import Iterable, Iterator, List, Optional, Tuple

from .engine import norm


def dotted(node) -> Optional[str]:
    """'a.b.c' for Name/Attribute chains, else None."""
    parts = []
    while isinstance(node, ast.Attribute):
        parts.append(node.attr)
        node = node.value
    if isinstance(node, ast.Name):
        parts.append(node.id)
        return ".".join(reversed(parts))
    return None


def walk_local(node: ast.AST, include_nested_defs: bool = False) -> Iterator[ast.AST]:
    """ast.walk that does not descend into nested function/class definitions
    (lambdas are descended into: they share the scope for our purposes)."""
    stack = [node]
    first = True
    while stack:
        n = stack.pop()
        if not first and not include_nested_defs and isinstance(
            n, (ast.FunctionDef, ast.AsyncFunctionDef, ast.ClassDef)
        ):
            yield n  # the def itself is visible, its body is not
            continue
        first = False
        yield n
        stack.extend(reversed(list(ast.iter_child_nodes(n))))


def calls(node: ast.AST, include_nested_defs: bool = False) -> Iterator[ast.Call]:
    for n in walk_local(node, include_nested_defs):
        if isinstance(n, ast.Call):
            yield n


def call_name(c) -> Optional[str]:
    if not isinstance(c, ast.Call):
        return None
    return dotted(c.func)


def method_name(c) -> Optional[str]:
    if not isinstance(c, ast.Call):
        return None
    if isinstance(c.func, ast.Attribute):
        return c.func.attr
    if isinstance(c.func, ast.Name):
        return c.func.id
    return None


def const_str(node) -> Optional[str]:
    """String value of a literal (incl. implicit concatenation, which the
    parser folds, and f-strings, whose literal parts are kept and holes become
    '{}')."""
    if isinstance(node, ast.Constant) and isinstance(node.value, str):
        return node.value
    if isinstance(node, ast.JoinedStr):
        out = []
        for v in node.values:
            if isinstance(v, ast.Constant) and isinstance(v.value, str):
                out.append(v.value)
            else:
                out.append("{}")
        return "".join(out)
    if isinstance(node, ast.BinOp) and isinstance(node.op, ast.Add):
        a, b = const_str(node.left), const_str(node.right)
        if a is not None and b is not None:
            return a + b
    return None


def kwarg(c: ast.Call, name: str):
    for k in c.keywords:
        if k.arg == name:
            return k.value
    return None


def names_in(node: ast.AST) -> set:
    return {n.id for n in ast.walk(node) if isinstance(n, ast.Name)}


def attr_names_in(node: ast.AST) -> set:
    return {n.attr for n in ast.walk(node) if isinstance(n, ast.Attribute)}


def parent(node):
    return getattr(node, "_parent", None)


def enclosing(node, kinds) -> Optional[ast.AST]:
    p = parent(node)
    while p is not None and not isinstance(p, kinds):
        p = parent(p)
    return p


def enclosing_stmt(node) -> Optional[ast.stmt]:
    p = node
    while p is not None and not isinstance(p, ast.stmt):
        p = parent(p)
    return p


def stmt_list_of(st: ast.stmt) -> Optional[List[ast.stmt]]:
    """The statement list that directly contains st."""
    p = parent(st)
    if p is None:
        return None
    for fieldname in ("body", "orelse", "finalbody"):
        lst = getattr(p, fieldname, None)
        if isinstance(lst, list) and st in lst:
            return lst
    if isinstance(p, ast.Try):
        for h in p.handlers:
            if st in h.body:
                return h.body
    return None


def literal(node):
    try:
        return ast.literal_eval(node)
    except Exception:
        return None


def is_name(node, name: str) -> bool:
    return isinstance(node, ast.Name) and node.id == name


def is_attr(node, base: str, attr: str) -> bool:
    return (
        isinstance(node, ast.Attribute)
        and node.attr == attr
        and isinstance(node.value, ast.Name)
        and node.value.id == base
    )


def assigned_targets(st: ast.stmt) -> List[ast.expr]:
    if isinstance(st, ast.Assign):
        out = []
        for t in st.targets:
            if isinstance(t, (ast.Tuple, ast.List)):
                out.extend(t.elts)
            else:
                out.append(t)
        return out
    if isinstance(st, (ast.AugAssign, ast.AnnAssign)):
        return [st.target]
    return []


def defs_of(fn: ast.AST, name: str) -> List[ast.stmt]:
    """All statements in fn (not nested defs) that bind local ``name``."""
    out = []
    for n in walk_local(fn):
        if isinstance(n, (ast.Assign, ast.AugAssign, ast.AnnAssign)):
            for t in assigned_targets(n):
                if is_name(t, name):
                    out.append(n)
        elif isinstance(n, (ast.For,)):
            if name in names_in(n.target):
                out.append(n)
        elif isinstance(n, ast.With):
            for it in n.items:
                if it.optional_vars is not None and name in names_in(it.optional_vars):
                    out.append(n)
    return out


def eq_ast(a, b) -> bool:
    return ast.dump(a) == ast.dump(b)


def subscript_key(node) -> Optional[str]:
    """Constant string key of ``x["k"]``."""
    if isinstance(node, ast.Subscript):
        s = node.slice
        if isinstance(s, ast.Constant) and isinstance(s.value, str):
            return s.value
    return None


def iter_stmts(body: Iterable[ast.stmt]) -> Iterator[ast.stmt]:
    """All statements, recursively, without entering nested defs."""
    for st in body:
        yield st
        if isinstance(st, (ast.FunctionDef, ast.AsyncFunctionDef, ast.ClassDef)):
            continue
        for f in ("body", "orelse", "finalbody"):
            sub = getattr(st, f, None)
            if isinstance(sub, list) and sub and isinstance(sub[0], ast.stmt):
                yield from iter_stmts(sub)
        for h in getattr(st, "handlers", []) or []:
            yield from iter_stmts(h.body)


# -- independence from local variable names ---------------------------------------------------------
def ast_copy(node):
    """structural copy of an AST (fields and positions only: the `_parent` back links are NOT followed, a plain
    copy.deepcopy would drag the whole module along through them)"""
    if isinstance(node, ast.AST):
        new = node.__class__()
        for f in node._fields:
            if hasattr(node, f):
                setattr(new, f, ast_copy(getattr(node, f)))
        for a in getattr(node, "_attributes", ()):
            if hasattr(node, a):
                setattr(new, a, getattr(node, a))
        return new
    if isinstance(node, list):
        return [ast_copy(x) for x in node]
    return node


def renamed_copy(fn: ast.AST, mapping: dict) -> ast.AST:
    """Deep copy of `fn` with local names replaced according to `mapping` (actual name -> canonical role name), parent
    links set.  Rules discover the roles structurally (what a variable is assigned from / stored into) and then match
    their patterns against the canonical names, so renaming a local in pymoca does not change a verdict."""
    new = ast_copy(fn)
    for n in ast.walk(new):
        if isinstance(n, ast.Name) and n.id in mapping:
            n.id = mapping[n.id]
        elif isinstance(n, ast.ExceptHandler) and n.name in mapping:
            n.name = mapping[n.name]
    for n in ast.walk(new):
        for c in ast.iter_child_nodes(n):
            c._parent = n  # type: ignore[attr-defined]
    return new


def single_defs(stmts: Iterable[ast.stmt]) -> dict:
    """locals of a statement list that are bound exactly once, by a plain `name = expr` (no loops/augmented/tuple targets)"""
    count, val = {}, {}
    seen = set()  # the list may contain a statement and the statements nested in it: every binding counts once
    for st in stmts:
        for n in ast.walk(st):
            if id(n) in seen:
                continue
            if isinstance(n, ast.Name) and isinstance(n.ctx, (ast.Store, ast.Del)):
                seen.add(id(n))
                count[n.id] = count.get(n.id, 0) + 1
            elif isinstance(n, ast.ExceptHandler) and n.name:
                seen.add(id(n))
                count[n.name] = count.get(n.name, 0) + 1
            elif isinstance(n, ast.Assign) and len(n.targets) == 1 and isinstance(n.targets[0], ast.Name):
                val[n.targets[0].id] = n.value
        if isinstance(st, ast.Assign) and len(st.targets) == 1 and isinstance(st.targets[0], ast.Name):
            val[st.targets[0].id] = st.value
    return {k: v for k, v in val.items() if count.get(k) == 1}


def inlined(expr: ast.AST, stmts: Iterable[ast.stmt], keep=(), depth: int = 6) -> ast.AST:
    """`expr` with every local that `stmts` bind exactly once (plain assignment) replaced by its value, recursively: the
    text of the result does not depend on the names (or the existence) of such temporaries."""
    defs = single_defs(list(stmts))
    # a re-binding of a name in terms of itself (`options = merge(options)`: the name is a parameter) is not a definition to look through
    defs = {k: v for k, v in defs.items() if not any(isinstance(x, ast.Name) and x.id == k for x in ast.walk(v))}

    class T(ast.NodeTransformer):
        def __init__(self, d):
            self.d = d

        def visit_Name(self, n):
            if isinstance(n.ctx, ast.Load) and n.id in defs and n.id not in keep and self.d > 0:
                return T(self.d - 1).visit(ast_copy(defs[n.id]))
            return n

    return T(depth).visit(ast_copy(expr))


def stale_loop_variable_uses(fn, cfg=None):
    """[(name, lineno)]: loads of a for-loop's target name that happen after the loop has ended and can still see the value the loop
    left in it (no re-binding in between).  Names re-bound by a comprehension / lambda around the load are that scope's own variable."""
    from .cfg import CFG, reaching_defs
    cfg = cfg or CFG(fn, "stale")
    out = []

    def own_loads(node, v):
        res = []

        def walk(n, shadow):
            if isinstance(n, (ast.ListComp, ast.SetComp, ast.DictComp, ast.GeneratorExp)):
                bound = {x.id for g in n.generators for x in ast.walk(g.target) if isinstance(x, ast.Name)}
                shadow = shadow or v in bound
            elif isinstance(n, ast.Lambda):
                shadow = shadow or v in {a.arg for a in n.args.args}
            if isinstance(n, ast.Name) and n.id == v and isinstance(n.ctx, ast.Load) and not shadow:
                res.append(n)
            for c in ast.iter_child_nodes(n):
                walk(c, shadow)

        walk(node, False)
        return res

    for lp in ast.walk(fn):
        if not isinstance(lp, ast.For):
            continue
        inside = {id(x) for x in ast.walk(lp)}
        itn = [x for x in cfg.nodes if x.kind == "iter" and x.ast is lp]
        if not itn:
            continue
        for t in ast.walk(lp.target):
            if not isinstance(t, ast.Name) or t.id == "_":
                continue
            v = t.id
            rd = None
            for x in cfg.nodes:
                if x.ast is None or x.kind not in ("stmt", "test", "iter") or id(x.ast) in inside:
                    continue
                node = x.ast.iter if x.kind == "iter" else x.ast
                if isinstance(node, (ast.FunctionDef, ast.ClassDef)):
                    continue
                if not own_loads(node, v):
                    continue
                rd = rd or reaching_defs(cfg, v)
                if itn[0].id in rd.get(x.id, ()):
                    out.append((v, x.lineno))
    return out


def unroll_literal_dispatch(fn):
    """Returns a copy of `fn` in which every table-driven first-match loop

        for a, b in TABLE:            # TABLE: a literal tuple/list of tuples, written in place or bound once to a local
            if <test over a, b>:
                <body over a, b>
                break
        else:
            <default>

    is written as the if/elif/else chain it stands for (the loop variables replaced by each row's entries).  Behaviour is identical:
    rows are tried in order, the first hit wins, the else-branch runs when none matched.  Loops of any other shape are left alone."""
    fn = ast_copy(fn)
    unroll_literal_dispatch_inplace(fn)
    return fn


def unroll_literal_dispatch_inplace(fn) -> int:
    """the same, rewriting the given tree (function or module) in place; returns the number of loops rewritten"""
    tables, counts = {}, {}
    done = 0
    for st in ast.walk(fn):
        if isinstance(st, ast.Assign) and len(st.targets) == 1 and isinstance(st.targets[0], ast.Name):
            counts[st.targets[0].id] = counts.get(st.targets[0].id, 0) + 1
            tables[st.targets[0].id] = st.value

    def rows_of(e):
        if isinstance(e, ast.Name) and counts.get(e.id) == 1:
            e = tables[e.id]
        if isinstance(e, (ast.Tuple, ast.List)) and e.elts and all(isinstance(r, (ast.Tuple, ast.List)) for r in e.elts):
            return [r.elts for r in e.elts]
        return None

    class Sub(ast.NodeTransformer):
        def __init__(self, m):
            self.m = m

        def visit_Name(self, n):
            if n.id in self.m and isinstance(n.ctx, ast.Load):
                return ast_copy(self.m[n.id])
            return n

    def convert(lp):
        if not (isinstance(lp, ast.For) and lp.orelse and isinstance(lp.target, ast.Tuple) and all(isinstance(t, ast.Name) for t in lp.target.elts)):
            return None
        rows = rows_of(lp.iter)
        if rows is None or any(len(r) != len(lp.target.elts) for r in rows):
            return None
        if len(lp.body) != 1 or not isinstance(lp.body[0], ast.If) or lp.body[0].orelse:
            return None
        inner = lp.body[0]
        if not inner.body or not isinstance(inner.body[-1], ast.Break) or any(isinstance(x, (ast.Break, ast.Continue)) for b in inner.body[:-1] for x in ast.walk(b)):
            return None
        names = [t.id for t in lp.target.elts]
        chain = None
        for r in reversed(rows):
            m = dict(zip(names, r))
            test = Sub(m).visit(ast_copy(inner.test))
            body = [Sub(m).visit(ast_copy(b)) for b in inner.body[:-1]] or [ast.Pass()]
            chain = ast.If(test=test, body=body, orelse=[chain] if chain is not None else [ast_copy(b) for b in lp.orelse])
        return chain

    changed = True
    while changed:
        changed = False
        for node in ast.walk(fn):
            for f in ("body", "orelse", "finalbody"):
                lst = getattr(node, f, None)
                if isinstance(lst, list):
                    for i, st in enumerate(lst):
                        c = convert(st)
                        if c is not None:
                            lst[i] = ast.copy_location(c, st)
                            changed = True
                            done += 1
    if done:
        ast.fix_missing_locations(fn)
    return done


def _stale_reads(st, names):
    """names among `names` that `st` reads in a place where they are not freshly bound by an enclosing for-loop / comprehension of st itself"""
    out = set()

    def walk(n, fresh):
        if isinstance(n, ast.For):
            walk(n.iter, fresh)
            f2 = fresh | {x.id for x in ast.walk(n.target) if isinstance(x, ast.Name)}
            for b in n.body:
                walk(b, f2)
            for b in n.orelse:
                walk(b, fresh)
            return
        if isinstance(n, (ast.ListComp, ast.SetComp, ast.DictComp, ast.GeneratorExp)):
            f2 = set(fresh)
            for g in n.generators:
                walk(g.iter, f2)
                f2 |= {x.id for x in ast.walk(g.target) if isinstance(x, ast.Name)}
                for c in g.ifs:
                    walk(c, f2)
            for part in ([n.key, n.value] if isinstance(n, ast.DictComp) else [n.elt]):
                walk(part, f2)
            return
        if isinstance(n, ast.Name) and isinstance(n.ctx, ast.Load) and n.id in names and n.id not in fresh:
            out.add(n.id)
        for c in ast.iter_child_nodes(n):
            walk(c, fresh)

    walk(st, set())
    return out


def loops_to_comprehensions_inplace(root) -> int:
    """Canonical form of simple accumulation loops.  Directly after `X = []` / `X = {}` / `X = set()`, a loop

        for T in IT:                      (possibly nested for-loops and ifs without else, nothing else in the bodies)
            if C:
                X.append(E)   |   X[K] = V   |   X.add(E)

    in which X occurs nowhere but in that one statement becomes `X = [E for T in IT if C]` / `{K: V for ...}` / `{E for ...}`.
    The iterables are evaluated in the same order, the elements are produced in the same order, and X is complete when the next statement
    starts — the only difference is that a name bound by the loop is no longer visible afterwards, so the rewrite is skipped when a loop
    variable is read after the loop.  Returns the number of loops rewritten."""
    done = 0

    def chain(st, X):
        """(generators, leaf statement) of a for/if nest that ends in a single statement, else None"""
        gens = []
        cur = st
        while True:
            if isinstance(cur, ast.For) and not cur.orelse and len(cur.body) == 1:
                gens.append(ast.comprehension(target=cur.target, iter=cur.iter, ifs=[], is_async=0))
                cur = cur.body[0]
            elif isinstance(cur, ast.If) and not cur.orelse and len(cur.body) == 1 and gens:
                gens[-1].ifs.append(cur.test)
                cur = cur.body[0]
            else:
                break
        if not gens:
            return None
        return gens, cur

    def uses(node, name):
        return any(isinstance(x, ast.Name) and x.id == name for x in ast.walk(node))

    for holder in ast.walk(root):
        for f in ("body", "orelse", "finalbody"):
            lst = getattr(holder, f, None)
            if not isinstance(lst, list):
                continue
            i = 0
            while i + 1 < len(lst):
                init, loop = lst[i], lst[i + 1]
                i += 1
                if not (isinstance(init, ast.Assign) and len(init.targets) == 1 and isinstance(init.targets[0], ast.Name) and isinstance(loop, ast.For)):
                    continue
                X = init.targets[0].id
                v = init.value
                kind = None
                if isinstance(v, ast.List) and not v.elts:
                    kind = "list"
                elif isinstance(v, ast.Dict) and not v.keys:
                    kind = "dict"
                elif isinstance(v, ast.Call) and isinstance(v.func, ast.Name) and v.func.id == "set" and not v.args:
                    kind = "set"
                elif isinstance(v, ast.Call) and not v.args and not v.keywords and (
                        (isinstance(v.func, ast.Name) and v.func.id in ("dict", "OrderedDict")) or (isinstance(v.func, ast.Attribute) and v.func.attr == "OrderedDict")):
                    kind = "mapping"  # X = OrderedDict(); for ...: X[k] = v   ->   X = OrderedDict((k, v) for ...)
                if kind is None:
                    continue
                ch = chain(loop, X)
                if ch is None:
                    continue
                gens, leaf = ch
                if any(uses(g.iter, X) or any(uses(c, X) for c in g.ifs) for g in gens):
                    continue
                new = None
                if kind == "list" and isinstance(leaf, ast.Expr) and isinstance(leaf.value, ast.Call) and isinstance(leaf.value.func, ast.Attribute) \
                        and leaf.value.func.attr == "append" and isinstance(leaf.value.func.value, ast.Name) and leaf.value.func.value.id == X \
                        and len(leaf.value.args) == 1 and not uses(leaf.value.args[0], X):
                    new = ast.ListComp(elt=leaf.value.args[0], generators=gens)
                elif kind == "set" and isinstance(leaf, ast.Expr) and isinstance(leaf.value, ast.Call) and isinstance(leaf.value.func, ast.Attribute) \
                        and leaf.value.func.attr == "add" and isinstance(leaf.value.func.value, ast.Name) and leaf.value.func.value.id == X \
                        and len(leaf.value.args) == 1 and not uses(leaf.value.args[0], X):
                    new = ast.SetComp(elt=leaf.value.args[0], generators=gens)
                elif kind == "dict" and isinstance(leaf, ast.Assign) and len(leaf.targets) == 1 and isinstance(leaf.targets[0], ast.Subscript) \
                        and isinstance(leaf.targets[0].value, ast.Name) and leaf.targets[0].value.id == X and not uses(leaf.targets[0].slice, X) and not uses(leaf.value, X):
                    new = ast.DictComp(key=leaf.targets[0].slice, value=leaf.value, generators=gens)
                elif kind == "mapping" and isinstance(leaf, ast.Assign) and len(leaf.targets) == 1 and isinstance(leaf.targets[0], ast.Subscript) \
                        and isinstance(leaf.targets[0].value, ast.Name) and leaf.targets[0].value.id == X and not uses(leaf.targets[0].slice, X) and not uses(leaf.value, X):
                    pair = ast.Tuple(elts=[leaf.targets[0].slice, leaf.value], ctx=ast.Load())
                    new = ast.Call(func=v.func, args=[ast.GeneratorExp(elt=pair, generators=gens)], keywords=[])
                if new is None:
                    continue
                # loop variables must not be read after the loop
                bound = {x.id for g in gens for x in ast.walk(g.target) if isinstance(x, ast.Name)}
                later = set()
                for st in lst[i + 1:]:
                    later |= _stale_reads(st, bound)
                if bound & later:
                    continue
                init.value = ast.copy_location(new, init.value)
                del lst[i]
                i -= 1
                done += 1
    if done:
        ast.fix_missing_locations(root)
    return done


def merge_nested_ifs_inplace(root) -> int:
    """`if A:\\n    if B:\\n        body` (no else on either, nothing else in the outer body) is `if A and B: body`."""
    done = 0
    changed = True
    while changed:
        changed = False
        for n in ast.walk(root):
            if isinstance(n, ast.If) and not n.orelse and len(n.body) == 1 and isinstance(n.body[0], ast.If) and not n.body[0].orelse:
                inner = n.body[0]
                a = n.test.values if isinstance(n.test, ast.BoolOp) and isinstance(n.test.op, ast.And) else [n.test]
                b = inner.test.values if isinstance(inner.test, ast.BoolOp) and isinstance(inner.test.op, ast.And) else [inner.test]
                n.test = ast.copy_location(ast.BoolOp(op=ast.And(), values=list(a) + list(b)), n.test)
                n.body = inner.body
                changed = True
                done += 1
    if done:
        ast.fix_missing_locations(root)
    return done


def inline_simple_locals(fn, pure_methods=()):
    """a copy of fn in which every local that is bound exactly once, by a plain assignment of a side-effect-free expression built from names,
    attributes, constants and id(...) calls, is replaced by that expression (and the assignment dropped): `parent = self.parent;
    key = id(parent); if key not in memo` reads `if id(self.parent) not in memo`"""
    fn = ast_copy(fn)

    def simple(e):
        for x in ast.walk(e):
            if isinstance(x, ast.Call):
                accessor = isinstance(x.func, ast.Attribute) and x.func.attr in pure_methods and not x.args and not x.keywords
                if not (isinstance(x.func, ast.Name) and x.func.id == "id") and not accessor:
                    return False
            elif not isinstance(x, (ast.Name, ast.Attribute, ast.Constant, ast.Load, ast.expr_context)):
                return False
        return True

    for _ in range(6):
        stores, vals = {}, {}
        params = {a.arg for a in fn.args.args + fn.args.kwonlyargs}
        for n in ast.walk(fn):
            if isinstance(n, ast.Name) and isinstance(n.ctx, (ast.Store, ast.Del)):
                stores[n.id] = stores.get(n.id, 0) + 1
            elif isinstance(n, ast.Assign) and len(n.targets) == 1 and isinstance(n.targets[0], ast.Name):
                vals[n.targets[0].id] = n
        cand = {k: a for k, a in vals.items() if stores.get(k) == 1 and k not in params and simple(a.value)
                # what the value reads must not be re-bound in the function (other than parameters' attributes)
                and not any(isinstance(x, ast.Name) and stores.get(x.id, 0) > 0 and x.id not in params and x.id != k and stores.get(x.id, 0) != 1 for x in ast.walk(a.value))}
        if not cand:
            break
        k, a = next(iter(cand.items()))

        class R(ast.NodeTransformer):
            def visit_Name(self, n):
                return ast_copy(a.value) if n.id == k and isinstance(n.ctx, ast.Load) else n

        for holder in ast.walk(fn):
            for f in ("body", "orelse", "finalbody"):
                lst = getattr(holder, f, None)
                if isinstance(lst, list) and a in lst:
                    lst.remove(a)
                    if not lst:
                        lst.append(ast.Pass())
        R().visit(fn)
    return ast.fix_missing_locations(fn)


def ifexp_assign_to_if_inplace(root) -> int:
    """`T = A if C else B` (one plain assignment whose whole value is a conditional expression) is `if C: T = A` / `else: T = B` — the
    statement form is what most of the analysed code uses, so rules are written for it."""
    done = 0
    for holder in list(ast.walk(root)):
        for f in ("body", "orelse", "finalbody"):
            lst = getattr(holder, f, None)
            if not (isinstance(lst, list) and lst and isinstance(lst[0], ast.stmt)):
                continue
            for i, st in enumerate(lst):
                if isinstance(st, ast.Assign) and len(st.targets) == 1 and isinstance(st.value, ast.IfExp) and (
                        isinstance(st.targets[0], (ast.Name, ast.Attribute)) or (isinstance(st.targets[0], ast.Subscript) and all(
                            isinstance(x, (ast.Name, ast.Attribute, ast.Constant, ast.Tuple, ast.Subscript, ast.expr_context)) for x in ast.walk(st.targets[0])))):
                    v = st.value
                    a = ast.copy_location(ast.Assign(targets=[ast_copy(st.targets[0])], value=v.body), st)
                    b = ast.copy_location(ast.Assign(targets=[ast_copy(st.targets[0])], value=v.orelse), st)
                    lst[i] = ast.copy_location(ast.If(test=v.test, body=[a], orelse=[b]), st)
                    done += 1
    if done:
        ast.fix_missing_locations(root)
    return done


def _rename_comprehension_vars(g, clash, k):
    """rename the variables the comprehension binds that clash with names of the enclosing function (inside the comprehension only)"""
    mapping = {v: "%s_c%d" % (v, k) for v in clash}
    for x in ast.walk(g):
        if isinstance(x, ast.Name) and x.id in mapping:
            x.id = mapping[x.id]


def _fold_any_flag(fn) -> int:
    """`t = any(<generator>)` directly followed by `if t: <raise/return>` (t read nowhere else) is `if any(<generator>): ...`"""
    done = 0
    for holder in list(ast.walk(fn)):
        for f in ("body", "orelse", "finalbody"):
            lst = getattr(holder, f, None)
            if not (isinstance(lst, list) and len(lst) >= 2 and isinstance(lst[0], ast.stmt)):
                continue
            i = 0
            while i + 1 < len(lst):
                a, b = lst[i], lst[i + 1]
                if isinstance(a, ast.Assign) and len(a.targets) == 1 and isinstance(a.targets[0], ast.Name) and isinstance(a.value, ast.Call) \
                        and isinstance(a.value.func, ast.Name) and a.value.func.id == "any" and isinstance(b, ast.If) and isinstance(b.test, ast.Name) \
                        and b.test.id == a.targets[0].id:
                    t = a.targets[0].id
                    loads = [x for x in ast.walk(fn) if isinstance(x, ast.Name) and x.id == t and isinstance(x.ctx, ast.Load)]
                    stores = [x for x in ast.walk(fn) if isinstance(x, ast.Name) and x.id == t and isinstance(x.ctx, ast.Store)]
                    if len(loads) == 1 and len(stores) == 1:
                        b.test = a.value
                        del lst[i]
                        done += 1
                        continue
                i += 1
    return done


def any_guard_to_loops_inplace(root) -> int:
    """`if any(E for a in A for b in B if C): <body that ends in raise/return>` (no else) is the loop nest
    `for a in A: for b in B: if C: if E: <body>` — the first element for which E holds leaves through the body in both spellings.
    Not applied when a comprehension variable is also a name of the enclosing function (it would leak)."""
    done = 0
    for fn in [n for n in ast.walk(root) if isinstance(n, (ast.FunctionDef, ast.AsyncFunctionDef))]:
        done += _fold_any_flag(fn)
        for holder in list(ast.walk(fn)):
            for f in ("body", "orelse", "finalbody"):
                lst = getattr(holder, f, None)
                if not (isinstance(lst, list) and lst and isinstance(lst[0], ast.stmt)):
                    continue
                for i, st in enumerate(lst):
                    if not (isinstance(st, ast.If) and not st.orelse and st.body and isinstance(st.body[-1], (ast.Raise, ast.Return))):
                        continue
                    t = st.test
                    if not (isinstance(t, ast.Call) and isinstance(t.func, ast.Name) and t.func.id == "any" and len(t.args) == 1 and not t.keywords
                            and isinstance(t.args[0], ast.GeneratorExp)):
                        continue
                    g = t.args[0]
                    bound = {x.id for c in g.generators for x in ast.walk(c.target) if isinstance(x, ast.Name)}
                    outside = {x.id for x in ast.walk(fn) if isinstance(x, ast.Name) and not any(x is y for y in ast.walk(g))} | {a.arg for a in fn.args.args}
                    if any(c.is_async for c in g.generators):
                        continue
                    if bound & outside:
                        first_iter = {x.id for x in ast.walk(g.generators[0].iter) if isinstance(x, ast.Name)}
                        if first_iter & bound:
                            continue
                        _rename_comprehension_vars(g, bound & outside, done + 1)
                    inner = ast.copy_location(ast.If(test=g.elt, body=st.body, orelse=[]), st)
                    for c in reversed(g.generators):
                        for cond in reversed(c.ifs):
                            inner = ast.copy_location(ast.If(test=cond, body=[inner], orelse=[]), st)
                        inner = ast.copy_location(ast.For(target=c.target, iter=c.iter, body=[inner], orelse=[]), st)
                        for x in ast.walk(inner.target):
                            if isinstance(x, ast.Name):
                                x.ctx = ast.Store()
                    lst[i] = inner
                    done += 1
    if done:
        ast.fix_missing_locations(root)
    return done


def list_iadd_to_append_inplace(root) -> int:
    """`xs += [a, b]` on a local that the function only ever binds to a list display / list comprehension / list(...) is
    `xs.append(a); xs.append(b)` — the spelling the analysed code (and therefore the rules) use."""
    done = 0
    for fn in [x for x in ast.walk(root) if isinstance(x, (ast.FunctionDef, ast.AsyncFunctionDef))]:
        binds = {}
        for n in ast.walk(fn):
            if isinstance(n, ast.Assign):
                for t in n.targets:
                    if isinstance(t, ast.Name):
                        binds.setdefault(t.id, []).append(n.value)
                    elif isinstance(t, ast.Tuple) and isinstance(n.value, ast.Tuple) and len(t.elts) == len(n.value.elts):
                        for a, b in zip(t.elts, n.value.elts):
                            if isinstance(a, ast.Name):
                                binds.setdefault(a.id, []).append(b)
                    else:
                        for x in ast.walk(t):
                            if isinstance(x, ast.Name) and isinstance(x.ctx, ast.Store):
                                binds.setdefault(x.id, []).append(None)
            elif isinstance(n, (ast.For, ast.comprehension)):
                for x in ast.walk(n.target):
                    if isinstance(x, ast.Name):
                        binds.setdefault(x.id, []).append(None)
            elif isinstance(n, (ast.With, ast.ExceptHandler, ast.NamedExpr, ast.AnnAssign)):
                for x in ast.walk(n):
                    if isinstance(x, ast.Name) and isinstance(x.ctx, ast.Store):
                        binds.setdefault(x.id, []).append(None)
        params = {a.arg for a in fn.args.args + fn.args.kwonlyargs + fn.args.posonlyargs}

        def is_list(v):
            return isinstance(v, (ast.List, ast.ListComp)) or (isinstance(v, ast.Call) and isinstance(v.func, ast.Name) and v.func.id in ("list", "sorted"))

        lists = {k for k, vs in binds.items() if k not in params and vs and all(v is not None and is_list(v) for v in vs)}
        for holder in list(ast.walk(fn)):
            for f in ("body", "orelse", "finalbody"):
                lst = getattr(holder, f, None)
                if not (isinstance(lst, list) and lst and isinstance(lst[0], ast.stmt)):
                    continue
                i = 0
                while i < len(lst):
                    st = lst[i]
                    if isinstance(st, ast.AugAssign) and isinstance(st.op, ast.Add) and isinstance(st.target, ast.Name) and st.target.id in lists \
                            and isinstance(st.value, ast.List) and st.value.elts and not any(isinstance(e, ast.Starred) for e in st.value.elts):
                        new = [ast.copy_location(ast.Expr(value=ast.Call(func=ast.Attribute(value=ast.Name(id=st.target.id, ctx=ast.Load()), attr="append", ctx=ast.Load()),
                                                                         args=[e], keywords=[])), st) for e in st.value.elts]
                        lst[i:i + 1] = new
                        i += len(new)
                        done += 1
                    else:
                        i += 1
    if done:
        ast.fix_missing_locations(root)
    return done


def extend_comprehension_to_loop_inplace(root) -> int:
    """the statement `R.extend(E for a in A if C)` (generator or list comprehension, any number of for clauses) is the loop nest
    `for a in A: if C: R.append(E)`.  Not applied when a comprehension variable is also a name of the enclosing function."""
    done = 0
    for fn in [n for n in ast.walk(root) if isinstance(n, (ast.FunctionDef, ast.AsyncFunctionDef))]:
        for holder in list(ast.walk(fn)):
            for f in ("body", "orelse", "finalbody"):
                lst = getattr(holder, f, None)
                if not (isinstance(lst, list) and lst and isinstance(lst[0], ast.stmt)):
                    continue
                for i, st in enumerate(lst):
                    c = st.value if isinstance(st, ast.Expr) else None
                    if not (isinstance(c, ast.Call) and isinstance(c.func, ast.Attribute) and c.func.attr == "extend" and len(c.args) == 1 and not c.keywords
                            and isinstance(c.args[0], ast.GeneratorExp)):
                        continue  # (a list display `xs.extend([... for ...])` is the spelling of `xs += [...]`, which the rules know)
                    g = c.args[0]
                    bound = {x.id for gen in g.generators for x in ast.walk(gen.target) if isinstance(x, ast.Name)}
                    outside = {x.id for x in ast.walk(fn) if isinstance(x, ast.Name) and not any(x is y for y in ast.walk(g))} | {a.arg for a in fn.args.args}
                    if any(gen.is_async for gen in g.generators):
                        continue
                    if bound & outside:
                        # the first iterable is evaluated in the enclosing scope: it may read a name the comprehension re-binds
                        first_iter = {x.id for x in ast.walk(g.generators[0].iter) if isinstance(x, ast.Name)}
                        if first_iter & bound:
                            continue
                        _rename_comprehension_vars(g, bound & outside, done + 1)
                    inner = ast.copy_location(ast.Expr(value=ast.Call(func=ast.Attribute(value=c.func.value, attr="append", ctx=ast.Load()), args=[g.elt], keywords=[])), st)
                    for gen in reversed(g.generators):
                        for cond in reversed(gen.ifs):
                            inner = ast.copy_location(ast.If(test=cond, body=[inner], orelse=[]), st)
                        inner = ast.copy_location(ast.For(target=gen.target, iter=gen.iter, body=[inner], orelse=[]), st)
                        for x in ast.walk(inner.target):
                            if isinstance(x, ast.Name):
                                x.ctx = ast.Store()
                    lst[i] = inner
                    done += 1
    if done:
        ast.fix_missing_locations(root)
    return done
