"""Reader for the subset of ANTLR4 grammar syntax used by Modelica.g4."""
from __future__ import annotations

import re
from dataclasses import dataclass, field
from typing import Dict, List, Optional, Tuple

from .engine import AnalysisError

_TOK = re.compile(
    r"""
    (?P<ws>\s+)
  | (?P<lcomment>//[^\n]*)
  | (?P<bcomment>/\*.*?\*/)
  | (?P<lit>'(?:\\.|[^'\\])*')
  | (?P<cset>\[(?:\\.|[^\]\\])*\])
  | (?P<id>[A-Za-z_][A-Za-z_0-9]*)
  | (?P<op>\+=|->|[|()?*+=\#:;~.,{}<>])
    """,
    re.X | re.S,
)


def tokenize(text: str) -> List[Tuple[str, str]]:
    out = []
    pos = 0
    while pos < len(text):
        m = _TOK.match(text, pos)
        if not m:
            raise AnalysisError("grammar", "cannot tokenize Modelica.g4 at offset %d: %r" % (pos, text[pos: pos + 20]))
        pos = m.end()
        kind = m.lastgroup
        if kind in ("ws", "lcomment", "bcomment"):
            continue
        out.append((kind, m.group()))
    return out


@dataclass
class Elem:
    kind: str  # 'rule' | 'token' | 'lit' | 'group' | 'any' | 'not'
    value: str = ""
    label: Optional[str] = None
    label_op: Optional[str] = None  # '=' or '+='
    suffix: str = ""  # '', '?', '*', '+'
    alts: List["Alt"] = field(default_factory=list)  # for groups


@dataclass
class Alt:
    elems: List[Elem] = field(default_factory=list)
    label: Optional[str] = None


@dataclass
class GRule:
    name: str
    alts: List[Alt]


class _P:
    def __init__(self, toks):
        self.t = toks
        self.i = 0

    def peek(self, k=0):
        return self.t[self.i + k] if self.i + k < len(self.t) else ("eof", "")

    def next(self):
        tok = self.peek()
        self.i += 1
        return tok

    def alt_list(self) -> List[Alt]:
        alts = [self.alt()]
        while self.peek()[1] == "|":
            self.next()
            alts.append(self.alt())
        return alts

    def alt(self) -> Alt:
        a = Alt()
        while True:
            k, v = self.peek()
            if v in ("|", ")", ";") or k == "eof":
                break
            if v == "#":
                self.next()
                a.label = self.next()[1]
                continue
            if v == "->":  # lexer command
                self.next()
                self.next()
                if self.peek()[1] == "(":
                    while self.next()[1] != ")":
                        pass
                continue
            a.elems.append(self.elem())
        return a

    def elem(self) -> Elem:
        label = label_op = None
        k, v = self.peek()
        if k == "id" and self.peek(1)[1] in ("=", "+="):
            label = v
            self.next()
            label_op = self.next()[1]
        k, v = self.next()
        if v == "(":
            e = Elem("group", alts=self.alt_list())
            if self.next()[1] != ")":
                raise AnalysisError("grammar", "unbalanced parenthesis in grammar")
        elif v == "~":
            inner = self.elem()
            e = Elem("not", alts=[Alt([inner])])
        elif v == ".":
            e = Elem("any")
        elif k == "lit":
            e = Elem("lit", v[1:-1].replace("\\'", "'").replace("\\\\", "\\"))
        elif k == "cset":
            e = Elem("lit", v)
        elif k == "id":
            e = Elem("rule" if v[0].islower() else "token", v)
        else:
            raise AnalysisError("grammar", "unexpected token %r in grammar" % v)
        e.label, e.label_op = label, label_op
        while self.peek()[1] in ("?", "*", "+"):
            s = self.next()[1]
            if not e.suffix:
                e.suffix = s
        return e


def parse_grammar(text: str) -> Dict[str, GRule]:
    toks = tokenize(text)
    p = _P(toks)
    rules: Dict[str, GRule] = {}
    # header: grammar X ;
    if p.peek()[1] == "grammar":
        while p.next()[1] != ";":
            pass
    while p.peek()[0] != "eof":
        k, v = p.next()
        if v == "fragment":
            k, v = p.next()
        if k != "id":
            raise AnalysisError("grammar", "expected rule name, got %r" % v)
        name = v
        if p.next()[1] != ":":
            raise AnalysisError("grammar", "expected ':' after rule %s" % name)
        alts = p.alt_list()
        if p.next()[1] != ";":
            raise AnalysisError("grammar", "expected ';' after rule %s" % name)
        rules[name] = GRule(name, alts)
    return rules


def ctx_name(rule_or_label: str) -> str:
    return rule_or_label[0].upper() + rule_or_label[1:] + "Context"


@dataclass
class LabelInfo:
    name: str
    op: str  # '=' or '+='
    target: str  # rule name, 'TOKEN'
    in_repetition: bool
    preceded_by: Optional[str]  # literal keyword immediately before, if any


def _walk(elems: List[Elem], in_rep: bool, out: Dict[str, List[LabelInfo]], refs: Dict[str, List[bool]], lits: List[str]):
    prev_lit = None
    for e in elems:
        rep = in_rep or e.suffix in ("*", "+")
        if e.label:
            if e.kind == "rule":
                target = e.value
            else:
                target = "TOKEN"
            out.setdefault(e.label, []).append(LabelInfo(e.label, e.label_op, target, rep, prev_lit))
        if e.kind == "rule":
            refs.setdefault(e.value, []).append(rep)
        if e.kind == "lit":
            lits.append(e.value)
        if e.kind in ("group", "not"):
            for a in e.alts:
                _walk(a.elems, rep, out, refs, lits)
        prev_lit = e.value if e.kind == "lit" else None


def contexts(rules: Dict[str, GRule]):
    """Per generated context class: labels, rule references (with 'may repeat'), literals."""
    out = {}
    for r in rules.values():
        if not r.name[0].islower():
            continue
        labelled = [a for a in r.alts if a.label]
        if labelled:
            base = ctx_name(r.name)
            out[base] = {"rule": r.name, "alt": None, "labels": {}, "refs": {}, "lits": [], "base": None}
            for a in r.alts:
                if not a.label:
                    continue
                labels, refs, lits = {}, {}, []
                _walk(a.elems, False, labels, refs, lits)
                out[ctx_name(a.label)] = {"rule": r.name, "alt": a.label, "labels": labels, "refs": refs, "lits": lits, "base": base}
        else:
            labels, refs, lits = {}, {}, []
            for a in r.alts:
                _walk(a.elems, False, labels, refs, lits)
            out[ctx_name(r.name)] = {"rule": r.name, "alt": None, "labels": labels, "refs": refs, "lits": lits, "base": None}
    return out


def alt_operator_tokens(alt: Alt) -> List[str]:
    """Literal tokens of an `op=( 'a' | 'b' )` element, or the bare keyword literals."""
    for e in alt.elems:
        if e.label == "op" and e.kind == "group":
            return [x.value for a in e.alts for x in a.elems if x.kind == "lit"]
    return [e.value for e in alt.elems if e.kind == "lit"]
