"""C17 — alias relation is a signed equivalence under any operation history (structural invariants)."""
from __future__ import annotations

import ast

from ..engine import AnalysisError, MechanismMissing, PropertySpec, norm
from ..pyutil import call_name, calls, is_name, walk_local

AR = "src/pymoca/backends/casadi/alias_relation.py"
CLS = "AliasRelation"

SPEC = PropertySpec(
    "C17",
    "Alias relation is a signed equivalence under any operation history",
    decided=(
        "two structural invariants every correct implementation of this data structure needs: (1) both signs are "
        "updated/removed together — every store for v is accompanied by the store for toggle_sign(v), with the sign "
        "component negated in the canonical map, both merged sets grow together, and remove() deletes both signed "
        "classes from both maps; (2) copy() covers all state and shares no object that is mutated in place."
    ),
    not_decided="that the relation equals the signed union-find closure for every history (that is model checking, another family).",
)


def _set_methods_to_operators(mod):
    """alias_relation.py works on sets: `s.update(t)` on a local is `s |= t`, `a.union(b)` is `a | b`, `d.get(k, {k})`-style fallbacks are left
    alone — the rules below are written for the operator forms"""
    for fn in [f for f in ast.walk(mod) if isinstance(f, ast.FunctionDef)]:
        for holder in ast.walk(fn):
            for f_ in ("body", "orelse", "finalbody"):
                lst = getattr(holder, f_, None)
                if not isinstance(lst, list):
                    continue
                for i, st in enumerate(lst):
                    c = st.value if isinstance(st, ast.Expr) else None
                    if isinstance(c, ast.Call) and isinstance(c.func, ast.Attribute) and c.func.attr == "update" and isinstance(c.func.value, ast.Name) \
                            and len(c.args) == 1 and not c.keywords:
                        lst[i] = ast.copy_location(ast.AugAssign(target=ast.Name(id=c.func.value.id, ctx=ast.Store()), op=ast.BitOr(), value=c.args[0]), st)

        class U(ast.NodeTransformer):
            def visit_Call(self, n):
                self.generic_visit(n)
                if isinstance(n.func, ast.Attribute) and n.func.attr == "union" and len(n.args) == 1 and not n.keywords:
                    return ast.copy_location(ast.BinOp(left=n.func.value, op=ast.BitOr(), right=n.args[0]), n)
                return n

        U().visit(fn)
    ast.fix_missing_locations(mod)


def _inline_invariant_pairs(mod):
    """`entry = (c, s)` / `neg = (c, -s)` bound once from locals that are themselves bound once (a loop-invariant pair hoisted out of the
    loop that stores it) is the pair itself wherever it is read afterwards."""
    import copy
    for fn in [x for x in ast.walk(mod) if isinstance(x, ast.FunctionDef)]:
        stores = {}
        for x in ast.walk(fn):
            if isinstance(x, ast.Name) and isinstance(x.ctx, ast.Store):
                stores[x.id] = stores.get(x.id, 0) + 1
        params = {a.arg for a in fn.args.args}
        pairs = {}
        for st in ast.walk(fn):
            if isinstance(st, ast.Assign) and len(st.targets) == 1 and isinstance(st.targets[0], ast.Name) and stores.get(st.targets[0].id) == 1 \
                    and st.targets[0].id not in params and isinstance(st.value, ast.Tuple) and st.value.elts:
                comps = [e.operand if isinstance(e, ast.UnaryOp) and isinstance(e.op, ast.USub) else e for e in st.value.elts]
                if all(isinstance(c, ast.Name) and (stores.get(c.id, 0) + (c.id in params)) == 1 for c in comps):
                    pairs[st.targets[0].id] = st
        if not pairs:
            continue

        class T(ast.NodeTransformer):
            def visit_Name(self, n):
                if isinstance(n.ctx, ast.Load) and n.id in pairs and n.lineno > pairs[n.id].lineno:
                    return ast.copy_location(copy.deepcopy(pairs[n.id].value), n)
                return n

        T().visit(fn)
        dead = {id(st) for st in pairs.values()}
        for holder in ast.walk(fn):
            for f in ("body", "orelse", "finalbody"):
                lst = getattr(holder, f, None)
                if isinstance(lst, list) and any(id(x) in dead for x in lst):
                    lst[:] = [x for x in lst if id(x) not in dead] or [ast.Pass()]
    ast.fix_missing_locations(mod)


from ..engine import FILE_NORMALISERS  # noqa: E402

if _inline_invariant_pairs not in FILE_NORMALISERS.setdefault(AR, []):
    FILE_NORMALISERS[AR].append(_inline_invariant_pairs)

if _set_methods_to_operators not in FILE_NORMALISERS.setdefault(AR, []):
    FILE_NORMALISERS[AR].append(_set_methods_to_operators)


def _toggle(node) -> bool:
    return isinstance(node, ast.Call) and isinstance(node.func, ast.Attribute) and "toggle_sign" in node.func.attr and len(node.args) == 1


def _key_kind(node, var):
    if is_name(node, var):
        return "v"
    if _toggle(node) and is_name(node.args[0], var):
        return "-v"
    return None


@SPEC.rule(
    "R17.1",
    "both signs together: in add() every loop that stores into _aliases / _canonical_variables_map for v also stores "
    "for toggle_sign(v) (sign negated in the map); both alias sets are merged with b's; remove() deletes the union of "
    "both signed classes from both maps and the canonical entry",
)
def r17_1(ctx, rep):
    R = "R17.1"
    fn = ctx.func(AR, CLS + ".add", R)
    site = AR + ":%s.add" % CLS
    n = 0
    for loop in walk_local(fn):
        if not (isinstance(loop, ast.For) and isinstance(loop.target, ast.Name)):
            continue
        v = loop.target.id
        stores = {}
        for st in loop.body:
            if isinstance(st, ast.Assign) and isinstance(st.targets[0], ast.Subscript) and norm(st.targets[0].value).startswith("self._"):
                attr = norm(st.targets[0].value)
                stores.setdefault(attr, {})[_key_kind(st.targets[0].slice, v)] = st.value
        for attr, kinds in stores.items():
            n += 1
            ok = set(kinds) == {"v", "-v"}
            why = "stores for keys %s" % sorted(str(k) for k in kinds)
            if ok and "map" in attr:
                a, b = kinds["v"], kinds["-v"]
                ok = isinstance(a, ast.Tuple) and isinstance(b, ast.Tuple) and len(a.elts) == 2 and len(b.elts) == 2 \
                    and norm(a.elts[0]) == norm(b.elts[0]) and norm(b.elts[1]) == "-" + norm(a.elts[1])
                why = "map values %s / %s" % (norm(a), norm(b))
            elif ok:
                ok = norm(kinds["v"]) != norm(kinds["-v"])
                why = "set values %s / %s" % (norm(kinds["v"]), norm(kinds["-v"]))
            rep.ob(R, site, "loop over %s: %s" % (norm(loop.iter), attr), ok,
                   "v and toggle_sign(v) must be updated together (map: same canonical, negated sign; sets: the class and the inverted class); %s" % why)
    # the re-pointing loops must run over the whole merged class, not over a part of it: copy() gives every
    # member its own set object, so members that are skipped keep a stale, un-merged set
    merged_var = None
    for s_ in walk_local(fn):
        if isinstance(s_, ast.AugAssign) and isinstance(s_.op, ast.BitOr) and isinstance(s_.target, ast.Name) and "toggle_sign" not in norm(s_.value) \
                and (norm(s_.value).startswith("self.aliases(") or isinstance(s_.value, ast.Name)):
            merged_var = s_.target.id
    for loop in walk_local(fn):
        if isinstance(loop, ast.For) and any(isinstance(st, ast.Assign) and isinstance(st.targets[0], ast.Subscript)
                                             and norm(st.targets[0].value).startswith("self._") for st in loop.body):
            rep.ob(R, site, "loop domain of `for %s in %s`" % (norm(loop.target), norm(loop.iter)), merged_var is not None and is_name(loop.iter, merged_var),
                   "the loop that points members at the merged sets must iterate over the whole merged class `%s`; iterating `%s` leaves "
                   "members with their old set (visible once sets are no longer shared, e.g. after copy())" % (merged_var, norm(loop.iter)))
    # both sets merged
    merges = [norm(s) for s in walk_local(fn) if isinstance(s, ast.AugAssign) and isinstance(s.op, ast.BitOr)]
    plain = [m for m in merges if "toggle_sign" not in m]
    inv = [m for m in merges if "toggle_sign" in m]
    rep.ob(R, site, "both classes merged", len(plain) >= 1 and len(inv) >= 1,
           "the class of a must absorb the class of b AND the inverted class of a the inverted class of b; found %s" % merges)
    fn = ctx.func(AR, CLS + ".remove", R)
    site = AR + ":%s.remove" % CLS
    a = fn.args.args[1].arg
    union_ok = False
    var = None
    for s in walk_local(fn):
        if isinstance(s, ast.Assign) and isinstance(s.value, ast.BinOp) and isinstance(s.value.op, ast.BitOr):
            l, r = s.value.left, s.value.right
            kinds = set()
            for x in (l, r):
                if isinstance(x, ast.Subscript) and norm(x.value) == "self._aliases":
                    kinds.add(_key_kind(x.slice, a))
            if kinds == {"v", "-v"}:
                union_ok = True
                var = s.targets[0].id
    dels = set()
    for lp in walk_local(fn):
        if isinstance(lp, ast.For) and var and is_name(lp.iter, var) and isinstance(lp.target, ast.Name):
            for s in lp.body:
                if isinstance(s, ast.Delete):
                    for t in s.targets:
                        if isinstance(t, ast.Subscript) and is_name(t.slice, lp.target.id):
                            dels.add(norm(t.value))
    canon = any("self._canonical_variables.remove(%s)" % a in norm(s) or "self._canonical_variables.discard(%s)" % a in norm(s) for s in walk_local(fn) if isinstance(s, ast.Expr))
    rep.ob(R, site, "removes both signed classes", union_ok and dels == {"self._aliases", "self._canonical_variables_map"} and canon,
           "remove(a) must delete every member of class(a) and class(-a) from _aliases and _canonical_variables_map and drop the canonical "
           "entry (union=%s, deleted from %s, canonical=%s)" % (union_ok, sorted(dels), canon))
    if n < 2:
        raise MechanismMissing(R, "fewer than 2 paired-store loops found in add()")


def _inplace_mutated_attrs(cls_node):
    """attributes whose *values* are mutated in place: a method returns self.<attr>[k] and a variable bound to a call of
    that method is the target of |= / -= / .add / .discard / .update"""
    returns = {}
    for m in cls_node.body:
        if isinstance(m, ast.FunctionDef):
            for r in walk_local(m):
                if isinstance(r, ast.Return) and isinstance(r.value, ast.Subscript) and norm(r.value.value).startswith("self._"):
                    returns[m.name] = norm(r.value.value)[5:]
                # the same with a default: `return self._aliases.get(a, {a})`
                if isinstance(r, ast.Return) and isinstance(r.value, ast.Call) and isinstance(r.value.func, ast.Attribute) and r.value.func.attr in ("get", "setdefault") \
                        and norm(r.value.func.value).startswith("self._"):
                    returns[m.name] = norm(r.value.func.value)[5:]
    out = {}
    for m in cls_node.body:
        if not isinstance(m, ast.FunctionDef):
            continue
        bound = {}
        for s in walk_local(m):
            if isinstance(s, ast.Assign) and isinstance(s.targets[0], ast.Name) and isinstance(s.value, ast.Call) \
                    and isinstance(s.value.func, ast.Attribute) and is_name(s.value.func.value, "self") and s.value.func.attr in returns:
                bound[s.targets[0].id] = returns[s.value.func.attr]
        for s in walk_local(m):
            if isinstance(s, ast.AugAssign) and isinstance(s.target, ast.Name) and s.target.id in bound:
                out.setdefault(bound[s.target.id], []).append("%s: %s" % (m.name, norm(s)))
            if isinstance(s, ast.Call) and isinstance(s.func, ast.Attribute) and isinstance(s.func.value, ast.Name) and s.func.value.id in bound \
                    and s.func.attr in ("add", "discard", "update", "remove", "clear"):
                out.setdefault(bound[s.func.value.id], []).append("%s: %s" % (m.name, norm(s)))
    return out, returns


@SPEC.rule("R17.2", "copy() covers the state: every attribute assigned in __init__ is assigned on the copy")
def r17_2(ctx, rep):
    R = "R17.2"
    init = ctx.func(AR, CLS + ".__init__", R)
    attrs = {s.targets[0].attr for s in walk_local(init) if isinstance(s, ast.Assign) and isinstance(s.targets[0], ast.Attribute) and is_name(s.targets[0].value, "self")}
    cp = ctx.func(AR, CLS + ".copy", R)
    cvar = None
    for s in walk_local(cp):
        if isinstance(s, ast.Assign) and isinstance(s.value, ast.Call) and (call_name(s.value) or "").endswith(CLS):
            cvar = s.targets[0].id
    if cvar is None or len(attrs) < 3:
        raise MechanismMissing(R, "copy() does not allocate an AliasRelation, or __init__ has fewer than 3 attributes")
    written = set()
    for s in walk_local(cp):
        for t in ast.walk(s) if isinstance(s, (ast.Assign, ast.AugAssign)) else []:
            if isinstance(t, ast.Attribute) and is_name(t.value, cvar) and isinstance(t.ctx, ast.Store):
                written.add(t.attr)
            if isinstance(t, ast.Subscript) and isinstance(t.ctx, ast.Store) and isinstance(t.value, ast.Attribute) and is_name(t.value.value, cvar):
                written.add(t.value.attr)
    for a in sorted(attrs):
        rep.ob(R, AR + ":%s.copy" % CLS, "attribute " + a, a in written, "copy() must carry over `%s` (a copy lacking it starts from an empty relation there)" % a)


@SPEC.rule(
    "R17.3",
    "no shared in-place-mutated object: the sets stored in _aliases are merged in place by add(); copy() must copy "
    "them element-wise, and every other in-place mutation of a set obtained from aliases() must work on a .copy()",
)
def r17_3(ctx, rep):
    R = "R17.3"
    cls = ctx.cls(AR, CLS, R)
    mutated, returns = _inplace_mutated_attrs(cls)
    if "_aliases" not in mutated:
        raise MechanismMissing(R, "expected in-place mutation of the sets stored in _aliases (aliases |= ...) was not found")
    cp = ctx.func(AR, CLS + ".copy", R)
    for attr in sorted(mutated):
        ok = False
        for lp in walk_local(cp):
            if isinstance(lp, ast.For) and norm(lp.iter) == "self.%s.items()" % attr and isinstance(lp.target, ast.Tuple):
                k, v = lp.target.elts[0].id, lp.target.elts[1].id
                for s in lp.body:
                    if isinstance(s, ast.Assign) and isinstance(s.targets[0], ast.Subscript) and norm(s.targets[0].value).endswith("." + attr) \
                            and norm(s.value) in ("%s.copy()" % v, "set(%s)" % v, "frozenset(%s)" % v, "copy.copy(%s)" % v, "copy.deepcopy(%s)" % v):
                        ok = True
        for s in walk_local(cp):
            if isinstance(s, ast.Assign) and norm(s.targets[0]).endswith("." + attr) and "deepcopy(self.%s)" % attr in norm(s.value):
                ok = True
            # the same as a comprehension: <copy>.<attr> = {k: v.copy() for k, v in self.<attr>.items()}
            if isinstance(s, ast.Assign) and norm(s.targets[0]).endswith("." + attr) and isinstance(s.value, ast.DictComp) and len(s.value.generators) == 1 \
                    and not s.value.generators[0].ifs and norm(s.value.generators[0].iter) == "self.%s.items()" % attr and isinstance(s.value.generators[0].target, ast.Tuple):
                k, v = [norm(e) for e in s.value.generators[0].target.elts]
                if norm(s.value.key) == k and norm(s.value.value) in ("%s.copy()" % v, "set(%s)" % v, "frozenset(%s)" % v, "copy.copy(%s)" % v, "copy.deepcopy(%s)" % v):
                    ok = True
        rep.ob(R, AR + ":%s.copy" % CLS, "element-wise copy of " + attr, ok,
               "values of %s are mutated in place (%s); a shallow dict copy shares them, so add() on the copy changes the source" % (attr, mutated[attr][:2]))
    # other mutations of sets obtained from the accessor must be on copies
    for m in cls.body:
        if not isinstance(m, ast.FunctionDef) or m.name == "add":
            continue
        for s in walk_local(m):
            if isinstance(s, ast.Assign) and isinstance(s.targets[0], ast.Name) and isinstance(s.value, ast.Call):
                v = s.value
                direct = isinstance(v.func, ast.Attribute) and is_name(v.func.value, "self") and v.func.attr in returns
                if direct:
                    name = s.targets[0].id
                    muts = [norm(x) for x in walk_local(m) if (isinstance(x, ast.AugAssign) and is_name(x.target, name))
                            or (isinstance(x, ast.Call) and isinstance(x.func, ast.Attribute) and is_name(x.func.value, name) and x.func.attr in ("add", "discard", "update", "remove", "clear"))]
                    if muts:
                        rep.ob(R, AR + ":%s.%s" % (CLS, m.name), "mutation of " + name, False,
                               "`%s` is the relation's own set (returned by %s()); mutating it (%s) corrupts the relation — work on a .copy()" % (name, v.func.attr, muts[0]))
    it = ctx.func(AR, CLS + ".__iter__", R)
    ok = any(isinstance(s, ast.Assign) and norm(s.value).startswith("self.aliases(") and norm(s.value).endswith(".copy()") for s in walk_local(it))
    disc = any(isinstance(x, ast.Call) and isinstance(x.func, ast.Attribute) and x.func.attr == "discard" for x in walk_local(it))
    rep.ob(R, AR + ":%s.__iter__" % CLS, "iteration works on a copy", ok or not disc,
           "__iter__ removes the canonical name from the set it yields; it must do so on a copy of the class")


def _resolve_local(cfg, node_id, expr, depth=3):
    """expression with local names replaced by their unique reaching definition's value (when there is exactly one)"""
    from ..cfg import reaching_defs, def_value
    if depth == 0 or not isinstance(expr, ast.Name):
        return expr
    rd = reaching_defs(cfg, expr.id).get(node_id, frozenset())
    vals = [def_value(cfg.nodes[d], expr.id) for d in rd if d != cfg.entry]
    if len(rd) == 1 and len(vals) == 1 and vals[0] is not None:
        return _resolve_local(cfg, list(rd)[0], vals[0], depth - 1)
    return expr


@SPEC.rule(
    "R17.4",
    "membership is decided on values, never on object identity: copy() gives every key its own set object (R17.3), so "
    "no `is` / `is not` comparison between alias sets may exist, and the only exit of add() that skips the update of the "
    "maps is guarded by the membership test `b in aliases(a)` (or its symmetric form)",
)
def r17_4(ctx, rep):
    from ..cfg import CFG
    R = "R17.4"
    cls = ctx.cls(AR, CLS, R)
    n_cmp = 0
    for m in cls.body:
        if not isinstance(m, ast.FunctionDef):
            continue
        for c in walk_local(m):
            if isinstance(c, ast.Compare):
                n_cmp += 1
                for op, rhs, lhs in zip(c.ops, c.comparators, [c.left] + c.comparators[:-1]):
                    if isinstance(op, (ast.Is, ast.IsNot)) and not any(isinstance(x, ast.Constant) and x.value is None for x in (lhs, rhs)):
                        rep.ob(R, AR + ":%s.%s" % (CLS, m.name), "identity comparison `%s`" % norm(c), False,
                               "alias classes are compared by object identity; after copy() every member owns a separate (equal) set "
                               "object, so identity no longer means 'same class' and related variables are treated as unrelated")
    rep.ob(R, AR + ":" + CLS, "comparisons inspected", n_cmp >= 4, "expected the membership tests of add/aliases/canonical_signed/remove (found %d comparisons)" % n_cmp)
    fn = ctx.func(AR, CLS + ".add", R)
    params = [a.arg for a in fn.args.args[1:3]]
    cfg = CFG(fn, R)
    stores = {x.id for x in cfg.stmts() if isinstance(x.ast, ast.Assign) and any(
        isinstance(t, ast.Subscript) and norm(t.value) in ("self._aliases", "self._canonical_variables_map") for t in x.ast.targets)}
    if not stores:
        raise MechanismMissing(R, "add() no longer stores into _aliases / _canonical_variables_map")
    k = 0
    for r in [x for x in cfg.stmts() if isinstance(x.ast, ast.Return)] + [cfg.nodes[cfg.exit]]:
        w = cfg.path(cfg.entry, r.id, avoid=stores)
        if w is None or (r.id == cfg.exit and any(isinstance(x.ast, ast.Return) for x in w if x.kind == "stmt")):
            continue
        k += 1
        guards = cfg.dominated_by(r.id, lambda x: x.kind == "assume" and x.taken)
        ok = False
        seen = []
        for g in guards:
            t = g.ast
            seen.append(norm(t))
            if isinstance(t, ast.Compare) and len(t.ops) == 1 and isinstance(t.ops[0], ast.In) and isinstance(t.left, ast.Name) and t.left.id in params:
                other = [p_ for p_ in params if p_ != t.left.id]
                v = _resolve_local(cfg, g.id, t.comparators[0])
                if isinstance(v, ast.Call) and norm(v.func) == "self.aliases" and len(v.args) == 1 and other and is_name(v.args[0], other[0]):
                    ok = True
        rep.ob(R, AR + ":%s.add" % CLS, "early exit #%d guarded by membership" % k, ok,
               "add() can leave without updating the maps on a path that is not guarded by `b in aliases(a)`: guards seen %s" % (seen or "none"),
               path=cfg.describe(w))
    if k == 0:
        rep.note("R17.4: add() has no early exit")


@SPEC.rule(
    "R17.5",
    "the canonical set holds canonical names and is updated on every merge: in add(), what is added to _canonical_variables is "
    "the name component of canonical_signed(<first argument>) and what is discarded is the name component of "
    "canonical_signed(<second argument>) — never a raw (possibly signed) argument — and every path that updates the maps passes "
    "the addition",
)
def r17_5(ctx, rep):
    from ..cfg import CFG
    R = "R17.5"
    fn = ctx.func(AR, CLS + ".add", R)
    site = AR + ":%s.add" % CLS
    params = [a.arg for a in fn.args.args[1:3]]
    # names bound to the name component of canonical_signed(<param>)
    canon = {}
    for st in walk_local(fn):
        if isinstance(st, ast.Assign) and isinstance(st.value, ast.Call) and norm(st.value.func) == "self.canonical_signed" and st.value.args \
                and isinstance(st.value.args[0], ast.Name) and st.value.args[0].id in params:
            t = st.targets[0]
            if isinstance(t, ast.Tuple) and isinstance(t.elts[0], ast.Name):
                canon[t.elts[0].id] = st.value.args[0].id
    cfg = CFG(fn, R)
    adds = [x for x in cfg.stmts() if any(isinstance(c.func, ast.Attribute) and c.func.attr == "add" and norm(c.func.value) == "self._canonical_variables" for c in calls(x.ast))]
    discards = [x for x in cfg.stmts() if any(isinstance(c.func, ast.Attribute) and c.func.attr in ("discard", "remove") and norm(c.func.value) == "self._canonical_variables" for c in calls(x.ast))]
    if not adds or not discards:
        raise MechanismMissing(R, "add() no longer adds to / discards from _canonical_variables")

    def arg_of(x, attrs):
        for c in calls(x.ast):
            if isinstance(c.func, ast.Attribute) and c.func.attr in attrs and norm(c.func.value) == "self._canonical_variables" and c.args:
                return c.args[0]
        return None

    for x in adds:
        a = arg_of(x, ("add",))
        rep.ob(R, site, "added name is canonical_signed(%s)[0]" % params[0], isinstance(a, ast.Name) and canon.get(a.id) == params[0],
               "`%s` puts something other than the canonical name of the first argument into the canonical set: for add('-a', 'b') the set would "
               "hold '-a' while canonical_signed says 'a' — iteration, canonical_variables and remove() then disagree with the maps" % norm(x.ast))
    for x in discards:
        a = arg_of(x, ("discard", "remove"))
        rep.ob(R, site, "discarded name is canonical_signed(%s)[0]" % params[1], isinstance(a, ast.Name) and canon.get(a.id) == params[1],
               "`%s` must discard the canonical name of the second argument's class (found %s)" % (norm(x.ast), norm(a) if a is not None else None))
    # every path that rewrites the canonical map passes an addition
    stores = [x for x in cfg.stmts() if isinstance(x.ast, ast.Assign) and any(isinstance(t, ast.Subscript) and norm(t.value) == "self._canonical_variables_map" for t in x.ast.targets)]
    w = None
    for s_ in stores:
        w = w or cfg.must_pass(cfg.entry, s_.id, {x.id for x in adds})
    rep.ob(R, site, "canonical set updated on every merge", bool(stores) and w is None,
           "the canonical map is rewritten on a path that did not add the merged class's canonical name to _canonical_variables",
           path=cfg.describe(w) if w else "")


# -- R17.6: canonical lookup, decided by interpreting canonical_signed over the finite case space --------------------------------
class _Undecided(Exception):
    pass


def _lookup_cases(fn, map_attr):
    """Interprets `canonical_signed(a)` abstractly for a = +v / -v, v known to the map or not, stored sign s in {1,-1} (the map is
    symmetric: it holds (c, s) for +v and (c, -s) for -v — R17.1).  Values: ("name", base, negative), ints, bools, tuples."""
    a = fn.args.args[1].arg
    results = {}

    class Ret(Exception):
        def __init__(self, v):
            self.v = v

    def ev(e, env, case):
        neg, found, s = case
        if isinstance(e, ast.Constant):
            return e.value
        if isinstance(e, ast.Name):
            if e.id in env:
                return env[e.id]
            raise _Undecided("name " + e.id)
        if isinstance(e, ast.Tuple):
            return tuple(ev(x, env, case) for x in e.elts)
        if isinstance(e, ast.UnaryOp):
            v = ev(e.operand, env, case)
            if isinstance(e.op, ast.USub) and isinstance(v, int):
                return -v
            if isinstance(e.op, ast.Not):
                return not v
            raise _Undecided(norm(e))
        if isinstance(e, ast.BinOp) and isinstance(e.op, ast.Mult):
            l, r = ev(e.left, env, case), ev(e.right, env, case)
            if isinstance(l, int) and isinstance(r, int):
                return l * r
            raise _Undecided(norm(e))
        if isinstance(e, ast.BinOp) and isinstance(e.op, ast.Add):
            l, r = ev(e.left, env, case), ev(e.right, env, case)
            if l == "-" and isinstance(r, tuple) and r[0] == "name" and not r[2]:
                return ("name", r[1], True)
            raise _Undecided(norm(e))
        if isinstance(e, ast.IfExp):
            return ev(e.body, env, case) if ev(e.test, env, case) else ev(e.orelse, env, case)
        if isinstance(e, ast.BoolOp):
            vs = [ev(x, env, case) for x in e.values]
            return all(vs) if isinstance(e.op, ast.And) else any(vs)
        if isinstance(e, ast.Subscript):
            base = e.value
            if isinstance(base, ast.Attribute) and is_name(base.value, "self") and base.attr == map_attr:
                k = ev(e.slice, env, case)
                if not (isinstance(k, tuple) and k[0] == "name" and k[1] == "v") or not found:
                    raise _Undecided("map lookup of an absent key")
                return (("name", "c", False), s if not k[2] else -s)
            v = ev(base, env, case)
            if isinstance(v, tuple) and v and v[0] == "name":
                sl = e.slice
                if isinstance(sl, ast.Slice) and sl.upper is None and isinstance(sl.lower, ast.Constant) and sl.lower.value == 1:
                    if not v[2]:
                        return ("name", v[1] + "<first character cut off>", False)
                    return ("name", v[1], False)
                if isinstance(sl, ast.Constant) and sl.value == 0:
                    return "-" if v[2] else "<letter>"
            if isinstance(v, tuple) and isinstance(e.slice, ast.Constant) and isinstance(e.slice.value, int):
                return v[e.slice.value]
            raise _Undecided(norm(e))
        if isinstance(e, ast.Compare) and len(e.ops) == 1:
            op = e.ops[0]
            if isinstance(op, (ast.In, ast.NotIn)) and isinstance(e.comparators[0], ast.Attribute) and e.comparators[0].attr == map_attr:
                k = ev(e.left, env, case)
                r = bool(found) and isinstance(k, tuple) and k[0] == "name" and k[1] == "v"
                return r if isinstance(op, ast.In) else not r
            l, r = ev(e.left, env, case), ev(e.comparators[0], env, case)
            if isinstance(op, ast.Eq):
                return l == r
            if isinstance(op, ast.NotEq):
                return l != r
            raise _Undecided(norm(e))
        if isinstance(e, ast.Call):
            cn = (call_name(e) or "")
            if cn.endswith("is_negative") and e.args:
                v = ev(e.args[0], env, case)
                if isinstance(v, tuple) and v[0] == "name":
                    return v[2]
            if cn.endswith("startswith") and isinstance(e.func, ast.Attribute) and e.args and isinstance(e.args[0], ast.Constant) and e.args[0].value == "-":
                v = ev(e.func.value, env, case)
                if isinstance(v, tuple) and v[0] == "name":
                    return v[2]
            if cn.endswith("toggle_sign") and e.args:
                v = ev(e.args[0], env, case)
                if isinstance(v, tuple) and v[0] == "name":
                    return ("name", v[1], not v[2])
            if cn.endswith(map_attr + ".get") and e.args:
                k = ev(e.args[0], env, case)
                if found and isinstance(k, tuple) and k[0] == "name" and k[1] == "v":
                    return (("name", "c", False), s if not k[2] else -s)
                return ev(e.args[1], env, case) if len(e.args) > 1 else None
            raise _Undecided(norm(e))
        raise _Undecided(norm(e))

    def run(stmts, env, case):
        for st in stmts:
            if isinstance(st, ast.Expr) and isinstance(st.value, ast.Constant):
                continue
            if isinstance(st, ast.Return):
                raise Ret(ev(st.value, env, case) if st.value is not None else None)
            if isinstance(st, ast.If):
                run(st.body if ev(st.test, env, case) else st.orelse, env, case)
            elif isinstance(st, ast.Assign) and len(st.targets) == 1:
                v = ev(st.value, env, case)
                t = st.targets[0]
                if isinstance(t, ast.Name):
                    env[t.id] = v
                elif isinstance(t, ast.Tuple) and isinstance(v, tuple) and len(v) == len(t.elts) and all(isinstance(x, ast.Name) for x in t.elts):
                    for x, vv in zip(t.elts, v):
                        env[x.id] = vv
                else:
                    raise _Undecided(norm(st))
            else:
                raise _Undecided(norm(st)[:60])

    for neg in (False, True):
        for found in (False, True):
            for s in ((1, -1) if found else (1,)):
                case = (neg, found, s)
                env = {a: ("name", "v", neg)}
                try:
                    run(fn.body, env, case)
                    results[case] = None
                except Ret as r:
                    results[case] = r.v
    return results


@SPEC.rule(
    "R17.6",
    "canonical_signed gives every member the class's canonical name with the member's own sign: interpreted over the finite case "
    "space (argument +v or -v; v known to the map with stored sign +1 or -1, or unknown) the method returns (c, s) resp. (c, -s) for a "
    "known name and (v, +1) resp. (v, -1) for an unknown one — whichever way the lookup is written (direct by the signed name, or by "
    "the plain name with the sign re-applied)",
)
def r17_6(ctx, rep):
    R = "R17.6"
    ms = ctx.methods(AR, CLS, R)
    fn = ms.get("canonical_signed")
    if fn is None:
        raise MechanismMissing(R, "AliasRelation.canonical_signed not found")
    site = "%s:%s.canonical_signed" % (AR, CLS)
    map_attr = next((x.attr for x in ast.walk(fn) if isinstance(x, ast.Attribute) and is_name(x.value, "self") and "map" in x.attr), None)
    if map_attr is None:
        raise MechanismMissing(R, "canonical_signed does not consult the canonical map")
    try:
        res = _lookup_cases(fn, map_attr)
    except _Undecided as e:
        raise MechanismMissing(R, "canonical_signed uses a construct the case interpreter does not know (%s)" % e)
    bad = []
    for (neg, found, s), got in sorted(res.items()):
        want = (("name", "c", False), -s if neg else s) if found else (("name", "v", False), -1 if neg else 1)
        if got != want:
            arg = ("-v" if neg else "v") + (", v stored with sign %+d" % s if found else ", v unknown")
            show = lambda t: "(%s, %s)" % (("-" if t[0][2] else "") + t[0][1], t[1]) if isinstance(t, tuple) and len(t) == 2 and isinstance(t[0], tuple) else repr(t)
            bad.append("canonical_signed(%s) = %s, expected %s" % (arg, show(got), show(want)))
    rep.ob(R, site, "every case of the lookup returns the canonical name with the argument's own sign (%d cases)" % len(res), not bad,
           "; ".join(bad[:4]) + " — members of one class then disagree about their relative sign, and the next add() that consults the lookup stores the wrong signs for the whole class")


@SPEC.rule(
    "R17.7",
    "the merged class takes name and sign from the first argument's lookup: in add() both components of what is stored in the canonical map "
    "— (C, S) for a member, (C, -S) for its negation — are bound exactly once, by unpacking canonical_signed(<first argument>); the lookup of the "
    "second argument only yields the canonical name to retire (binding its sign to the same local overwrites S)",
)
def r17_7(ctx, rep):
    from ..cfg import CFG, reaching_defs
    R = "R17.7"
    fn = ctx.methods(AR, CLS, R).get("add")
    if fn is None:
        raise MechanismMissing(R, "AliasRelation.add not found")
    site = "%s:%s.add" % (AR, CLS)
    first = fn.args.args[1].arg
    cfg = CFG(fn, R)
    n = 0
    for x in cfg.stmts():
        a = x.ast
        if not (isinstance(a, ast.Assign) and isinstance(a.targets[0], ast.Subscript) and "canonical" in norm(a.targets[0].value) and "map" in norm(a.targets[0].value)
                and isinstance(a.value, ast.Tuple) and len(a.value.elts) == 2):
            continue
        n += 1
        for role, e in (("name", a.value.elts[0]), ("sign", a.value.elts[1])):
            if isinstance(e, ast.UnaryOp) and isinstance(e.op, ast.USub):
                e = e.operand
            if not isinstance(e, ast.Name):
                rep.ob(R, site, "%s stored by `%s`" % (role, norm(a)[:60]), False, "the stored %s is not a local bound from the first argument's lookup" % role)
                continue
            rd = reaching_defs(cfg, e.id).get(x.id, set())
            good = True
            why = []
            for d in rd:
                if d == cfg.entry:
                    good = False
                    why.append("unbound")
                    continue
                dn = cfg.nodes[d].ast
                ok = isinstance(dn, ast.Assign) and isinstance(dn.targets[0], ast.Tuple) and isinstance(dn.value, ast.Call) and (call_name(dn.value) or "").endswith("canonical_signed") \
                    and dn.value.args and is_name(dn.value.args[0], first)
                if ok:
                    pos = [i for i, t in enumerate(dn.targets[0].elts) if is_name(t, e.id)]
                    ok = pos == [0 if role == "name" else 1]
                if not ok:
                    good = False
                    why.append("line %d: %s" % (cfg.nodes[d].lineno, norm(dn)[:60]))
            rep.ob(R, site, "%s stored by `%s` comes from the first argument's lookup" % (role, norm(a)[:50]), good and len(rd) == 1,
                   "`%s` reaches the store bound by %s: the class's members get the sign (name) of the second argument's old class, so canonical_signed() "
                   "of a member and of its partner no longer agree" % (e.id, "; ".join(why) or "%d definitions" % len(rd)))
    if n < 2:
        raise MechanismMissing(R, "expected the stores for a member and for its negation into the canonical map, found %d" % n)


@SPEC.rule(
    "R17.8",
    "a copy shares no container with its source: every attribute copy() sets on the new relation is given a new object (a .copy(), a constructor "
    "call, a comprehension, or is filled element by element) — never the source's own set or dict, whatever its values are: add() and remove() "
    "insert into and delete from these containers themselves",
)
def r17_8(ctx, rep):
    from ..pyutil import inlined
    R = "R17.8"
    cp = ctx.func(AR, CLS + ".copy", R)
    site = AR + ":%s.copy" % CLS
    cvar = None
    for s_ in walk_local(cp):
        if isinstance(s_, ast.Assign) and isinstance(s_.value, ast.Call) and (call_name(s_.value) or "").endswith(CLS):
            cvar = s_.targets[0].id
    if cvar is None:
        raise MechanismMissing(R, "copy() does not allocate an AliasRelation")
    n = 0
    for s_ in walk_local(cp):
        if isinstance(s_, ast.Assign) and isinstance(s_.targets[0], ast.Attribute) and is_name(s_.targets[0].value, cvar):
            n += 1
            v = inlined(s_.value, cp.body, keep={cvar})
            shared = isinstance(v, (ast.Attribute, ast.Name)) and (norm(v).startswith("self.") or norm(v) == "self")
            rep.ob(R, site, "attribute %s gets an object of its own" % s_.targets[0].attr, not shared,
                   "`%s` makes the copy and its source use one and the same container: an add() or remove() on either is seen by the other" % norm(s_)[:80])
        if isinstance(s_, ast.Expr) and isinstance(s_.value, ast.Call) and "__dict__" in norm(s_.value):
            n += 1
            rep.ob(R, site, "no wholesale __dict__ transfer", False, "`%s` hands the source's containers to the copy" % norm(s_)[:80])
    if n < 2:
        raise MechanismMissing(R, "fewer than 2 attribute assignments on the new relation found in copy()")


@SPEC.rule(
    "R17.9",
    "remove() retires exactly the class it empties: the name taken out of the set of canonical variables is known to be in it — every path to "
    "that statement has passed the test `<name> in <canonical set>` — so a class is never emptied (its alias sets and map entries deleted) "
    "while its canonical name stays behind and keeps being iterated",
)
def r17_9(ctx, rep):
    from ..cfg import CFG, assume_truth, must_facts
    R = "R17.9"
    fn = ctx.func(AR, CLS + ".remove", R)
    site = AR + ":%s.remove" % CLS
    cfg = CFG(fn, R)
    # the canonical set: the attribute behind the canonical_variables property
    cls = ctx.cls(AR, CLS, R)
    canon = None
    for m in cls.body:
        if isinstance(m, ast.FunctionDef) and m.name == "canonical_variables":
            for r_ in ast.walk(m):
                if isinstance(r_, ast.Return) and isinstance(r_.value, ast.Attribute) and is_name(r_.value.value, "self"):
                    canon = r_.value.attr
    if canon is None:
        raise MechanismMissing(R, "the attribute behind canonical_variables was not found")
    removals = []
    for x in cfg.stmts():
        for c in calls(x.ast):
            if isinstance(c.func, ast.Attribute) and c.func.attr in ("remove", "discard") and norm(c.func.value) == "self." + canon and c.args:
                removals.append((x, c))
    deletes = [x for x in cfg.stmts() if isinstance(x.ast, ast.Delete)]
    if not removals or not deletes:
        raise MechanismMissing(R, "remove() does not take a name out of self.%s / does not delete entries" % canon)

    for x, c in removals:
        q = "%s in self.%s" % (norm(c.args[0]), canon)

        def transfer(node, facts, q=q):
            if node.kind == "assume":
                t = assume_truth(node, q)
                if t is True:
                    return facts | {"member"}
                if t is False:
                    return facts - {"member"}
            return facts

        IN = must_facts(cfg, transfer)
        rep.ob(R, site, "`%s` removes a name known to be canonical" % norm(c)[:60], "member" in (IN.get(x.id) or frozenset()),
               "the statement is reached on a path that has not established `%s`: the class of a non-canonical member is deleted while its "
               "canonical name stays in the set (iteration then yields a class without members)" % q)
    # every path that deletes entries also retires the canonical name
    rm_ids = {x.id for x, _ in removals}
    for d in deletes:
        w = cfg.must_pass(d.id, cfg.exit, rm_ids)
        rep.ob(R, site, "after `%s` the canonical name is retired" % norm(d.ast)[:50], w is None,
               "remove() can return after deleting entries without taking the canonical name out of self.%s" % canon, path=cfg.describe(w) if w else "")


# -- seeded variants ---------------------------------------------------------
from ._mut import delete_stmt_where, replace_in_func  # noqa: E402


@SPEC.mutant("inverted class not stored", AR, "R17.1", "_aliases")
def _m1(mod):
    return mod if delete_stmt_where(mod, "AliasRelation.add", lambda st: "toggle_sign(v)] = inverted_aliases" in norm(st)) else None


@SPEC.mutant("sign not negated for the inverse", AR, "R17.1", "_canonical_variables_map")
def _m2(mod):
    def edit(fn):
        for n in ast.walk(fn):
            if isinstance(n, ast.UnaryOp) and isinstance(n.op, ast.USub) and is_name(n.operand, "sign_a"):
                n.op = ast.UAdd()
                return True
        return False

    return mod if replace_in_func(mod, "AliasRelation.add", edit) else None


@SPEC.mutant("shallow copy of _aliases", AR, "R17.3", "element-wise")
def _m3(mod):
    def edit(fn):
        for n in ast.walk(fn):
            if isinstance(n, ast.Assign) and norm(n.targets[0]) == "copy._aliases[k]":
                n.value = ast.Name(id="v", ctx=ast.Load())
                return True
        return False

    return mod if replace_in_func(mod, "AliasRelation.copy", edit) else None


@SPEC.mutant("copy forgets the canonical set", AR, "R17.2", "_canonical_variables")
def _m4(mod):
    return mod if delete_stmt_where(mod, "AliasRelation.copy", lambda st: norm(st).startswith("copy._canonical_variables =")) else None


@SPEC.mutant("remove keeps the inverse class", AR, "R17.1", "removes both")
def _m5(mod):
    def edit(fn):
        for n in ast.walk(fn):
            if isinstance(n, ast.Assign) and norm(n.targets[0]) == "to_remove":
                n.value = n.value.left
                return True
        return False

    return mod if replace_in_func(mod, "AliasRelation.remove", edit) else None


@SPEC.mutant("__iter__ mutates the relation's own set", AR, "R17.3", "")
def _m6(mod):
    def edit(fn):
        for n in ast.walk(fn):
            if isinstance(n, ast.Assign) and norm(n.value).endswith(".copy()"):
                n.value = n.value.func.value
                return True
        return False

    return mod if replace_in_func(mod, "AliasRelation.__iter__", edit) else None


@SPEC.mutant("only the joining members are re-pointed", AR, "R17.1", "loop domain")
def _m7(mod):
    def edit(fn):
        for n in ast.walk(fn):
            if isinstance(n, ast.For) and is_name(n.iter, "aliases") and any("self._aliases[" in norm(st) for st in n.body):
                n.iter = ast.parse("self.aliases(b) | {a}", mode="eval").body
                return True
        return False

    return mod if replace_in_func(mod, "AliasRelation.add", edit) else None


@SPEC.mutant("already-related test by set identity", AR, "R17.4", "identity comparison")
def _m_ident(mod):
    def edit(fn):
        for n in ast.walk(fn):
            if isinstance(n, ast.If) and isinstance(n.test, ast.Compare) and isinstance(n.test.ops[0], ast.In) and is_name(n.test.left, "b"):
                n.test = ast.parse("self.aliases(b) is aliases", mode="eval").body
                return True
        return False

    return mod if replace_in_func(mod, "AliasRelation.add", edit) else None


@SPEC.mutant("canonical set gets the raw first argument", AR, "R17.5", "added name")
def _m_rawadd(mod):
    def edit(fn):
        for c in ast.walk(fn):
            if isinstance(c, ast.Call) and isinstance(c.func, ast.Attribute) and c.func.attr == "add" and norm(c.func.value) == "self._canonical_variables":
                c.args[0] = ast.Name(id="a", ctx=ast.Load())
                return True
        return False

    return mod if replace_in_func(mod, "AliasRelation.add", edit) else None


@SPEC.mutant("lookup by the plain name drops the stored sign for negated arguments", AR, "R17.6", "every case of the lookup")
def _m_lookup_sign(mod):
    def edit(fn):
        fn.body = ast.parse(
            "negative = a[0] == '-'\nname = a[1:] if negative else a\n"
            "if name in self._canonical_variables_map:\n    canonical, sign = self._canonical_variables_map[name]\nelse:\n    canonical, sign = name, 1\n"
            "return canonical, -1 if negative else sign").body
        return True

    return mod if replace_in_func(mod, "AliasRelation.canonical_signed", edit) else None


@SPEC.mutant("sign of the merged class taken from the second argument's lookup", AR, "R17.7", "comes from the first argument")
def _m_sign_b(mod):
    def edit(fn):
        for st in ast.walk(fn):
            if isinstance(st, ast.Assign) and isinstance(st.targets[0], ast.Tuple) and "canonical_signed(b)" in norm(st.value):
                st.targets[0].elts[1] = ast.Name(id="sign_a", ctx=ast.Store())
                return True
        return False

    return mod if replace_in_func(mod, "AliasRelation.add", edit) else None


@SPEC.mutant("copy shares the canonical map", AR, "R17.8", "_canonical_variables_map")
def _m_shared_map(mod):
    def edit(fn):
        for n in ast.walk(fn):
            if isinstance(n, ast.Assign) and norm(n.targets[0]).endswith("._canonical_variables_map") and isinstance(n.value, ast.Call):
                n.value = n.value.func.value
                return True
        return False

    return mod if replace_in_func(mod, "AliasRelation.copy", edit) else None


@SPEC.mutant("remove guards on the member map", AR, "R17.9", "known to be canonical")
def _m_remove_guard(mod):
    def edit(fn):
        for n in ast.walk(fn):
            if isinstance(n, ast.Compare) and norm(n.comparators[0]) == "self._canonical_variables":
                n.comparators[0] = ast.parse("self._canonical_variables_map", mode="eval").body
                return True
        return False

    return mod if replace_in_func(mod, "AliasRelation.remove", edit) else None
