"""C06 — deep copies of a tree are independent of the original (ast.py copy protocol)."""
from __future__ import annotations

import ast

from ..cfg import CFG
from ..engine import AnalysisError, MechanismMissing, PropertySpec, norm
from ..pyutil import call_name, calls, dotted, is_name, walk_local

AST = "src/pymoca/ast.py"
TREE_PY = "src/pymoca/tree.py"
PARSER = "src/pymoca/parser.py"

SPEC = PropertySpec(
    "C06",
    "Deep copies of a tree are independent of the original",
    decided=(
        "the copy protocol is well-formed: the deepcopy memo is indexed and tested with id() keys only, the "
        "keep-parent-by-reference entry is written only when the parent is not already being copied, no "
        "__deepcopy__ hook bound to the source object (nor its None shadow) survives on the copy, the copying "
        "lookup API is deep, and the AST API maintains parent links."
    ),
    not_decided="that every node type round-trips field by field (the default copy.deepcopy is trusted).",
)
SPEC.assumptions += ["copy.deepcopy's memo maps id(original) -> copy; an instance attribute __deepcopy__ shadows the method"]


def _deepcopy_methods(ctx, R):
    out = []
    for st in ctx.module(AST, R).body:
        if isinstance(st, ast.ClassDef):
            for m in st.body:
                if isinstance(m, ast.FunctionDef) and m.name == "__deepcopy__" and len(m.args.args) >= 2:
                    ctx.functions_analysed.add("%s:%s.__deepcopy__" % (AST, st.name))
                    # explanatory temporaries of the hook (`parent = self.parent`, `key = id(parent)`) are read through
                    from ..pyutil import inline_simple_locals, merge_nested_ifs_inplace
                    m2 = inline_simple_locals(m)
                    merge_nested_ifs_inplace(m2)
                    for par in ast.walk(m2):
                        for ch in ast.iter_child_nodes(par):
                            ch._parent = par
                    out.append((st.name, m2, m.args.args[0].arg, m.args.args[1].arg))
    if len(out) < 2:
        raise MechanismMissing(R, "expected >=2 __deepcopy__ hooks in ast.py, found %d" % len(out))
    return out


def _is_id_key(node) -> bool:
    return isinstance(node, ast.Call) and is_name(node.func, "id") and len(node.args) == 1


@SPEC.rule(
    "R06.1",
    "memo key consistency: inside every __deepcopy__ the memo dict is indexed and membership-tested only with "
    "id(<object>) keys (copy.deepcopy keys its memo by id; testing with the object itself is always false/true)",
)
def r06_1(ctx, rep):
    R = "R06.1"
    n = 0
    for cls, fn, selfp, memo in _deepcopy_methods(ctx, R):
        site = "%s:%s.__deepcopy__" % (AST, cls)
        for node in walk_local(fn):
            if isinstance(node, ast.Compare) and len(node.ops) == 1 and isinstance(node.ops[0], (ast.In, ast.NotIn)) \
                    and is_name(node.comparators[0], memo):
                n += 1
                rep.ob(R, site, "test:" + norm(node), _is_id_key(node.left),
                       "`%s`: the memo is keyed by id(); this test can never find the object, so the guard it implements is void"
                       % norm(node))
            elif isinstance(node, ast.Subscript) and is_name(node.value, memo):
                n += 1
                rep.ob(R, site, "index:" + norm(node), _is_id_key(node.slice), "memo must be indexed with id(<object>)")
            elif isinstance(node, ast.Call) and isinstance(node.func, ast.Attribute) and is_name(node.func.value, memo) \
                    and node.func.attr in ("get", "setdefault", "pop") and node.args:
                n += 1
                rep.ob(R, site, "call:" + norm(node), _is_id_key(node.args[0]), "memo must be accessed with id(<object>) keys")
    if n < 2:
        raise MechanismMissing(R, "fewer than 2 memo accesses found")


@SPEC.rule(
    "R06.2",
    "guarded parent memo: a keep-by-reference entry `memo[id(X)] = X` is written only under `id(X) not in memo` "
    "(otherwise copying a whole tree overwrites the parent's fresh copy with the original)",
)
def r06_2(ctx, rep):
    R = "R06.2"
    n = 0
    for cls, fn, selfp, memo in _deepcopy_methods(ctx, R):
        site = "%s:%s.__deepcopy__" % (AST, cls)
        cfg = CFG(fn, R)
        for node in cfg.stmts():
            st = node.ast
            if isinstance(st, ast.Assign) and len(st.targets) == 1:
                t = st.targets[0]
                if isinstance(t, ast.Subscript) and is_name(t.value, memo) and _is_id_key(t.slice) \
                        and norm(t.slice.args[0]) == norm(st.value):
                    n += 1
                    obj = norm(st.value)

                    def guard(x):
                        if x.kind != "assume":
                            return False
                        for c in ast.walk(x.ast):
                            if isinstance(c, ast.Compare) and len(c.ops) == 1 and is_name(c.comparators[0], memo) \
                                    and _is_id_key(c.left) and norm(c.left.args[0]) == obj:
                                if isinstance(c.ops[0], ast.NotIn) and x.taken:
                                    # inside an `and` chain the true branch implies every conjunct
                                    return _conjunct_of(x.ast, c)
                                if isinstance(c.ops[0], ast.In) and not x.taken and x.ast is c:
                                    return True
                        return False

                    ok = bool(cfg.dominated_by(node.id, guard))
                    rep.ob(R, site, "write:" + norm(st), ok,
                           "`%s` must be dominated by the test `id(%s) not in %s`" % (norm(st), obj, memo))
    if n < 1:
        raise MechanismMissing(R, "no keep-by-reference memo write found (Class.__deepcopy__ parent rule)")


def _conjunct_of(test, c) -> bool:
    if test is c:
        return True
    if isinstance(test, ast.BoolOp) and isinstance(test.op, ast.And):
        return any(_conjunct_of(v, c) for v in test.values)
    return False


@SPEC.rule(
    "R06.3",
    "hook hygiene: a __deepcopy__ that shadows its own hook on the instance must leave no instance-level "
    "__deepcopy__ on the copy (neither a bound method of the source nor the None shadow) and must remove/restore "
    "the shadow on the source",
)
def r06_3(ctx, rep):
    R = "R06.3"
    n = 0
    for cls, fn, selfp, memo in _deepcopy_methods(ctx, R):
        site = "%s:%s.__deepcopy__" % (AST, cls)
        shadows = False
        from_self = set()
        result_vars = set()
        for node in walk_local(fn):
            if isinstance(node, ast.Assign):
                pairs = []
                if len(node.targets) == 1 and isinstance(node.targets[0], ast.Tuple) and isinstance(node.value, ast.Tuple):
                    pairs = list(zip(node.targets[0].elts, node.value.elts))
                else:
                    pairs = [(t, node.value) for t in node.targets]
                for t, v in pairs:
                    if isinstance(t, ast.Attribute) and t.attr == "__deepcopy__" and is_name(t.value, selfp) \
                            and isinstance(v, ast.Constant) and v.value is None:
                        shadows = True
                    if isinstance(t, ast.Name) and isinstance(v, ast.Attribute) and v.attr == "__deepcopy__" and is_name(v.value, selfp):
                        from_self.add(t.id)
                    if isinstance(t, ast.Name) and isinstance(v, ast.Call) and call_name(v) in ("copy.deepcopy", "deepcopy"):
                        result_vars.add(t.id)
        if not shadows:
            continue
        n += 1
        bad_bind, removed_new, restored_self = [], set(), False
        for node in walk_local(fn):
            if isinstance(node, ast.Assign):
                if len(node.targets) == 1 and isinstance(node.targets[0], ast.Tuple) and isinstance(node.value, ast.Tuple):
                    pairs = list(zip(node.targets[0].elts, node.value.elts))
                else:
                    pairs = [(t, node.value) for t in node.targets]
                for t, v in pairs:
                    if isinstance(t, ast.Attribute) and t.attr == "__deepcopy__" and isinstance(t.value, ast.Name):
                        src_bound = (isinstance(v, ast.Name) and v.id in from_self) or (
                            isinstance(v, ast.Attribute) and v.attr == "__deepcopy__" and is_name(v.value, selfp))
                        if t.value.id in result_vars:
                            if src_bound:
                                bad_bind.append(norm(t) + " = " + norm(v))
                            elif not (isinstance(v, ast.Constant) and v.value is None):
                                removed_new.add(t.value.id)
                        elif t.value.id == selfp and not (isinstance(v, ast.Constant) and v.value is None):
                            restored_self = True
            elif isinstance(node, ast.Delete):
                for t in node.targets:
                    if isinstance(t, ast.Attribute) and t.attr == "__deepcopy__" and isinstance(t.value, ast.Name):
                        if t.value.id in result_vars:
                            removed_new.add(t.value.id)
                        elif t.value.id == selfp:
                            restored_self = True
            elif isinstance(node, ast.Call):
                cn = call_name(node) or ""
                if cn == "delattr" and len(node.args) == 2 and isinstance(node.args[1], ast.Constant) and node.args[1].value == "__deepcopy__":
                    if isinstance(node.args[0], ast.Name) and node.args[0].id in result_vars:
                        removed_new.add(node.args[0].id)
                    elif is_name(node.args[0], selfp):
                        restored_self = True
                if cn.endswith("__dict__.pop") and node.args and isinstance(node.args[0], ast.Constant) and node.args[0].value == "__deepcopy__":
                    base = node.func.value.value
                    if isinstance(base, ast.Name) and base.id in result_vars:
                        removed_new.add(base.id)
                    elif is_name(base, selfp):
                        restored_self = True
        rep.ob(R, site, "hook on the copy", not bad_bind and bool(result_vars) and removed_new == result_vars,
               "the copy must not carry an instance __deepcopy__: %s; otherwise copying the copy re-copies the ORIGINAL "
               "(bound method of the source) or deep-copies the whole parent chain (None shadow)"
               % (("bound to the source: " + "; ".join(bad_bind)) if bad_bind else "shadow not removed from the copy"))
        rep.ob(R, site, "hook on the source", restored_self, "the temporary `self.__deepcopy__ = None` shadow must be undone on the source")
    if n < 2:
        raise MechanismMissing(R, "expected 2 self-shadowing __deepcopy__ hooks (Class, ClassModificationArgument), found %d" % n)


@SPEC.rule(
    "R06.4",
    "copying API is deep: Class.copy_including_children returns copy.deepcopy(self); find_class defaults to copy=True "
    "and returns c.copy_including_children() whenever copy is truthy",
)
def r06_4(ctx, rep):
    R = "R06.4"
    fn = ctx.func(AST, "Class.copy_including_children", R)
    rets = [n for n in walk_local(fn) if isinstance(n, ast.Return)]
    ok = len(rets) == 1 and isinstance(rets[0].value, ast.Call) and call_name(rets[0].value) in ("copy.deepcopy", "deepcopy") \
        and is_name(rets[0].value.args[0], fn.args.args[0].arg)
    rep.ob(R, AST + ":Class.copy_including_children", "return copy.deepcopy(self)", ok,
           "a shallow copy would share symbols/equations with the tree being looked up")
    fc = ctx.func(AST, "Class.find_class", R)
    params = [a.arg for a in fc.args.args]
    defaults = dict(zip(params[len(params) - len(fc.args.defaults):], fc.args.defaults))
    d = defaults.get("copy")
    rep.ob(R, AST + ":Class.find_class", "default copy=True", isinstance(d, ast.Constant) and d.value is True,
           "lookups must copy by default (callers mutate what they get)")
    ok = False
    for node in walk_local(fc):
        if isinstance(node, ast.If) and is_name(node.test, "copy"):
            for st in node.body:
                if isinstance(st, ast.Assign) and isinstance(st.value, ast.Call) and isinstance(st.value.func, ast.Attribute) \
                        and st.value.func.attr in ("copy_including_children",) and isinstance(st.targets[0], ast.Name):
                    var = st.targets[0].id
                    ok = any(isinstance(r, ast.Return) and is_name(r.value, var) for r in walk_local(fc)) \
                        and is_name(st.value.func.value, var)
    rep.ob(R, AST + ":Class.find_class", "if copy: c = c.copy_including_children()", ok,
           "with copy truthy the class returned must be the deep copy of the one found")


@SPEC.rule(
    "R06.5",
    "parent maintenance: add_class sets c.parent = self, remove_class clears it, _update_parent_refs visits every "
    "nested class, Tree.extend and parser.file_to_tree refresh parent links after changing .classes",
)
def r06_5(ctx, rep):
    R = "R06.5"
    fn = ctx.func(AST, "Class.add_class", R)
    s, c = fn.args.args[0].arg, fn.args.args[1].arg
    txt = [norm(st) for st in fn.body]
    rep.ob(R, AST + ":Class.add_class", "c.parent = self", "%s.parent = %s" % (c, s) in txt and "%s.classes[%s.name] = %s" % (s, c, c) in txt,
           "an added class must be stored under its name and get this class as parent (lookups from it go through parent)")
    fn = ctx.func(AST, "Class.remove_class", R)
    s, c = fn.args.args[0].arg, fn.args.args[1].arg
    txt = [norm(st) for st in fn.body]
    rep.ob(R, AST + ":Class.remove_class", "c.parent = None", "%s.parent = None" % c in txt and "del %s.classes[%s.name]" % (s, c) in txt,
           "a removed class must be deleted from .classes and detached")
    fn = ctx.func(AST, "Tree._update_parent_refs", R)
    ok = False
    for loop in walk_local(fn):
        if isinstance(loop, ast.For) and norm(loop.iter).endswith(".classes.values()") and isinstance(loop.target, ast.Name):
            v = loop.target.id
            body = [norm(st) for st in loop.body]
            p = fn.args.args[1].arg
            ok = "%s.parent = %s" % (v, p) in body and any(b.startswith("self._update_parent_refs(%s)" % v) for b in body)
    rep.ob(R, AST + ":Tree._update_parent_refs", "recursive parent refresh", ok,
           "every nested class must get parent = its container, recursively")
    # Tree.extend: _extend then update_parent_refs
    fn = ctx.func(AST, "Tree.extend", R)
    seq = [norm(st) for st in fn.body]
    i = [k for k, t in enumerate(seq) if "._extend(" in t]
    j = [k for k, t in enumerate(seq) if "update_parent_refs()" in t]
    rep.ob(R, AST + ":Tree.extend", "update_parent_refs after _extend", bool(i and j and j[-1] > i[-1]),
           "classes moved in from the other tree still point at the other tree's nodes until parent links are refreshed")
    fn = ctx.func(PARSER, "file_to_tree", R)
    cfg = CFG(fn, R)
    upd = {n.id for n in cfg.stmts() if "update_parent_refs()" in norm(n.ast)}
    stores = [n for n in cfg.stmts() if ".classes" in norm(n.ast) and (isinstance(n.ast, ast.Assign) or ".classes.update(" in norm(n.ast))]
    bad = None
    for sn in stores:
        w = cfg.must_pass(sn.id, cfg.exit, upd)
        if w is not None:
            bad = w
    rep.ob(R, PARSER + ":file_to_tree", "update_parent_refs before return", bool(stores) and bad is None,
           "every path from a store into .classes to the return must refresh parent links",
           path=cfg.describe(bad) if bad else "")


@SPEC.rule(
    "R06.6",
    "flatten reads, never writes, the tree it is given (the ownership analysis of R05.1 evaluated for this property): an "
    "edit API call after a flatten — on the tree or on any copy of it — must find the tree as the parser left it "
    "(symbol tables keyed by the symbols' names, import tables unchanged)",
)
def r06_6(ctx, rep):
    from ..origins import analyse_flatten

    R = "R06.6"
    res = analyse_flatten(ctx, R)
    for f in res.findings:
        rep.ob(R, f["site"], f["key"], f["ok"], f["msg"], path=f.get("path", ""))
    rep.require_instances(R, 2, "ownership sources")


def kept_by_reference(ctx, rep, R):
    """Everything a __deepcopy__ hook of ast.py puts into the memo before copying (memo[id(X)] = X, memo.setdefault(id(X), X),
    memo.update({id(X): X})) is shared between the copy and the original.  The only object that may be: the parent link of a
    Class (and through it the enclosing tree).  Any other pre-seeded object (a clause list, a symbol table) makes every copy
    — the ones flatten works on included — alias that part of the caller's tree."""
    n = 0
    for cls, fn, selfp, memo in _deepcopy_methods(ctx, R):
        site = "%s:%s.__deepcopy__" % (AST, cls)
        for node in ast.walk(fn):
            kept = []
            if isinstance(node, ast.Assign) and isinstance(node.targets[0], ast.Subscript) and is_name(node.targets[0].value, memo) and _is_id_key(node.targets[0].slice):
                kept.append(node.targets[0].slice.args[0])
            elif isinstance(node, ast.Call) and isinstance(node.func, ast.Attribute) and is_name(node.func.value, memo) and node.func.attr in ("setdefault", "__setitem__") \
                    and node.args and _is_id_key(node.args[0]):
                kept.append(node.args[0].args[0])
            elif isinstance(node, ast.Call) and isinstance(node.func, ast.Attribute) and is_name(node.func.value, memo) and node.func.attr == "update":
                for x in ast.walk(node):
                    if _is_id_key(x):
                        kept.append(x.args[0])
            for obj in kept:
                n += 1
                # a local that stands for the parent link (`parent = self.parent`) is the parent link
                from ..pyutil import inlined
                obj = inlined(obj, fn.body)
                rep.ob(R, site, "kept by reference: %s" % norm(obj), norm(obj) == "%s.parent" % selfp,
                       "`%s` is put into the deepcopy memo, so every copy of a %s shares it with the original: what flatten (or an edit) does to "
                       "the copy's %s happens to the caller's tree too — only the parent link may be kept by reference" % (norm(obj), cls, norm(obj).split(".")[-1]))
    if n < 1:
        raise MechanismMissing(R, "no keep-by-reference memo entry found (Class.__deepcopy__ keeps its parent)")


@SPEC.rule(
    "R06.7",
    "a deep copy shares nothing but the parent link: the only object a __deepcopy__ hook pre-seeds in the memo is self.parent",
)
def r06_7(ctx, rep):
    kept_by_reference(ctx, rep, "R06.7")


@SPEC.rule(
    "R06.8",
    "the private copy is made per request: no function of a generator module is wrapped in a caching decorator or writes a "
    "module-level container — a memoised copy helper hands the second request the tree the first one already flattened in place",
)
def r06_8(ctx, rep):
    from .c05 import BACKEND_GENERATORS
    from .c25 import module_state_free
    for rel in BACKEND_GENERATORS:
        module_state_free(ctx, rep, "R06.8", rel, "the generator module (generate() and every helper it may call)")


@SPEC.rule(
    "R06.9",
    "lookups remember nothing: no function of ast.py or tree.py writes a module-level or class-level container or is wrapped in a "
    "caching decorator — a memo of what _find_class found by walking up the parents keeps answering with the class that was there "
    "before add_class / remove_class replaced it (also in copies of copies)",
)
def r06_9(ctx, rep):
    from .c25 import module_state_free
    module_state_free(ctx, rep, "R06.9", "src/pymoca/ast.py", "the class and symbol lookups")
    module_state_free(ctx, rep, "R06.9", "src/pymoca/tree.py", "the flattening passes")


@SPEC.rule(
    "R06.10",
    "the backends work on a copy, not on pieces: generate() / flatten_class() / translate() hand the caller's tree — and anything taken out "
    "of it (its classes, their symbols) — only to flatten() and copy.deepcopy(); adopting the caller's classes into a private root re-parents "
    "them, and every later deepcopy of the caller's tree then resolves names through that foreign root",
)
def r06_10(ctx, rep):
    from ..engine import run_as
    from .c05 import r05_3
    run_as(r05_3, "R06.10", ctx, rep)


@SPEC.rule(
    "R06.11",
    "the parent refresh after a merge reaches every class (R27.3 evaluated for this property): a class that keeps the parent link it had in "
    "another tree is shared, through that link, by every deep copy — copies then resolve sibling classes in the original",
)
def r06_11(ctx, rep):
    from ..engine import run_as
    from .c27 import r27_3
    run_as(r27_3, "R06.11", ctx, rep)


MUTATORS = ("pop", "popitem", "append", "extend", "insert", "remove", "discard", "add", "update", "clear", "setdefault", "move_to_end", "sort", "reverse")


@SPEC.rule(
    "R06.12",
    "an edit changes the tree it is made on and nothing else: the editing methods of ast.Class (add_*/remove_*) write into containers of "
    "`self` only; of their argument they set the `parent` link and nothing more, and they reach no other node through it (a detached deep "
    "copy still carries the parent link of the class it was copied from: an edit that `moves` it first deletes from the original tree)",
)
def r06_12(ctx, rep):
    R = "R06.12"
    ms = ctx.methods(AST, "Class", R)
    n = 0

    def root(e):
        while isinstance(e, (ast.Attribute, ast.Subscript, ast.Call)):
            e = e.func if isinstance(e, ast.Call) else e.value
        return e.id if isinstance(e, ast.Name) else None

    for name, fn in sorted(ms.items()):
        if not name.startswith(("add_", "remove_")):
            continue
        n += 1
        site = AST + ":Class." + name
        params = {a.arg for a in fn.args.args[1:]}
        slf = fn.args.args[0].arg
        foreign = []
        for x in ast.walk(fn):
            tgt = None
            if isinstance(x, (ast.Assign, ast.AugAssign, ast.Delete)):
                for t in (x.targets if not isinstance(x, ast.AugAssign) else [x.target]):
                    if isinstance(t, ast.Subscript) and root(t) != slf:
                        tgt = t
                    if isinstance(t, ast.Attribute) and root(t) != slf and not (isinstance(t.value, ast.Name) and t.value.id in params and t.attr == "parent"):
                        tgt = t
            if isinstance(x, ast.Call) and isinstance(x.func, ast.Attribute) and x.func.attr in MUTATORS and root(x.func.value) in params:
                tgt = x
            if tgt is not None:
                foreign.append("line %d: %s" % (x.lineno, norm(tgt)[:60]))
        rep.ob(R, site, "writes only into self (and the argument's parent link)", not foreign,
               "%s — the method edits a node other than the one it was called on" % "; ".join(foreign[:3]))
    if n < 6:
        raise MechanismMissing(R, "fewer than 6 add_*/remove_* methods found on ast.Class")


@SPEC.rule(
    "R06.13",
    "nodes are adopted or deep-copied, never cloned flat: outside the copy hooks themselves (`__deepcopy__` / `__copy__`) ast.py and tree.py do "
    "not call copy.copy() — a shallow copy of a node shares every child list with the original and carries the per-instance `__deepcopy__` "
    "shadow an earlier deep copy may have left on it, so a later deepcopy of the clone copies the wrong node",
)
def r06_13(ctx, rep):
    R = "R06.13"
    n = 0
    for rel in (AST, TREE_PY):
        mod = ctx.module(rel, R)
        hits = []
        for fn in [f for f in ast.walk(mod) if isinstance(f, ast.FunctionDef)]:
            n += 1
            if fn.name in ("__deepcopy__", "__copy__"):
                continue
            for c in calls(fn):
                if call_name(c) in ("copy.copy", "copy") and c.args and not (call_name(c) == "copy" and not any(
                        isinstance(i, ast.ImportFrom) and i.module == "copy" and any(a.name == "copy" for a in i.names) for i in mod.body)):
                    hits.append("%s line %d: %s" % (fn.name, c.lineno, norm(c)[:50]))
        rep.ob(R, rel, "no shallow copy of a node", not hits, "; ".join(hits[:3]))
    if n < 40:
        raise MechanismMissing(R, "fewer than 40 functions scanned in ast.py / tree.py")


@SPEC.rule(
    "R06.14",
    "a copy hook only adds to the memo: no __deepcopy__ in ast.py removes an entry from the memo it was handed (pop / del / clear) — the entry "
    "for the parent may be the one copy.deepcopy itself made when the whole tree is being copied, and without it the next sibling is given "
    "the original tree's package as its parent",
)
def r06_14(ctx, rep):
    R = "R06.14"
    mod = ctx.module(AST, R)
    hooks = [f for f in ast.walk(mod) if isinstance(f, ast.FunctionDef) and f.name == "__deepcopy__"]
    if len(hooks) < 2:
        raise MechanismMissing(R, "fewer than 2 __deepcopy__ hooks found in ast.py")
    for h in hooks:
        memo = h.args.args[1].arg if len(h.args.args) > 1 else "memo"
        bad = ["line %d: %s" % (c.lineno, norm(c)[:50]) for c in calls(h) if isinstance(c.func, ast.Attribute) and is_name(c.func.value, memo)
               and c.func.attr in ("pop", "popitem", "clear")]
        bad += ["line %d: %s" % (d.lineno, norm(d)[:50]) for d in ast.walk(h) if isinstance(d, ast.Delete) and any(
            isinstance(t, ast.Subscript) and is_name(t.value, memo) for t in d.targets)]
        cls = getattr(h, "_parent", None)
        rep.ob(R, AST + ":%s.__deepcopy__" % (cls.name if isinstance(cls, ast.ClassDef) else "?"), "the memo is only added to", not bad, "; ".join(bad[:2]))


# -- seeded variants ---------------------------------------------------------
from ._mut import delete_stmt_where, find_def, replace_in_func  # noqa: E402


@SPEC.mutant("memo tested with the object", AST, "R06.1", "Class.__deepcopy__", needs_fixed=True)
def _m_memo(mod):
    def edit(fn):
        for n in ast.walk(fn):
            if isinstance(n, ast.Compare) and isinstance(n.ops[0], ast.NotIn) and _is_id_key(n.left):
                n.left = n.left.args[0]
                return True
        return False

    return mod if replace_in_func(mod, "Class.__deepcopy__", edit) else None


@SPEC.mutant("unguarded parent memo", AST, "R06.2", "write", needs_fixed=True)
def _m_unguard(mod):
    def edit(fn):
        for i, st in enumerate(fn.body):
            if isinstance(st, ast.If) and "memo" in norm(st.test):
                fn.body[i] = ast.If(test=ast.parse("self.parent is not None", mode="eval").body, body=st.body, orelse=[])
                return True
        return False

    return mod if replace_in_func(mod, "Class.__deepcopy__", edit) else None


@SPEC.mutant("hook re-bound from source", AST, "R06.3", "hook on the copy", needs_fixed=True)
def _m_hook(mod):
    def edit(fn):
        for i, st in enumerate(fn.body):
            if isinstance(st, ast.Return):
                fn.body.insert(i, ast.parse("new.__deepcopy__ = self.__deepcopy__").body[0])
                return True
        return False

    return mod if replace_in_func(mod, "Class.__deepcopy__", edit) else None


@SPEC.mutant("shallow copy_including_children", AST, "R06.4", "copy_including_children")
def _m_shallow(mod):
    def edit(fn):
        for n in ast.walk(fn):
            if isinstance(n, ast.Attribute) and n.attr == "deepcopy":
                n.attr = "copy"
                return True
        return False

    return mod if replace_in_func(mod, "Class.copy_including_children", edit) else None


@SPEC.mutant("add_class without parent", AST, "R06.5", "add_class")
def _m_parent(mod):
    return mod if delete_stmt_where(mod, "Class.add_class", lambda st: norm(st) == "c.parent = self") else None


@SPEC.mutant("extend without parent refresh", AST, "R06.5", "Tree.extend")
def _m_extend(mod):
    return mod if delete_stmt_where(mod, "Tree.extend", lambda st: "update_parent_refs" in norm(st)) else None


@SPEC.mutant("extends clauses kept by reference", AST, "R06.7", "kept by reference")
def _m_keep_extends(mod):
    def edit(fn):
        for i, st in enumerate(fn.body):
            if isinstance(st, ast.If) and "self.parent" in norm(st.test) and "memo" in norm(st.test):
                fn.body.insert(i + 1, ast.parse("memo.setdefault(id(self.extends), self.extends)").body[0])
                return True
        return False

    return mod if replace_in_func(mod, "Class.__deepcopy__", edit) else None


@SPEC.mutant("add_class moves the class out of its old parent", AST, "R06.12", "Class.add_class")
def _m_add_moves(mod):
    def edit(fn):
        c = fn.args.args[1].arg
        fn.body.insert(len(fn.body) - 2, ast.parse("if %s.parent is not None and %s.parent is not self:\n    %s.parent.classes.pop(%s.name, None)" % (c, c, c, c)).body[0])
        return True

    return mod if replace_in_func(mod, "Class.add_class", edit) else None


@SPEC.mutant("placeholder merge works on a shallow copy", AST, "R06.13", "no shallow copy")
def _m_shallow_merge(mod):
    def edit(fn):
        for st in ast.walk(fn):
            if isinstance(st, ast.Assign) and isinstance(st.targets[0], ast.Subscript) and norm(st.targets[0].value) == "self.classes" \
                    and isinstance(st.value, ast.Subscript) and norm(st.value.value) == "other.classes":
                st.value = ast.parse("copy.copy(%s)" % norm(st.value), mode="eval").body
                return True
        return False

    return mod if replace_in_func(mod, "Class._extend", edit) else None
