"""C04 — parsed class structure reflects the source declarations."""
from __future__ import annotations

import ast

from .. import genparser
from ..cfg import CFG
from ..engine import AnalysisError, MechanismMissing, PropertySpec, norm
from ..grammar import contexts as g_contexts, ctx_name, parse_grammar
from ..pyutil import call_name, calls, const_str, dotted, is_name, walk_local
from ._listener import listener_symmetry

PARSER = "src/pymoca/parser.py"
G4 = "src/pymoca/Modelica.g4"
L = "ASTListener"

SPEC = PropertySpec(
    "C04",
    "Parsed class structure reflects the source declarations",
    decided=(
        "agreement between grammar, generated parser and listener: every ctx accessor used by a handler exists on "
        "the generated context class (type-resolved through chained accessors); single-valued labels inside a "
        "repetition are not read as if unique; every context whose AST is consumed has a producing handler; "
        "per-declarator un-aliasing of shared prefixes/type/dimensions; declaration-order counter pairing; "
        "duplicate-declaration guard; initial/non-initial section routing; listener state symmetry."
    ),
    not_decided="that the values of dimension/modification expressions match the text; comments' content.",
)
SPEC.assumptions += ["the generated parser under src/pymoca/generated is what runs (not Modelica.g4)"]


def _facts(ctx, R):
    if "c04" in ctx.cache:
        return ctx.cache["c04"]
    gp = genparser.get(ctx, R)
    rules = parse_grammar(ctx.read(G4, R))
    gctx = g_contexts(rules)
    ms = ctx.methods(PARSER, L, R)
    try:
        from antlr4 import ParserRuleContext

        generic = set(dir(ParserRuleContext))
    except Exception:  # noqa: BLE001
        generic = {"getText", "getChild", "getChildCount", "getChildren", "children", "start", "stop", "parentCtx",
                   "getAltNumber", "getTokens", "getToken", "getTypedRuleContext", "getTypedRuleContexts", "exception"}
    ctx.cache["c04"] = (gp, rules, gctx, ms, generic)
    return ctx.cache["c04"]


def _handler_ctx(name: str):
    for pre in ("enter", "exit"):
        if name.startswith(pre) and len(name) > len(pre) and name[len(pre)].isupper():
            return name[len(pre):] + "Context"
    return None


class _Infer:
    """Mini type inference over a handler body: which generated context class
    does an expression denote?  Types: ('ctx', C) | ('list', C) | ('tok',) | ('toks',) | None."""

    def __init__(self, gp, gctx, generic, rep, rule, site, hctx):
        self.gp, self.gctx, self.generic = gp, gctx, generic
        self.rep, self.rule, self.site = rep, rule, site
        self.env = {"ctx": ("ctx", hctx)}
        self.uses = 0
        self.unresolved = 0
        self.seen = set()

    def label_type(self, cname, name):
        c = cname
        seen = set()
        while c in self.gctx and c not in seen:
            seen.add(c)
            labs = self.gctx[c]["labels"].get(name)
            if labs:
                li = labs[0]
                if li.target == "TOKEN":
                    return ("tok",) if li.op == "=" else ("toks",)
                return ("ctx" if li.op == "=" else "list", ctx_name(li.target))
            c = self.gctx[c]["base"]
        return None

    def member(self, base_t, name, node, is_call, nargs):
        cname = base_t[1]
        key = "ctx.%s on %s" % (name, cname)
        m = self.gp.member(cname, name)
        self.uses += 1
        if m is None and name not in self.generic:
            # a rule with labelled alternatives: the object is one of the alternative contexts
            alts = [c for c, f in self.gp.contexts.items() if f["base"] == cname]
            have = [c for c in alts if self.gp.member(c, name) is not None]
            lack = [c for c in alts if c not in have and c not in UNSUPPORTED]
            if have and not lack:
                m = self.gp.member(have[0], name)
        if m is None:
            if name in self.generic:
                return None
            if key not in self.seen:
                self.seen.add(key)
                self.rep.ob(self.rule, self.site, key, False,
                            "%s has no accessor/attribute %r (has: %s)" % (cname, name, sorted(self.gp.contexts.get(cname, {}).get("methods", {}))[:8]))
            return None
        if key not in self.seen:
            self.seen.add(key)
            self.rep.ob(self.rule, self.site, key, True, "resolved on %s" % m["where"])
        if m["is_method"]:
            if not is_call:
                return None
            if m["kind"] == "rule":
                if m["indexed"] and nargs == 0:
                    return ("list", m["target"])
                return ("ctx", m["target"])
            if m["kind"] == "token":
                return ("toks",) if (m["indexed"] and nargs == 0) else ("tok",)
            return None
        return self.label_type(cname, name)

    def infer(self, node):
        if isinstance(node, ast.Name):
            return self.env.get(node.id)
        if isinstance(node, ast.Call) and isinstance(node.func, ast.Attribute):
            bt = self.infer(node.func.value)
            if bt and bt[0] == "ctx":
                return self.member(bt, node.func.attr, node, True, len(node.args))
            return None
        if isinstance(node, ast.Attribute):
            bt = self.infer(node.value)
            if bt and bt[0] == "ctx":
                return self.member(bt, node.attr, node, False, 0)
            return None
        if isinstance(node, ast.Subscript):
            bt = self.infer(node.value)
            if bt and bt[0] == "list":
                if isinstance(node.slice, ast.Slice):
                    return bt
                return ("ctx", bt[1])
            return None
        if isinstance(node, ast.Call) and isinstance(node.func, ast.Name) and node.func.id in ("reversed", "list", "sorted") and node.args:
            return self.infer(node.args[0])
        return None

    def run(self, fn):
        # bind loop / comprehension variables first (source order is enough here)
        for n in walk_local(fn):
            if isinstance(n, ast.comprehension) and isinstance(n.target, ast.Name):
                t = self.infer(n.iter)
                if t and t[0] == "list":
                    self.env[n.target.id] = ("ctx", t[1])
                elif isinstance(n.iter, ast.ListComp):
                    pass
            elif isinstance(n, ast.For) and isinstance(n.target, ast.Name):
                t = self.infer(n.iter)
                if t and t[0] == "list":
                    self.env[n.target.id] = ("ctx", t[1])
            elif isinstance(n, ast.Assign) and len(n.targets) == 1 and isinstance(n.targets[0], ast.Name):
                t = self.infer(n.value)
                if t:
                    self.env[n.targets[0].id] = t
        for n in walk_local(fn):
            if isinstance(n, (ast.Attribute, ast.Call)):
                self.infer(n)


@SPEC.rule(
    "R04.1",
    "accessor existence: every ctx.<name> used in an enter/exit handler (also through chained accessors, loop and "
    "comprehension variables) is an accessor or label of the generated <Rule>Context (own or inherited) or a "
    "ParserRuleContext member; every handler names an existing production",
)
def r04_1(ctx, rep):
    R = "R04.1"
    gp, rules, gctx, ms, generic = _facts(ctx, R)
    total = 0
    for name, fn in sorted(ms.items()):
        hc = _handler_ctx(name)
        if hc is None:
            continue
        site = "%s:%s.%s" % (PARSER, L, name)
        if hc not in gp.contexts:
            rep.ob(R, site, "handler production", False,
                   "no generated context class %s: this handler is never called, the construct produces no AST" % hc)
            continue
        inf = _Infer(gp, gctx, generic, rep, R, site, hc)
        inf.run(fn)
        total += inf.uses
    rep.extra["R04.1_accessor_uses_resolved"] = total
    rep.require_instances(R, 120, "ctx accessor uses")


@SPEC.rule(
    "R04.2",
    "label multiplicity: a single-valued grammar label (x=elem) that sits inside a repetition keeps only its last "
    "match, so no handler may read it; the visibility assigned under a label agrees with the keyword preceding it",
)
def r04_2(ctx, rep):
    R = "R04.2"
    gp, rules, gctx, ms, generic = _facts(ctx, R)
    n = 0
    vis_want = {"public": "PUBLIC", "protected": "PROTECTED"}
    for name, fn in sorted(ms.items()):
        hc = _handler_ctx(name)
        if hc is None or hc not in gctx:
            continue
        site = "%s:%s.%s" % (PARSER, L, name)
        labels = gctx[hc]["labels"]
        read = {}
        for a in walk_local(fn):
            if isinstance(a, ast.Attribute) and is_name(a.value, "ctx") and a.attr in labels:
                read.setdefault(a.attr, a)
        for lab in sorted(read):
            infos = labels[lab]
            lossy = [li for li in infos if li.op == "=" and li.in_repetition]
            multi = len(infos) > 1 and any(li.op == "=" for li in infos)
            n += 1
            rep.ob(R, site, "label:" + lab, not lossy and not multi,
                   "label `%s=` is matched inside a ( ... )* repetition: only the last section is kept, earlier "
                   "ones are silently skipped by this handler" % lab)
        # visibility table
        for node in walk_local(fn):
            if isinstance(node, ast.If):
                labs = [a.attr for a in ast.walk(node.test) if isinstance(a, ast.Attribute) and is_name(a.value, "ctx") and a.attr in labels]
                if len(labs) != 1:
                    continue
                kw = labels[labs[0]][0].preceded_by
                if kw not in vis_want:
                    continue
                assigned = set()
                for st in ast.walk(ast.Module(body=node.body, type_ignores=[])):
                    if isinstance(st, ast.Assign) and isinstance(st.targets[0], ast.Attribute) and st.targets[0].attr == "visibility":
                        d = dotted(st.value) or ""
                        assigned.add(d.split(".")[-1])
                if assigned:
                    n += 1
                    rep.ob(R, site, "visibility under " + labs[0], assigned == {vis_want[kw]},
                           "elements after keyword `%s` must get Visibility.%s, handler assigns %s" % (kw, vis_want[kw], sorted(assigned)))
    # keyword-driven shape (a handler that walks ctx.children): keyword text -> member
    fn = ms.get("exitComposition")
    if fn is not None:
        site = "%s:%s.exitComposition" % (PARSER, L)
        for node in walk_local(fn):
            if isinstance(node, ast.Dict):
                pairs = {}
                for k, v in zip(node.keys, node.values):
                    if isinstance(k, ast.Constant) and k.value in vis_want and dotted(v):
                        pairs[k.value] = dotted(v).split(".")[-1]
                if pairs:
                    n += 1
                    rep.ob(R, site, "visibility table", pairs == {k: vis_want[k] for k in pairs},
                           "keyword -> Visibility table %s must be %s" % (pairs, vis_want))
            if isinstance(node, ast.If) and isinstance(node.test, ast.Compare) and len(node.test.comparators) == 1:
                c = node.test.comparators[0]
                if isinstance(c, ast.Constant) and c.value in vis_want and isinstance(node.test.ops[0], ast.Eq):
                    assigned = set()
                    for st in ast.walk(ast.Module(body=node.body, type_ignores=[])):
                        if isinstance(st, ast.Assign):
                            d = dotted(st.value) or ""
                            if d.startswith("ast.Visibility.") or d.startswith("Visibility."):
                                assigned.add(d.split(".")[-1])
                    if assigned:
                        n += 1
                        rep.ob(R, site, "visibility for keyword " + c.value, assigned == {vis_want[c.value]},
                               "after keyword `%s` the handler selects %s" % (c.value, sorted(assigned)))
    if n < 3:
        raise MechanismMissing(R, "fewer than 3 label/visibility instances found")


# productions that have no handler today: the construct is not supported by pymoca at all
# (reading one raises KeyError in the consumer: rejection, not silent loss)
UNSUPPORTED = {
    "Class_spec_enumContext": "enumerations are not supported",
    "Class_spec_derContext": "der-class specifier not supported",
    "Class_spec_extendsContext": "class extends not supported",
    "Statement_breakContext": "break not supported",
    "Statement_returnContext": "return not supported",
    "Statement_whileContext": "while not supported",
    "Primary_initialContext": "initial() not supported",
    "Primary_expression_listContext": "[a, b; c, d] matrix constructor not supported",
    "Primary_endContext": "`end` in subscripts not supported",
    "Argument_functionContext": "function partial application not supported",
}


@SPEC.rule(
    "R04.3",
    "producer/consumer agreement: whenever a handler reads self.ast[<expression of context type X>], every "
    "alternative of X has an enter/exit handler that stores self.ast[ctx] (or is in the explicit unsupported "
    "table); a deleted or misnamed handler would silently drop the construct or raise KeyError",
)
def r04_3(ctx, rep):
    R = "R04.3"
    gp, rules, gctx, ms, generic = _facts(ctx, R)
    producers = set()
    for name, fn in ms.items():
        hc = _handler_ctx(name)
        if hc is None:
            continue
        for n in walk_local(fn):
            if isinstance(n, ast.Assign):
                for t in n.targets:
                    if isinstance(t, ast.Subscript) and dotted(t.value) == "self.ast" and is_name(t.slice, "ctx"):
                        producers.add(hc)
    # alternatives per base context
    alts_of = {}
    for cname, c in gp.contexts.items():
        if c["base"] in gp.contexts:
            alts_of.setdefault(c["base"], []).append(cname)
    consumed = {}
    for name, fn in sorted(ms.items()):
        hc = _handler_ctx(name)
        if hc is None or hc not in gp.contexts:
            continue
        site = "%s:%s.%s" % (PARSER, L, name)

        class _Quiet:
            def ob(self, *a, **k):
                return True

        inf = _Infer(gp, gctx, generic, _Quiet(), R, site, hc)
        inf.run(fn)
        for n in walk_local(fn):
            if isinstance(n, ast.Subscript) and dotted(n.value) == "self.ast" and isinstance(n.ctx, ast.Load):
                if is_name(n.slice, "ctx"):
                    continue
                t = inf.infer(n.slice)
                if t and t[0] == "ctx":
                    consumed.setdefault(t[1], []).append(site)
    for cname in sorted(consumed):
        need = alts_of.get(cname, [cname])
        missing = [a for a in need if a not in producers and a not in UNSUPPORTED]
        # a rule-level handler also produces for all alternatives
        if cname in producers:
            missing = []
        rep.ob(R, consumed[cname][0], "consumes " + cname, not missing,
               "self.ast[...] of type %s is read but no handler stores self.ast[ctx] for %s" % (cname, missing))
    rep.extra["R04.3_producers"] = len(producers)
    rep.require_instances(R, 30, "consumed context types")


@SPEC.rule(
    "R04.4",
    "per-declarator un-aliasing: every mutable object that enterDeclaration copies by reference from the component "
    "clause into the symbol (prefixes, type, dimensions) is re-bound to a copy for symbol_list[1:] in both "
    "exitComponent_clause and exitComponent_clause1",
)
def r04_4(ctx, rep):
    R = "R04.4"
    gp, rules, gctx, ms, generic = _facts(ctx, R)
    fn = ms.get("enterDeclaration")
    if fn is None:
        raise MechanismMissing(R, "enterDeclaration not found")
    # local aliases of self.comp_clause.<attr> (explanatory temporaries such as `clause = self.comp_clause` are resolved first)
    from ..pyutil import inline_simple_locals
    fn = inline_simple_locals(fn)
    alias = {}
    shared = set()
    for n in walk_local(fn):
        if isinstance(n, ast.Assign) and len(n.targets) == 1:
            t, v = n.targets[0], n.value
            src = None
            if isinstance(v, ast.Attribute) and dotted(v.value) == "self.comp_clause":
                src = v.attr
            elif isinstance(v, ast.Name) and v.id in alias:
                src = alias[v.id]
            if src is None:
                continue
            if isinstance(t, ast.Name):
                alias[t.id] = src
            elif isinstance(t, ast.Attribute) and isinstance(t.value, (ast.Name, ast.Attribute)):
                shared.add(t.attr)
    if len(shared) < 3:
        raise MechanismMissing(R, "expected >=3 fields shared by reference in enterDeclaration, found %s" % sorted(shared))
    COPIERS = {"list", "copy.deepcopy", "copy.copy", "deepcopy", "dict", "tuple"}
    # fields that a declarator may set for itself after enterDeclaration (e.g. its own array subscripts):
    # their copy must be taken from the symbol, not from the clause
    per_symbol = set()
    xd = ms.get("exitDeclaration")
    if xd is not None:
        for n in walk_local(inline_simple_locals(xd)):
            if isinstance(n, ast.Assign) and isinstance(n.targets[0], ast.Attribute) and isinstance(n.targets[0].value, (ast.Name, ast.Attribute)):
                per_symbol.add(n.targets[0].attr)
    for hname in ("exitComponent_clause", "exitComponent_clause1"):
        h = ms.get(hname)
        site = "%s:%s.%s" % (PARSER, L, hname)
        if h is None:
            rep.ob(R, site, "handler", False, "handler missing")
            continue
        rebound = {}
        for loop in walk_local(h):
            if isinstance(loop, ast.For) and isinstance(loop.iter, ast.Subscript) and "symbol_list" in norm(loop.iter.value):
                sl = loop.iter.slice
                if not (isinstance(sl, ast.Slice) and isinstance(sl.lower, ast.Constant) and sl.lower.value == 1 and sl.upper is None):
                    continue
                for st in ast.walk(loop):
                    if isinstance(st, ast.Assign) and isinstance(st.targets[0], ast.Attribute):
                        v = st.value
                        src = None
                        if isinstance(v, ast.Call) and (call_name(v) in COPIERS) and v.args:
                            src = v.args[0]
                        elif isinstance(v, ast.Subscript) and isinstance(v.slice, ast.Slice) and v.slice.lower is None and v.slice.upper is None:
                            src = v.value
                        if src is not None:
                            rebound[st.targets[0].attr] = (norm(st.targets[0].value), norm(src), src)
        for f in sorted(shared):
            ok = f in rebound
            why = "not re-bound to a copy"
            if ok:
                owner, src, src_node = rebound[f]
                own_copy = src == "%s.%s" % (owner, f)
                # the clause object: a local bound to self.ast[<ctx parameter>], or self.comp_clause
                ctxp = h.args.args[1].arg if len(h.args.args) > 1 else "ctx"
                clause_vars = {a.targets[0].id for a in walk_local(h) if isinstance(a, ast.Assign) and isinstance(a.targets[0], ast.Name)
                               and norm(a.value) == "self.ast[%s]" % ctxp}
                clause_copy = isinstance(src_node, ast.Attribute) and src_node.attr == f and (
                    (isinstance(src_node.value, ast.Name) and src_node.value.id in clause_vars) or dotted(src_node.value) == "self.comp_clause")
                ok = own_copy or (clause_copy and f not in per_symbol)
                why = "copied from `%s`, but a declarator can carry its own `%s` (set in exitDeclaration): the copy must be of %s.%s" % (src, f, owner, f)
            rep.ob(R, site, "field " + f, ok,
                   "`%s` is shared by all declarators of one clause (enterDeclaration binds the clause's object); the 2nd..nth symbol "
                   "must get its own copy OF ITS OWN VALUE — %s" % (f, why))


@SPEC.rule(
    "R04.5",
    "declaration-order counter: every ast.Symbol(order=self.sym_count) is followed in the same block by "
    "self.sym_count += 1, and nothing else writes sym_count",
)
def r04_5(ctx, rep):
    R = "R04.5"
    gp, rules, gctx, ms, generic = _facts(ctx, R)
    n = 0
    for name, fn in sorted(ms.items()):
        site = "%s:%s.%s" % (PARSER, L, name)
        for node in walk_local(fn):
            for fld in ("body", "orelse"):
                block = getattr(node, fld, None)
                if not isinstance(block, list):
                    continue
                for i, st in enumerate(block):
                    creates = [c for c in calls(st) if (call_name(c) or "").endswith("Symbol")
                               and any(k.arg == "order" and dotted(k.value) == "self.sym_count" for k in c.keywords)] \
                        if not isinstance(st, (ast.If, ast.For, ast.While, ast.Try, ast.With)) else []
                    if not creates:
                        continue
                    n += 1
                    nxt = block[i + 1: i + 3]
                    ok = any(isinstance(s, ast.AugAssign) and dotted(s.target) == "self.sym_count" and isinstance(s.op, ast.Add)
                             and isinstance(s.value, ast.Constant) and s.value.value == 1 for s in nxt)
                    rep.ob(R, site, "Symbol(order=self.sym_count)#%d" % n, ok,
                           "the counter must be incremented right after it is used, else two symbols share an order value")
        if name == "__init__":
            continue
        for node in walk_local(fn):
            if isinstance(node, ast.Assign) and any(dotted(t) == "self.sym_count" for t in node.targets):
                rep.ob(R, site, "write:" + norm(node), False, "sym_count must only be incremented, never re-assigned")
            if isinstance(node, ast.AugAssign) and dotted(node.target) == "self.sym_count":
                ok = isinstance(node.op, ast.Add) and isinstance(node.value, ast.Constant) and node.value.value == 1
                if not ok:
                    rep.ob(R, site, "write:" + norm(node), False, "sym_count must only be incremented by 1")
    rep.require_instances(R, 3, "Symbol creation sites")


@SPEC.rule(
    "R04.6",
    "duplicate guard: every store into class_node.symbols[<key>] in the listener is dominated by the false branch "
    "of `<key> in class_node.symbols` whose true branch raises",
)
def r04_6(ctx, rep):
    R = "R04.6"
    gp, rules, gctx, ms, generic = _facts(ctx, R)
    n = 0
    for name, fn in sorted(ms.items()):
        stores = []
        for node in walk_local(fn):
            if isinstance(node, ast.Assign):
                for t in node.targets:
                    if isinstance(t, ast.Subscript) and (dotted(t.value) or "").endswith("class_node.symbols"):
                        stores.append((node, t))
        if not stores:
            continue
        cfg = CFG(fn, R)
        site = "%s:%s.%s" % (PARSER, L, name)
        for st, tgt in stores:
            n += 1
            key = norm(tgt.slice)
            node = [x for x in cfg.nodes if x.kind == "stmt" and x.ast is st][0]

            def is_guard(x):
                if x.kind != "assume" or x.taken:
                    return False
                t = x.ast
                return (isinstance(t, ast.Compare) and len(t.ops) == 1 and isinstance(t.ops[0], ast.In)
                        and norm(t.left) == key and norm(t.comparators[0]) == norm(tgt.value))

            guards = cfg.dominated_by(node.id, is_guard)
            ok = False
            for g in guards:
                # the true branch must only raise
                tnode = [p for p in cfg.pred[g.id]][0]
                tbranch = [s for s in cfg.succ[tnode] if cfg.nodes[s].kind == "assume" and cfg.nodes[s].taken]
                if tbranch and cfg.exit not in cfg.reachable(tbranch[0]):
                    ok = True
            rep.ob(R, site, "store:" + norm(tgt), ok,
                   "a second declaration of the same name must be rejected: the store must be dominated by "
                   "`if %s in %s: raise`" % (key, norm(tgt.value)))
    rep.require_instances(R, 1, "stores into class_node.symbols")


@SPEC.rule(
    "R04.7",
    "section routing: EquationSection/AlgorithmSection.initial is `ctx.INITIAL() is not None`; in exitComposition "
    "the initial branch appends to initial_equations/initial_statements, the other to equations/statements, in "
    "source order of ctx.equation_section()/algorithm_section()",
)
def r04_7(ctx, rep):
    R = "R04.7"
    gp, rules, gctx, ms, generic = _facts(ctx, R)
    for hname, cls in (("enterEquation_section", "EquationSection"), ("enterAlgorithm_section", "AlgorithmSection")):
        fn = ms.get(hname)
        site = "%s:%s.%s" % (PARSER, L, hname)
        ok = False
        if fn is not None:
            for c in calls(fn):
                if (call_name(c) or "").endswith(cls):
                    for k in c.keywords:
                        if k.arg == "initial" and norm(k.value) == "ctx.INITIAL() is not None":
                            ok = True
        rep.ob(R, site, cls + "(initial=)", ok, "the section's initial flag must be `ctx.INITIAL() is not None`")
    fn = ms.get("exitComposition")
    if fn is None:
        raise MechanismMissing(R, "exitComposition not found")
    site = "%s:%s.exitComposition" % (PARSER, L)
    found = 0
    for loop in walk_local(fn):
        if not isinstance(loop, ast.For):
            continue
        it = norm(loop.iter)
        which = None
        if "ctx.equation_section()" in it:
            which = ("equations", "initial_equations")
        elif "ctx.algorithm_section()" in it:
            which = ("statements", "initial_statements")
        if which is None:
            continue
        order_ok = not any(f in it for f in ("reversed(", "sorted(", "[::-1]"))
        rep.ob(R, site, "order of " + which[0], order_ok, "sections must be appended in source order")
        for node in ast.walk(loop):
            if isinstance(node, ast.If) and isinstance(node.test, ast.Attribute) and node.test.attr == "initial":
                def targets(block):
                    out = []
                    for st in block:
                        for x in ast.walk(st):
                            if isinstance(x, ast.AugAssign) and isinstance(x.op, ast.Add) and isinstance(x.target, ast.Attribute):
                                out.append((x.target.attr, norm(x.value).split(".")[-1]))
                            elif isinstance(x, ast.Call) and isinstance(x.func, ast.Attribute) and x.func.attr == "extend" and isinstance(x.func.value, ast.Attribute):
                                out.append((x.func.value.attr, norm(x.args[0]).split(".")[-1]))
                    return out
                ti, tn = targets(node.body), targets(node.orelse)
                found += 1
                rep.ob(R, site, "initial -> " + which[1], ti == [(which[1], which[0])],
                       "under `.initial` the section's %s must be appended to class_node.%s; found %s" % (which[0], which[1], ti))
                rep.ob(R, site, "non-initial -> " + which[0], tn == [(which[0], which[0])],
                       "otherwise the section's %s must be appended to class_node.%s; found %s" % (which[0], which[0], tn))
    if found < 2:
        raise MechanismMissing(R, "routing branches for equation/algorithm sections not found in exitComposition")


@SPEC.rule("R04.8", "listener state symmetry: class_nodes push/pop and the in_extends_clause flag are undone in the matching exit handler")
def r04_8(ctx, rep):
    n = listener_symmetry(ctx, rep, "R04.8", PARSER, L)
    if n < 2:
        raise MechanismMissing("R04.8", "fewer than 2 enter/exit state pairs found in ASTListener")


@SPEC.rule(
    "R04.9",
    "flag/token agreement: every `<node>.<flag> = <ctx...>.<TOKEN>() is not None` stores the presence of the keyword of "
    "the same name (encapsulated, partial, final, initial, redeclare ...)",
)
def r04_9(ctx, rep):
    R = "R04.9"
    gp, rules, gctx, ms, generic = _facts(ctx, R)
    n = 0
    for name, fn in sorted(ms.items()):
        for node in walk_local(fn):
            pairs = []
            if isinstance(node, ast.Assign) and isinstance(node.targets[0], ast.Attribute):
                pairs.append((node.targets[0].attr, node.value))
            if isinstance(node, ast.Call):
                for k in node.keywords:
                    if k.arg:
                        pairs.append((k.arg, k.value))
            for flag, v in pairs:
                if isinstance(v, ast.Compare) and isinstance(v.ops[0], ast.IsNot) and isinstance(v.comparators[0], ast.Constant) and v.comparators[0].value is None \
                        and isinstance(v.left, ast.Call) and isinstance(v.left.func, ast.Attribute) and v.left.func.attr.isupper():
                    n += 1
                    tok = v.left.func.attr
                    rep.ob(R, "%s:%s.%s" % (PARSER, L, name), "%s = %s() is not None" % (flag, tok), flag == tok.lower(),
                           "attribute `%s` is set from the presence of keyword %s" % (flag, tok))
    if n < 5:
        raise MechanismMissing(R, "fewer than 5 keyword flags found")


@SPEC.rule(
    "R04.10",
    "every section is visited: loops over a context's children / element lists in exitComposition run to completion "
    "(no break / return inside them), so element lists that follow an equation or algorithm section are handled too",
)
def r04_10(ctx, rep):
    R = "R04.10"
    gp, rules, gctx, ms, generic = _facts(ctx, R)
    fn = ms.get("exitComposition")
    if fn is None:
        raise MechanismMissing(R, "exitComposition not found")
    n = 0
    for lp in walk_local(fn):
        if isinstance(lp, ast.For):
            n += 1
            early = [norm(x) for x in ast.walk(lp) if isinstance(x, (ast.Break, ast.Return))]
            rep.ob(R, "%s:%s.exitComposition" % (PARSER, L), "loop `for %s in %s` complete" % (norm(lp.target), norm(lp.iter)[:50]), not early,
                   "the loop leaves early (%s): sections after that point keep default visibility / are not appended" % early)
    if n < 3:
        raise MechanismMissing(R, "fewer than 3 loops found in exitComposition")


def gettext_split_rule(ctx, rep, R):
    """ANTLR's getText() concatenates the tokens of a context without separators (hidden-channel whitespace is not part of
    it).  Splitting it on whitespace states the opposite belief and silently yields ONE fused word for several tokens."""
    cls = ctx.cls(PARSER, L, R)
    n_get = 0
    for m in cls.body:
        if not isinstance(m, ast.FunctionDef):
            continue
        for c in calls(m):
            if isinstance(c.func, ast.Attribute) and c.func.attr == "getText":
                n_get += 1
            if isinstance(c.func, ast.Attribute) and c.func.attr in ("split", "rsplit") and isinstance(c.func.value, ast.Call) \
                    and isinstance(c.func.value.func, ast.Attribute) and c.func.value.func.attr == "getText":
                sep = const_str(c.args[0]) if c.args else None
                if not c.args or (sep is not None and sep.strip() == ""):
                    rep.ob(R, "%s:%s.%s" % (PARSER, L, m.name), "whitespace split of `%s`" % norm(c.func.value)[:60], False,
                           "getText() of a parser rule context has no blanks between its tokens: `discrete input Real u` yields the single "
                           "prefix 'discreteinput', which no later stage recognises — iterate over the context's children instead")
    rep.ob(R, PARSER + ":" + L, "getText() uses inspected", n_get >= 10, "expected the listener to read token text with getText() (found %d uses)" % n_get)
    # the keyword lists that are built from a multi-token context take one entry per child
    for hname in ("enterComponent_clause", "enterComponent_clause1"):
        fn = ctx.func(PARSER, "%s.%s" % (L, hname), R)
        kw = [k for c in calls(fn) for k in c.keywords if k.arg == "prefixes"]
        ok = False
        for k in kw:
            v = k.value
            if isinstance(v, ast.Name):
                name = v.id
                for st in walk_local(fn):
                    if isinstance(st, ast.Assign) and is_name(st.targets[0], name):
                        v = st.value
            ok = ok or (isinstance(v, (ast.ListComp, ast.Call)) and any(isinstance(x, ast.Attribute) and x.attr in ("getChildren", "children") for x in ast.walk(v))
                        and any(isinstance(x, ast.Attribute) and x.attr == "type_prefix" for x in ast.walk(v)))
        rep.ob(R, "%s:%s.%s" % (PARSER, L, hname), "one prefix per token of type_prefix", ok,
               "the prefixes of a component clause must be the texts of the children of ctx.type_prefix(), one entry per keyword")


@SPEC.rule(
    "R04.11",
    "token text is never split on whitespace: ASTListener does not call .getText().split() / .split(' ') (getText() "
    "concatenates tokens without separators); the prefix list of a component clause is built from the children of "
    "type_prefix, one entry per keyword",
)
def r04_11(ctx, rep):
    gettext_split_rule(ctx, rep, "R04.11")


def _rule_refs(alts):
    out = set()
    for a in alts:
        for e in a.elems:
            if e.kind == "rule":
                out.add(e.value)
            if e.kind in ("group", "not"):
                out |= _rule_refs(e.alts)
    return out


@SPEC.rule(
    "R04.12",
    "flat enumeration only of flat rules: wherever a handler enumerates the raw child list of a sub-context "
    "(`x.children`, `x.getChildren()` with a stride or a loop) the grammar rule of that sub-context must not refer to "
    "itself — the children of a recursive rule are nested contexts, not the flat item list (import_list : IDENT (',' "
    "import_list)* puts the 3rd name inside a child context)",
)
def r04_12(ctx, rep):
    R = "R04.12"
    gp, rules, gctx, ms, generic = _facts(ctx, R)
    n = 0
    for name, fn in sorted(ms.items()):
        cparam = fn.args.args[1].arg if len(fn.args.args) > 1 else "ctx"
        # locals bound to ctx.<rule>()
        bound = {}
        for st in walk_local(fn):
            if isinstance(st, ast.Assign) and isinstance(st.targets[0], ast.Name) and isinstance(st.value, ast.Call) \
                    and isinstance(st.value.func, ast.Attribute) and is_name(st.value.func.value, cparam) and st.value.func.attr in rules and not st.value.args:
                bound[st.targets[0].id] = st.value.func.attr
        for node in walk_local(fn):
            base = None
            if isinstance(node, ast.Attribute) and node.attr == "children":
                base = node.value
            elif isinstance(node, ast.Call) and isinstance(node.func, ast.Attribute) and node.func.attr in ("getChildren", "getChild"):
                base = node.func.value
            if base is None:
                continue
            rule = None
            if isinstance(base, ast.Name) and base.id in bound:
                rule = bound[base.id]
            elif isinstance(base, ast.Call) and isinstance(base.func, ast.Attribute) and is_name(base.func.value, cparam) and base.func.attr in rules:
                rule = base.func.attr
            elif is_name(base, cparam):
                hc = _handler_ctx(name)
                rule = next((r for r in rules if ctx_name(r) == hc), None)
            if rule is None or rule not in rules:
                continue
            n += 1
            recursive = rule in _rule_refs(rules[rule].alts)
            rep.ob(R, "%s:%s.%s" % (PARSER, L, name), "raw children of %s" % rule, not recursive,
                   "grammar rule `%s` refers to itself, so `%s` yields nested %s contexts, not the flat list of its items: with three or "
                   "more items everything after the second is attached as one garbled entry" % (rule, norm(node)[:50], rule))
    rep.ob(R, PARSER + ":" + L, "child enumerations inspected", n >= 2, "expected at least the visibility walk and the type_prefix enumeration (found %d)" % n)



def _ctx_rule(fn, e, rules, cparam, own_rule, depth=4):
    """grammar rule of the parse-tree context an expression evaluates to, resolved through accessor calls, locals, worklist pops and
    loop targets; None when unknown"""
    if depth == 0:
        return None
    if is_name(e, cparam):
        return own_rule
    if isinstance(e, ast.Call) and isinstance(e.func, ast.Attribute):
        if e.func.attr in rules:
            return e.func.attr
        if e.func.attr == "pop":
            return _ctx_rule(fn, e.func.value, rules, cparam, own_rule, depth - 1)
    if isinstance(e, (ast.List, ast.Tuple)) and e.elts:
        return _ctx_rule(fn, e.elts[0], rules, cparam, own_rule, depth - 1)
    if isinstance(e, ast.BinOp) and isinstance(e.op, ast.Add):
        return _ctx_rule(fn, e.left, rules, cparam, own_rule, depth - 1) or _ctx_rule(fn, e.right, rules, cparam, own_rule, depth - 1)
    if isinstance(e, ast.Subscript):
        return _ctx_rule(fn, e.value, rules, cparam, own_rule, depth - 1)
    if isinstance(e, ast.Name):
        for st in walk_local(fn):
            if isinstance(st, ast.Assign) and any(is_name(t, e.id) for t in st.targets) and not (isinstance(st.value, ast.Name) and st.value.id == e.id):
                r = _ctx_rule(fn, st.value, rules, cparam, own_rule, depth - 1)
                if r:
                    return r
            if isinstance(st, ast.For) and any(isinstance(t, ast.Name) and t.id == e.id for t in ast.walk(st.target)):
                r = _ctx_rule(fn, st.iter, rules, cparam, own_rule, depth - 1)
                if r:
                    return r
    return None


@SPEC.rule(
    "R04.13",
    "a self-referential grammar rule is walked to the end: wherever a handler calls the accessor of a recursive rule on a context of "
    "that same rule (`import_list.import_list()`), the call sits inside a `while` worklist loop — a `for` over one call, or a list built "
    "from one call, reaches one level of nesting only, and with import_list : IDENT (',' import_list)* everything after the second name "
    "is one level further down",
)
def r04_13(ctx, rep):
    R = "R04.13"
    gp, rules, gctx, ms, generic = _facts(ctx, R)
    recursive = {r for r in rules if r in _rule_refs(rules[r].alts)}
    n = 0
    for name, fn in sorted(ms.items()):
        cparam = fn.args.args[1].arg if len(fn.args.args) > 1 else "ctx"
        hc = _handler_ctx(name)
        own_rule = next((r for r in rules if ctx_name(r) == hc), None)
        for c in calls(fn):
            if not (isinstance(c.func, ast.Attribute) and c.func.attr in recursive and not c.args):
                continue
            rule = c.func.attr
            recv = c.func.value
            # receiver is a context of the same rule (resolved through the accessor that produced it); the handler's own ctx calling
            # its own rule's accessor is the recursive formulation (children handled by their own exit handler) and is fine
            if is_name(recv, cparam):
                continue
            if _ctx_rule(fn, recv, rules, cparam, own_rule) != rule:
                continue
            n += 1
            in_while = False
            p_ = getattr(c, "_parent", None)
            while p_ is not None and p_ is not fn:
                if isinstance(p_, ast.While):
                    in_while = True
                p_ = getattr(p_, "_parent", None)
            rep.ob(R, "%s:%s.%s" % (PARSER, L, name), "nested %s contexts walked by a worklist" % rule, in_while,
                   "`%s` is evaluated once (outside any while loop): only the first level of the nested %s contexts is visited, deeper items are lost" % (norm(c)[:60], rule))
    rep.ob(R, PARSER + ":" + L, "recursive-rule walks inspected", n >= 1, "expected at least the import_list walk (found %d)" % n)


@SPEC.rule(
    "R04.14",
    "delimiters are cut off by position: no handler of the AST listener applies str.strip/lstrip/rstrip with a character argument (or "
    "replace()) to token text — `.strip('\"')` removes every quote at either end, so a description ending in an escaped quote loses it; "
    "the quoted forms are cut with [1:-1]",
)
def r04_14(ctx, rep):
    R = "R04.14"
    gp, rules, gctx, ms, generic = _facts(ctx, R)
    hits = []
    n = 0
    for name, fn in sorted(ms.items()):
        n += 1
        for c in calls(fn):
            if isinstance(c.func, ast.Attribute) and ((c.func.attr in ("strip", "lstrip", "rstrip", "removeprefix", "removesuffix") and c.args) or c.func.attr in ("replace", "translate")):
                src = norm(c.func.value)
                if "getText" in src or "text" in src.lower() or isinstance(c.func.value, (ast.Name, ast.Call, ast.Subscript)):
                    hits.append("%s: %s" % (name, norm(c)[:60]))
    if n < 40:
        raise MechanismMissing(R, "fewer than 40 listener handlers found")
    rep.ob(R, PARSER + ":" + L, "no character-set stripping or replacing of token text", not hits,
           "; ".join(hits[:4]) + " — the stored text differs from the source text for inputs that carry the stripped character inside the delimiters")


@SPEC.rule(
    "R04.15",
    "every node is attached to the context it was built for: no function of the parser reads a for-loop's variable after that loop has ended (the value the last iteration left behind)",
)
def r04_15(ctx, rep):
    from ._literal import no_stale_loop_variables
    no_stale_loop_variables(ctx, rep, "R04.15", PARSER, "the parser")


@SPEC.rule(
    "R04.16",
    "every import clause is attached to the class that declares it: on every path through ASTListener.exitImport_clause the clause (or each of "
    "its components) is stored in the class's import table or appended to the entry that is already there — the shared `*` entry is assigned "
    "only where no `*` entry exists yet and added to otherwise (a second `import Q.*;` must not be dropped, nor replace the first)",
)
def r04_16(ctx, rep):
    from ..cfg import assume_truth, iteration_skips, must_facts
    R = "R04.16"
    fn = ctx.func(PARSER, L + ".exitImport_clause", R)
    site = PARSER + ":" + L + ".exitImport_clause"
    cfg = CFG(fn, R)

    def imports_store(x):
        return x.kind == "stmt" and isinstance(x.ast, ast.Assign) and any(
            isinstance(t, ast.Subscript) and (dotted(t.value) or "").endswith(".imports") for t in x.ast.targets)

    def imports_add(x):
        return x.kind == "stmt" and any(isinstance(c.func, ast.Attribute) and c.func.attr in ("append", "extend") and ".imports[" in norm(c.func.value)
                                        for c in calls(x.ast)) or (x.kind == "stmt" and isinstance(x.ast, ast.AugAssign) and ".imports[" in norm(x.ast.target))

    comp_loops = [lp for lp in walk_local(fn) if isinstance(lp, ast.For) and norm(lp.iter).endswith(".components")]
    stores = [x for x in cfg.nodes if x.ast is not None and imports_store(x)]
    adds = [x for x in cfg.nodes if x.ast is not None and imports_add(x)]
    if len(stores) < 2:
        raise MechanismMissing(R, "stores into the class's import table not found in exitImport_clause")
    rep.ob(R, site, "a further unqualified import is added to the shared `*` entry", bool(adds),
           "nothing in exitImport_clause appends to an existing entry of the import table: of two `import P.*; import Q.*;` only one survives")
    heads = {x.id for x in cfg.nodes if x.kind == "iter" and any(x.ast is lp for lp in comp_loops)}
    w = cfg.must_pass(cfg.entry, cfg.exit, {x.id for x in stores} | {x.id for x in adds} | heads)
    rep.ob(R, site, "every import clause reaches the class's import table", w is None,
           "exitImport_clause can end without the clause having been stored in, or added to, self.class_node.imports: the import is lost",
           path=cfg.describe(w) if w else "")
    for lp in comp_loops:
        w = iteration_skips(cfg, lp, imports_store)
        rep.ob(R, site, "every imported name of a clause is stored", w is None, "an iteration over the clause's components can end without storing the name",
               path=cfg.describe(w) if w else "")
    # the shared entry: assigned only where it is known to be absent
    star = [x for x in stores if any(isinstance(t, ast.Subscript) and const_str(t.slice) == "*" for t in x.ast.targets)]
    if not star:
        raise MechanismMissing(R, "the store of the shared `*` entry was not found")
    recv = norm([t for t in star[0].ast.targets if isinstance(t, ast.Subscript)][0].value)

    def transfer(node, facts):
        if node.kind == "assume":
            t = assume_truth(node, "'*' in %s" % recv)
            if t is False:
                return facts | {"absent"}
            if t is True:
                return facts - {"absent"}
        if node.ast is not None and imports_store(node):
            return facts - {"absent"}
        return facts

    IN = must_facts(cfg, transfer)
    for x in star:
        rep.ob(R, site, "the `*` entry is assigned only when there is none yet", "absent" in (IN.get(x.id) or frozenset()),
               "`%s` can run when the class already has a `*` entry: the packages of the earlier unqualified imports are replaced" % norm(x.ast)[:70])


@SPEC.rule(
    "R04.17",
    "every part of a declarator's modification is kept: each iteration of the loop of ASTListener.exitDeclaration over the parsed "
    "modification either stores the item as the symbol's class modification or wraps it as the `value` argument and adds that — whatever "
    "kind of expression the binding is (a range `1:3` is an ast.Slice, not an Expression)",
)
def r04_17(ctx, rep):
    from ..cfg import iteration_skips
    R = "R04.17"
    fn = ctx.func(PARSER, L + ".exitDeclaration", R)
    site = PARSER + ":" + L + ".exitDeclaration"
    cfg = CFG(fn, R)
    from ..pyutil import inlined
    loops = [lp for lp in walk_local(fn) if isinstance(lp, ast.For) and "modification()" in norm(inlined(lp.iter, fn.body))]
    if not loops:
        raise MechanismMissing(R, "the loop over the declarator's modification was not found in exitDeclaration")
    for lp in loops:
        def kept(x):
            if x.kind != "stmt":
                return False
            a = x.ast
            if isinstance(a, ast.Assign) and any(isinstance(t, ast.Attribute) and t.attr == "class_modification" for t in a.targets):
                return True
            return any(isinstance(c.func, ast.Attribute) and c.func.attr in ("append", "extend") and norm(c.func.value).endswith(".arguments") for c in calls(a))
        w = iteration_skips(cfg, lp, kept)
        rep.ob(R, site, "every item of the modification is stored on the symbol", w is None,
               "an iteration can end without the item having become the symbol's class modification or one of its arguments: that binding or "
               "modifier is silently dropped", path=cfg.describe(w) if w else "")


@SPEC.rule(
    "R04.18",
    "a handler that picks `the alternative that is present` names every alternative: where an ASTListener handler chooses among sub-rule "
    "accessors with `ctx.a() or ctx.b() or ...`, the accessors are all the sub-rules the grammar rule of that context can consist of — a "
    "forgotten alternative (`replaceable_element`) leaves None in the element list and the element out of its section",
)
def r04_18(ctx, rep):
    R = "R04.18"
    gp, rules, gctx, ms, generic = _facts(ctx, R)
    n = 0
    for name, fn in sorted(ms.items()):
        if not name.startswith(("exit", "enter")) or len(fn.args.args) < 2:
            continue
        cname = name[4:] if name.startswith("exit") else name[5:]
        info = gctx.get(cname + "Context")
        if not info:
            continue
        prm = fn.args.args[1].arg
        for b in ast.walk(fn):
            if isinstance(b, ast.BoolOp) and isinstance(b.op, ast.Or) and len(b.values) >= 2 and all(
                    isinstance(v, ast.Call) and isinstance(v.func, ast.Attribute) and is_name(v.func.value, prm) and not v.args for v in b.values):
                named = {v.func.attr for v in b.values}
                refs = set(info["refs"])
                if not named <= refs:
                    continue
                n += 1
                # the rule's alternatives that are a single sub-rule reference
                rule = rules.get(info["rule"])
                alts = {a.elems[0].value for a in rule.alts if len(a.elems) == 1 and a.elems[0].kind in ("rule", "ref")} if rule else set()
                missing = sorted(alts - named) if named <= alts else []
                rep.ob(R, PARSER + ":%s.%s" % (L, name), "the or-chain over %s names every alternative" % sorted(named), not missing,
                       "the grammar rule `%s` also has the alternative(s) %s: for those the chain yields None" % (info["rule"], missing))
    rep.note("%s: %d or-chains over alternative accessors inspected" % (R, n))


# -- seeded variants ---------------------------------------------------------
from ._mut import delete_stmt_where, replace_in_func  # noqa: E402


@SPEC.mutant("renamed accessor", PARSER, "R04.1", "for_index")
def _m_acc(mod):
    def edit(fn):
        for n in ast.walk(fn):
            if isinstance(n, ast.Attribute) and n.attr == "for_indices":
                n.attr = "for_index_list"
                return True
        return False

    return mod if replace_in_func(mod, "ASTListener.exitFor_equation", edit) else None


@SPEC.mutant("prefixes not copied", PARSER, "R04.4", "prefixes")
def _m_pref(mod):
    return mod if delete_stmt_where(mod, "ASTListener.exitComponent_clause", lambda st: norm(st) == "s.prefixes = list(s.prefixes)") else None


@SPEC.mutant("type not copied in clause1", PARSER, "R04.4", "type")
def _m_type(mod):
    return mod if delete_stmt_where(mod, "ASTListener.exitComponent_clause1", lambda st: norm(st).startswith("s.type =")) else None


@SPEC.mutant("counter not incremented", PARSER, "R04.5", "")
def _m_cnt(mod):
    return mod if delete_stmt_where(mod, "ASTListener.enterComponent_declaration", lambda st: isinstance(st, ast.AugAssign)) else None


@SPEC.mutant("duplicate guard removed", PARSER, "R04.6", "store")
def _m_dup(mod):
    def edit(fn):
        for n in ast.walk(fn):
            if isinstance(n, ast.If) and "in self.class_node.symbols" in norm(n.test):
                n.body = [ast.Pass()]
                return True
        return False

    return mod if replace_in_func(mod, "ASTListener.enterDeclaration", edit) else None


@SPEC.mutant("initial sections routed to equations", PARSER, "R04.7", "initial")
def _m_route(mod):
    def edit(fn):
        for n in ast.walk(fn):
            if isinstance(n, ast.If) and norm(n.test) == "eqlist.initial":
                n.body, n.orelse = n.orelse, n.body
                return True
        return False

    return mod if replace_in_func(mod, "ASTListener.exitComposition", edit) else None


@SPEC.mutant("handler deleted", PARSER, "R04.3", "Connect_clause")
def _m_del(mod):
    from ._mut import find_def

    cls = find_def(mod, "ASTListener")
    before = len(cls.body)
    cls.body = [s for s in cls.body if not (isinstance(s, ast.FunctionDef) and s.name == "exitConnect_clause")]
    return mod if len(cls.body) < before else None


@SPEC.mutant("class stack not popped", PARSER, "R04.8", "class_nodes")
def _m_pop(mod):
    def edit(fn):
        for n in ast.walk(fn):
            if isinstance(n, ast.Assign) and "class_nodes.pop()" in norm(n.value):
                n.value = ast.parse("self.class_nodes[-1]", mode="eval").body
                return True
        return False

    return mod if replace_in_func(mod, "ASTListener.exitClass_definition", edit) else None


@SPEC.mutant("public sections labelled protected", PARSER, "R04.2", "epub")
def _m_vis(mod):
    def edit(fn):
        for n in ast.walk(fn):
            if isinstance(n, ast.If) and ("ctx.epub" in norm(n.test) or norm(n.test).endswith("== 'public'")):
                hit = False
                for a in [x for b in n.body for x in ast.walk(b)]:
                    if isinstance(a, ast.Attribute) and a.attr == "PUBLIC":
                        a.attr = "PROTECTED"
                        hit = True
                if hit:
                    return True
        return False

    return mod if replace_in_func(mod, "ASTListener.exitComposition", edit) else None


@SPEC.mutant("partial set from ENCAPSULATED", PARSER, "R04.9", "partial")
def _m_flag(mod):
    def edit(fn):
        for n in ast.walk(fn):
            if isinstance(n, ast.Attribute) and n.attr == "PARTIAL":
                n.attr = "ENCAPSULATED"
                n.value = ast.Name(id="ctx", ctx=ast.Load())
                return True
        return False

    return mod if replace_in_func(mod, "ASTListener.enterClass_definition", edit) else None


@SPEC.mutant("visibility loop stops at the first equation section", PARSER, "R04.10", "complete")
def _m_break(mod):
    def edit(fn):
        for lp in ast.walk(fn):
            if isinstance(lp, ast.For) and "getChildren" in norm(lp.iter):
                lp.body.append(ast.parse("if isinstance(child, ModelicaParser.Equation_sectionContext):\n    break").body[0])
                return True
        return False

    return mod if replace_in_func(mod, "ASTListener.exitComposition", edit) else None


@SPEC.mutant("prefixes from getText().split(' ')", PARSER, "R04.11", "whitespace split")
def _m_split(mod):
    def edit(fn):
        for st in ast.walk(fn):
            if isinstance(st, ast.Assign) and isinstance(st.value, ast.ListComp) and "type_prefix" in norm(st.value):
                st.value = ast.parse("ctx.type_prefix().getText().split(' ')", mode="eval").body
                return True
            if isinstance(st, ast.keyword) and st.arg == "prefixes" and isinstance(st.value, ast.ListComp) and "type_prefix" in norm(st.value):
                st.value = ast.parse("ctx.type_prefix().getText().split(' ')", mode="eval").body
                return True
        return False

    return mod if replace_in_func(mod, "ASTListener.enterComponent_clause", edit) else None


@SPEC.mutant("import names from the raw child list", PARSER, "R04.12", "import_list")
def _m_implist(mod):
    def edit(fn):
        for n in ast.walk(fn):
            if isinstance(n, ast.While):
                p_ = n._parent if hasattr(n, "_parent") else None
        for node in ast.walk(fn):
            for fld in ("body", "orelse"):
                b = getattr(node, fld, None)
                if isinstance(b, list):
                    for i, st in enumerate(b):
                        if isinstance(st, ast.While):
                            b[i] = ast.parse("for ident in import_list.children[::2]:\n    import_clause.components.append(package_name.concatenate(package_name.from_string(ident.getText())))").body[0]
                            return True
        return False

    return mod if replace_in_func(mod, "ASTListener.exitImport_clause", edit) else None


@SPEC.mutant("import names taken from one level of the nested list", PARSER, "R04.13", "walked by a worklist")
def _m_onelevel(mod):
    def edit(fn):
        for node in ast.walk(fn):
            for fld in ("body", "orelse"):
                b = getattr(node, fld, None)
                if isinstance(b, list):
                    for i, st in enumerate(b):
                        if isinstance(st, ast.While):
                            b[i] = ast.parse("for name_node in [import_list] + import_list.import_list():\n    import_clause.components.append(package_name.concatenate(package_name.from_string(name_node.IDENT().getText())))").body[0]
                            return True
        return False

    return mod if replace_in_func(mod, "ASTListener.exitImport_clause", edit) else None


@SPEC.mutant("comment quotes removed with strip", PARSER, "R04.14", "stripping")
def _m_strip(mod):
    def edit(fn):
        for n in ast.walk(fn):
            if isinstance(n, ast.Subscript) and isinstance(n.slice, ast.Slice) and "getText" in norm(n.value):
                new = ast.parse("x.strip('\"')", mode="eval").body
                new.func.value = n.value
                n.value, n.slice = new, ast.Slice(lower=None, upper=None, step=None)
                return True
        return False

    return mod if replace_in_func(mod, "ASTListener.exitString_comment", edit) else None


@SPEC.mutant("only expression bindings become the value modification", PARSER, "R04.17", "stored on the symbol")
def _m_range_binding(mod):
    def edit(fn):
        for st in ast.walk(fn):
            if isinstance(st, ast.If) and "isinstance" in norm(st.test) and "ClassModification" in norm(st.test) and st.orelse:
                st.orelse = [ast.If(test=ast.parse("isinstance(mod, ast.Expression)", mode="eval").body, body=st.orelse, orelse=[])]
                return True
        return False

    return mod if replace_in_func(mod, "ASTListener.exitDeclaration", edit) else None
