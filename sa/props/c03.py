"""C03 — parsed expressions follow Modelica precedence and literal values."""
from __future__ import annotations

import ast
import os
import shutil
import subprocess
import tempfile

from .. import genparser
from ..engine import AnalysisError, MechanismMissing, PropertySpec, norm
from ..grammar import alt_operator_tokens, parse_grammar
from ..pyutil import call_name, calls, const_str, dotted, is_name, literal, walk_local

PARSER = "src/pymoca/parser.py"
G4 = "src/pymoca/Modelica.g4"
LISTENER = "ASTListener"

SPEC = PropertySpec(
    "C03",
    "Parsed expressions follow Modelica precedence and literal values",
    decided=(
        "grouping is a function of the generated parser's precedence table (code and serialized ATN) and of how "
        "the listener assembles operator text and operands; both are finite tables in the source and are compared "
        "with Modelica's precedence/associativity; literal constructors build the exact constants."
    ),
    not_decided="numeric evaluation of parsed trees; the ANTLR runtime itself; escape handling inside string literals.",
)
SPEC.assumptions += [
    "ANTLR4 precedence climbing: a binary alternative guarded by precpred(ctx, n) is taken iff n >= the precedence "
    "argument of the enclosing expr(_p) call; prefix/primary alternatives are unguarded",
]

SITE_GEN = genparser.GEN + ":ModelicaParser.expr"

LEVELS = ["mul", "add", "rel", "and", "or"]  # tightest first
CTX = {
    "mul": "Expr_mulContext", "add": "Expr_addContext", "rel": "Expr_relContext", "and": "Expr_andContext",
    "or": "Expr_orContext", "not": "Expr_notContext", "signed": "Expr_signedContext", "exp": "Expr_expContext",
    "primary": "Expr_primaryContext",
}
TOKENS = {
    "mul": {"*", "/", ".*", "./"},
    "add": {"+", "-", ".+", ".-"},
    "rel": {"<", "<=", ">", ">=", "==", "<>"},
    "exp": {"^", ".^"},
    "signed": {"+", "-"},
    "not": {"not"},
    "and": {"and"},
    "or": {"or"},
}


def _table(ctx, R):
    gp = genparser.get(ctx, R)
    ctx.functions_analysed.add(SITE_GEN)
    tab = {}
    for a in gp.expr_table():
        tab[a["ctx"]] = a
    missing = [c for c in CTX.values() if c not in tab]
    if missing:
        raise MechanismMissing(R, "alternatives %s not found in generated expr()" % missing)
    return gp, {k: tab[c] for k, c in CTX.items()}


@SPEC.rule(
    "R03.2",
    "precedence table of the generated parser (precpred numbers and operand thresholds of expr(); identical in the "
    "serialized ATN): A binds tighter than B iff prec(A) >= rightOperand(B) and prec(B) < rightOperand(A), for "
    "mul > add > rel > and > or; relations bind tighter than `not`, `not` tighter than and/or; sign tighter than "
    "add; `^` takes primaries on both sides",
)
def r03_2(ctx, rep):
    R = "R03.2"
    gp, t = _table(ctx, R)
    for i, a in enumerate(LEVELS):
        for b in LEVELS[i + 1:]:
            pa, pb = t[a]["prec"], t[b]["prec"]
            ma, mb = t[a]["operands"][0], t[b]["operands"][0]
            ok = all(isinstance(x, int) for x in (pa, pb, ma, mb)) and pa >= mb and pb < ma
            rep.ob(R, SITE_GEN, "%s tighter than %s" % (a, b), ok,
                   "need prec(%s)=%s >= operand(%s)=%s and prec(%s)=%s < operand(%s)=%s" % (a, pa, b, mb, b, pb, a, ma))
    tn = t["not"]["operands"][0]
    rep.ob(R, SITE_GEN, "rel tighter than not", isinstance(tn, int) and t["rel"]["prec"] >= tn,
           "`not a < b` must parse as not (a < b): prec(rel)=%s >= operand(not)=%s" % (t["rel"]["prec"], tn))
    for b in ("and", "or"):
        rep.ob(R, SITE_GEN, "not tighter than %s" % b, isinstance(tn, int) and t[b]["prec"] < tn,
               "`not a %s b` must parse as (not a) %s b: prec(%s)=%s < operand(not)=%s" % (b, b, b, t[b]["prec"], tn))
    ts = t["signed"]["operands"][0]
    for b in ("add", "rel", "and", "or"):
        rep.ob(R, SITE_GEN, "sign tighter than %s" % b, isinstance(ts, int) and t[b]["prec"] < ts,
               "`-a %s b` must parse as (-a) %s b: prec(%s)=%s < operand(sign)=%s" % (b, b, b, t[b]["prec"], ts))
    e = t["exp"]
    ok = e["prec"] is None and e["operands"] == ["primary", "primary"]
    if not ok and isinstance(e["prec"], int):  # a recursive formulation is fine if it stays tightest
        ok = e["prec"] >= ts and e["prec"] > t["mul"]["prec"] and e["prec"] >= t["mul"]["operands"][0]
    rep.ob(R, SITE_GEN, "exp tightest", ok,
           "`^` must bind tighter than unary minus and `*`: operands %s, prec %s" % (e["operands"], e["prec"]))
    # code <-> ATN
    code_preds = sorted(a["prec"] for a in t.values() if isinstance(a["prec"], int))
    code_calls = sorted(o for a in t.values() for o in a["operands"] if isinstance(o, int))
    try:
        atn_preds, atn_calls = genparser.atn_precedences(gp.serialized_atn(), gp.rule_names.index("expr"))
    except AnalysisError:
        raise
    except Exception as ex:  # noqa: BLE001
        raise AnalysisError(R, "cannot deserialize the ATN: %s" % ex)
    rep.ob(R, genparser.GEN + ":serializedATN", "ATN precedences == code precedences",
           atn_preds == code_preds and atn_calls == code_calls,
           "prediction uses the ATN, the predicates use the code; they must agree: code %s/%s, ATN %s/%s"
           % (code_preds, code_calls, atn_preds, atn_calls))


@SPEC.rule("R03.3", "associativity: mul, add, and, or are left-associative (right operand threshold > own precedence)")
def r03_3(ctx, rep):
    R = "R03.3"
    gp, t = _table(ctx, R)
    for a in ("mul", "add", "and", "or"):
        p, m = t[a]["prec"], t[a]["operands"][0]
        rep.ob(R, SITE_GEN, "%s left-associative" % a, isinstance(p, int) and isinstance(m, int) and p < m,
               "`x %s y %s z` must group to the left: prec=%s must be < right operand threshold=%s" % (a, a, p, m))


@SPEC.rule("R03.4", "operator tokens accepted at each level equal Modelica's (generated token tests; cross-checked with Modelica.g4 as a note)")
def r03_4(ctx, rep):
    R = "R03.4"
    gp, t = _table(ctx, R)
    for k, want in TOKENS.items():
        got = set(t[k]["tokens"])
        rep.ob(R, SITE_GEN, "tokens of %s" % k, got == want, "level %s accepts %s, Modelica has %s" % (k, sorted(got), sorted(want)))
    # advisory: grammar text agrees (R03.1, evidence only)
    try:
        rules = parse_grammar(ctx.read(G4, R))
        alts = {a.label: a for a in rules["expr"].alts}
        n = len(rules["expr"].alts)
        diffs = []
        for k in TOKENS:
            a = alts.get("expr_" + k)
            if a is None or set(alt_operator_tokens(a)) != set(t[k]["tokens"]):
                diffs.append(k)
        # ANTLR numbers alternatives n..1 from first to last
        order = [a.label for a in rules["expr"].alts]
        expect = {lab: n - i for i, lab in enumerate(order)}
        precs = {k: t[k]["prec"] for k in LEVELS}
        gram = {k: expect.get("expr_" + k) for k in LEVELS}
        rep.note("R03.1 (advisory) grammar<->generated parser: token differences %s; precedence from alt order %s vs generated %s"
                 % (diffs, gram, precs))
        rep.extra["R03.1_grammar_sync_quick"] = {"token_diffs": diffs, "grammar_prec": gram, "generated_prec": precs,
                                                 "in_sync": not diffs and gram == precs}
    except AnalysisError as e:
        rep.note("R03.1 (advisory) grammar could not be read: %s" % e)


def _listener(ctx, R):
    return ctx.methods(PARSER, LISTENER, R)


def _ast_store(fn):
    """Statements `self.ast[ctx] = <value>` in a handler."""
    out = []
    for n in walk_local(fn):
        if isinstance(n, ast.Assign) and len(n.targets) == 1:
            t = n.targets[0]
            if isinstance(t, ast.Subscript) and dotted(t.value) == "self.ast" and is_name(t.slice, "ctx"):
                out.append(n)
    return out


def _is_ast_of(node, inner_pred):
    return isinstance(node, ast.Subscript) and dotted(node.value) == "self.ast" and inner_pred(node.slice)


def _ctx_call(node, name, nargs=0):
    return (isinstance(node, ast.Call) and isinstance(node.func, ast.Attribute) and node.func.attr == name
            and is_name(node.func.value, "ctx") and len(node.args) == nargs and not node.keywords)


def _operands_in_order(node, accessor, arity):
    """`[self.ast[e] for e in ctx.<accessor>()]`, or the explicit list in index order."""
    if isinstance(node, ast.ListComp) and len(node.generators) == 1:
        g = node.generators[0]
        if g.ifs or not isinstance(g.target, ast.Name):
            return False
        if not _ctx_call(g.iter, accessor):
            return False
        return _is_ast_of(node.elt, lambda s: is_name(s, g.target.id))
    if isinstance(node, ast.List):
        if arity == 1 and len(node.elts) == 1:
            e = node.elts[0]
            return _is_ast_of(e, lambda s: _ctx_call(s, accessor) or (_ctx_call(s, accessor, 1) and literal(s.args[0]) == 0))
        if len(node.elts) == arity:
            for i, e in enumerate(node.elts):
                ok = _is_ast_of(e, lambda s, i=i: (_ctx_call(s, accessor, 1) and literal(s.args[0]) == i)
                                or (isinstance(s, ast.Subscript) and _ctx_call(s.value, accessor) and literal(s.slice) == i))
                if not ok:
                    return False
            return True
    return False


@SPEC.rule(
    "R03.5",
    "listener assembly: every exitExpr_* handler stores Expression(operator=<token text or the keyword>, operands="
    "<children in source order, none dropped, no reordering call>); single parenthesised expression collapses to "
    "itself; if-expression splits conditions/branches by position",
)
def r03_5(ctx, rep):
    R = "R03.5"
    ms = _listener(ctx, R)
    spec = {
        "exitExpr_add": ("op", "expr", 2), "exitExpr_mul": ("op", "expr", 2), "exitExpr_rel": ("op", "expr", 2),
        "exitExpr_exp": ("op", "primary", 2), "exitExpr_signed": ("op", "expr", 1),
        "exitExpr_not": ("not", "expr", 1), "exitExpr_and": ("and", "expr", 2), "exitExpr_or": ("or", "expr", 2),
    }
    for name, (opk, acc, arity) in spec.items():
        site = PARSER + ":%s.%s" % (LISTENER, name)
        fn = ms.get(name)
        if fn is None:
            rep.ob(R, site, "handler", False, "handler %s is missing: the alternative produces no Expression node" % name)
            continue
        stores = _ast_store(fn)
        ok, why = False, "no `self.ast[ctx] = ast.Expression(...)` store"
        if len(stores) == 1 and isinstance(stores[0].value, ast.Call) and (call_name(stores[0].value) or "").endswith("Expression"):
            kw = {k.arg: k.value for k in stores[0].value.keywords}
            op = kw.get("operator")
            if opk == "op":
                op_ok = dotted(op) == "ctx.op.text"
            else:
                op_ok = const_str(op) == opk
            opd_ok = "operands" in kw and _operands_in_order(kw["operands"], acc, arity)
            ok = op_ok and opd_ok
            why = "operator=%s (need %s), operands=%s (need children of ctx.%s() in source order)" % (
                norm(op) if op is not None else None, "ctx.op.text" if opk == "op" else repr(opk),
                norm(kw["operands"]) if "operands" in kw else None, acc)
        rep.ob(R, site, "Expression(operator, operands)", ok, why)
    # pass-through handlers
    for name, acc in (("exitExpr_primary", "primary"), ("exitExpression_simple", "simple_expression"),
                      ("exitPrimary_component_reference", "component_reference")):
        site = PARSER + ":%s.%s" % (LISTENER, name)
        fn = ms.get(name)
        stores = _ast_store(fn) if fn is not None else []
        ok = len(stores) == 1 and _is_ast_of(stores[0].value, lambda s: _ctx_call(s, acc))
        rep.ob(R, site, "pass-through", ok, "must store self.ast[ctx.%s()] unchanged" % acc)
    # parenthesised expression collapse and simple_expression: decided by interpreting the handler on symbolic parse-tree contexts with 1, 2, 3
    # children (nothing of pymoca runs: sa/symexec.py walks the handler's AST), so the spelling of the handler does not matter
    from ..symexec import Interp, Obj, SymExecError

    def run_handler(fn, ctx_obj, table, more=None):
        calls_ = {"ast.Slice": lambda **kw: ("Slice", kw.get("start"), kw.get("stop"), kw.get("step")),
                  "ast.Primary": lambda **kw: ("Primary", kw.get("value"))}
        calls_.update(more or {})
        for k in [a for a in dir(ctx_obj) if not a.startswith("_")]:
            v = getattr(ctx_obj, k)
            if callable(v):
                calls_["%s.%s" % (fn.args.args[1].arg, k)] = v
        it = Interp(calls_, {fn.args.args[1].arg: ctx_obj, "self": Obj(ast=table), "self.ast": table})
        it.run(fn.body)
        return table.get(ctx_obj, "<nothing stored>")

    name = "exitPrimary_output_expression_list"
    site = PARSER + ":%s.%s" % (LISTENER, name)
    fn = ms.get(name)
    ok, why = False, "handler missing"
    if fn is not None:
        try:
            res = {}
            for n_ in (1, 2, 3):
                kids = [Obj(label="e%d" % i) for i in range(n_)]
                table = {k: ("ast", k.label) for k in kids}
                inner = Obj(expression=lambda i=None, _k=kids: _k if i is None else _k[i])
                ctx_obj = Obj(output_expression_list=lambda _i=inner: _i)
                res[n_] = run_handler(fn, ctx_obj, table)
            want = {1: ("ast", "e0"), 2: [("ast", "e0"), ("ast", "e1")], 3: [("ast", "e0"), ("ast", "e1"), ("ast", "e2")]}
            ok = res == want
            why = "" if ok else "; ".join("%d expression(s): stored %r, expected %r" % (k, res[k], want[k]) for k in want if res[k] != want[k])
        except SymExecError as e:
            raise MechanismMissing(R, "%s uses a construct the handler interpreter does not know (%s)" % (name, e))
    rep.ob(R, site, "single expression collapsed", ok,
           "(e) must yield e itself, (e1, e2) the list in order — " + why)
    name = "exitSimple_expression"
    site = PARSER + ":%s.%s" % (LISTENER, name)
    fn = ms.get(name)
    ok, why = False, "handler missing"
    if fn is not None:
        try:
            res = {}
            for n_ in (1, 2, 3):
                kids = [Obj(label="e%d" % i) for i in range(n_)]
                table = {k: ("ast", k.label) for k in kids}
                ctx_obj = Obj(expr=lambda i=None, _k=kids: _k if i is None else _k[i])
                res[n_] = run_handler(fn, ctx_obj, table)
            want = {1: ("ast", "e0"), 2: ("Slice", ("ast", "e0"), ("ast", "e1"), ("Primary", 1)), 3: ("Slice", ("ast", "e0"), ("ast", "e2"), ("ast", "e1"))}
            ok = res == want
            why = "" if ok else "; ".join("%d expr(s): stored %r, expected %r" % (k, res[k], want[k]) for k in want if res[k] != want[k])
        except SymExecError as e:
            raise MechanismMissing(R, "%s uses a construct the handler interpreter does not know (%s)" % (name, e))
    rep.ob(R, site, "lone expr passes through", ok,
           "one expr is passed through, start:stop gets step 1, start:step:stop keeps its step in the middle — " + why)
    # if-expression split
    name = "exitExpression_if"
    site = PARSER + ":%s.%s" % (LISTENER, name)
    fn = ms.get(name)
    ok, why = False, "handler missing"
    if fn is not None:
        try:
            ok, why = True, "conditions are the even positions, branch values the odd positions plus the else value"
            for k in (1, 2, 3):
                kids = []
                for i in range(k):
                    kids += [Obj(label="c%d" % i), Obj(label="e%d" % i)]
                kids.append(Obj(label="else"))
                table = {x: x.label for x in kids}
                ctx_obj = Obj(expression=lambda i=None, _k=kids: _k if i is None else _k[i])
                calls_ = {"ast.IfExpression": lambda **kw: ("IfExpression", kw.get("conditions"), kw.get("expressions"))}
                got = run_handler(fn, ctx_obj, table, calls_)
                want = ("IfExpression", ["c%d" % i for i in range(k)], ["e%d" % i for i in range(k)] + ["else"])
                if not (isinstance(got, tuple) and len(got) == 3 and got[0] == want[0] and list(got[1] or []) == want[1] and list(got[2] or []) == want[2]):
                    ok, why = False, "for %d branch(es): stored %r, expected %r" % (k, got, want)
                    break
        except SymExecError as e:
            raise MechanismMissing(R, "%s uses a construct the handler interpreter does not know (%s)" % (name, e))
    rep.ob(R, site, "conditions/branches by position", ok, why)
    rep.require_instances(R, 12, "listener handlers")


@SPEC.rule(
    "R03.6",
    "literal constructors: true/false build Primary(value=True/False); numbers are converted with int() first and "
    "float() only in the ValueError handler, both from the unmodified token text; strings drop exactly the two quotes",
)
def r03_6(ctx, rep):
    R = "R03.6"
    ms = _listener(ctx, R)
    for name, val in (("exitPrimary_true", True), ("exitPrimary_false", False)):
        site = PARSER + ":%s.%s" % (LISTENER, name)
        fn = ms.get(name)
        stores = _ast_store(fn) if fn is not None else []
        ok = False
        if len(stores) == 1 and isinstance(stores[0].value, ast.Call) and (call_name(stores[0].value) or "").endswith("Primary"):
            kw = {k.arg: k.value for k in stores[0].value.keywords}
            v = kw.get("value")
            ok = isinstance(v, ast.Constant) and v.value is val
        rep.ob(R, site, "Primary(value=%s)" % val, ok, "`%s` must parse to the Boolean constant %s" % (str(val).lower(), val))
    # numbers
    name = "exitPrimary_unsigned_number"
    site = PARSER + ":%s.%s" % (LISTENER, name)
    fn = ms.get(name)
    ok, why = False, "handler missing"
    if fn is not None:
        ok, why = _number(fn)
    rep.ob(R, site, "int then float", ok, why)
    # strings
    name = "exitPrimary_string"
    site = PARSER + ":%s.%s" % (LISTENER, name)
    fn = ms.get(name)
    ok = False
    if fn is not None:
        txtvars = {n.targets[0].id for n in walk_local(fn) if isinstance(n, ast.Assign) and isinstance(n.targets[0], ast.Name)
                   and norm(n.value) == "ctx.getText()"}
        for st in _ast_store(fn):
            if isinstance(st.value, ast.Call) and (call_name(st.value) or "").endswith("Primary"):
                kw = {k.arg: k.value for k in st.value.keywords}
                v = kw.get("value")
                if isinstance(v, ast.Subscript) and isinstance(v.slice, ast.Slice):
                    base_ok = (isinstance(v.value, ast.Name) and v.value.id in txtvars) or norm(v.value) == "ctx.getText()"
                    ok = base_ok and literal(v.slice.lower) == 1 and literal(v.slice.upper) == -1 and v.slice.step is None
    rep.ob(R, site, "text[1:-1]", ok, "a string literal's value is the token text without its two delimiting quotes")


def _number(fn):
    txtvars = {n.targets[0].id for n in walk_local(fn) if isinstance(n, ast.Assign) and isinstance(n.targets[0], ast.Name)
               and norm(n.value) == "ctx.getText()"}

    def conv(node, f):
        return isinstance(node, ast.Call) and is_name(node.func, f) and len(node.args) == 1 and (
            (isinstance(node.args[0], ast.Name) and node.args[0].id in txtvars) or norm(node.args[0]) == "ctx.getText()")

    for n in walk_local(fn):
        if isinstance(n, ast.Try):
            body_int = [s for s in n.body if isinstance(s, ast.Assign) and conv(s.value, "int")]
            hs = [h for h in n.handlers if h.type is not None and "ValueError" in norm(h.type)]
            if body_int and hs:
                var = body_int[0].targets[0].id if isinstance(body_int[0].targets[0], ast.Name) else None
                h_float = [s for s in hs[0].body if isinstance(s, ast.Assign) and conv(s.value, "float")
                           and isinstance(s.targets[0], ast.Name) and s.targets[0].id == var]
                if h_float:
                    for st in _ast_store(fn):
                        if isinstance(st.value, ast.Call) and (call_name(st.value) or "").endswith("Primary"):
                            kw = {k.arg: k.value for k in st.value.keywords}
                            if is_name(kw.get("value"), var):
                                return True, "int(text) first, float(text) on ValueError, stored unchanged"
    return False, "need try: v = int(<token text>) except ValueError: v = float(<token text>) and Primary(value=v)"


@SPEC.rule(
    "R03.1",
    "(advisory, evidence only) regenerate the parser from Modelica.g4 with the repository's ANTLR jar in a scratch "
    "directory and compare with the committed generated files (ast.dump, format-insensitive)",
    tier="thorough",
)
def r03_1(ctx, rep):
    jar = os.path.join(ctx.repo, "antlr", "antlr-4.13.1-complete.jar")
    java = shutil.which("java")
    if not java or not os.path.exists(jar):
        rep.note("R03.1 (advisory) skipped: java or the ANTLR jar is not available")
        return
    tmp = tempfile.mkdtemp(prefix="verif_c03_")
    try:
        with open(os.path.join(tmp, "Modelica.g4"), "w") as f:
            f.write(ctx.read(G4))
        r = subprocess.run([java, "-jar", jar, "-Dlanguage=Python3", "-visitor", "Modelica.g4"], cwd=tmp,
                           capture_output=True, text=True, timeout=120)
        if r.returncode != 0:
            rep.note("R03.1 (advisory) ANTLR failed: %s" % r.stderr[:200])
            return
        res = {}
        for name in ("ModelicaParser.py", "ModelicaLexer.py", "ModelicaListener.py"):
            with open(os.path.join(tmp, name)) as f:
                a = ast.dump(ast.parse(f.read()))
            b = ast.dump(ast.parse(ctx.read("src/pymoca/generated/" + name)))
            res[name] = a == b
        rep.extra["R03.1_regeneration"] = res
        rep.note("R03.1 (advisory) regenerated parser identical to committed files: %s" % res)
    finally:
        shutil.rmtree(tmp, ignore_errors=True)


# -- seeded variants ---------------------------------------------------------
from ._mut import find_def, replace_in_func  # noqa: E402


def _swap_ints(mod, pairs):
    """In ModelicaParser.expr(): swap precedence numbers according to pairs, in
    precpred(...) and self.expr(...) calls (the ATN is left alone)."""
    cls = find_def(mod, "ModelicaParser")
    fn = None
    for st in cls.body:
        if isinstance(st, ast.FunctionDef) and st.name == "expr":
            fn = st
    if fn is None:
        return None
    hit = False
    for n in ast.walk(fn):
        if isinstance(n, ast.Call) and isinstance(n.func, ast.Attribute) and n.func.attr == "precpred":
            v = n.args[1].value
            if v in pairs:
                n.args[1] = ast.Constant(value=pairs[v])
                hit = True
    return mod if hit else None


@SPEC.mutant("swap mul/add precedence in code", genparser.GEN, "R03.2", "")
def _m_swap(mod):
    return _swap_ints(mod, {7: 6, 6: 7})


@SPEC.mutant("reversed operands in exitExpr_add", PARSER, "R03.5", "exitExpr_add")
def _m_rev(mod):
    def edit(fn):
        for n in ast.walk(fn):
            if isinstance(n, ast.ListComp):
                n.generators[0].iter = ast.Call(func=ast.Name(id="reversed", ctx=ast.Load()), args=[n.generators[0].iter], keywords=[])
                return True
        return False

    return mod if replace_in_func(mod, "ASTListener.exitExpr_add", edit) else None


@SPEC.mutant("true parses to False", PARSER, "R03.6", "exitPrimary_true")
def _m_true(mod):
    def edit(fn):
        for n in ast.walk(fn):
            if isinstance(n, ast.Constant) and n.value is True:
                n.value = False
                return True
        return False

    return mod if replace_in_func(mod, "ASTListener.exitPrimary_true", edit) else None


@SPEC.mutant("float before int", PARSER, "R03.6", "exitPrimary_unsigned_number")
def _m_float(mod):
    def edit(fn):
        for n in ast.walk(fn):
            if isinstance(n, ast.Call) and is_name(n.func, "int"):
                n.func.id = "float"
                return True
        return False

    return mod if replace_in_func(mod, "ASTListener.exitPrimary_unsigned_number", edit) else None


@SPEC.mutant("operator text replaced by constant", PARSER, "R03.5", "exitExpr_mul")
def _m_optext(mod):
    def edit(fn):
        for n in ast.walk(fn):
            if isinstance(n, ast.keyword) and n.arg == "operator":
                n.value = ast.Constant(value="*")
                return True
        return False

    return mod if replace_in_func(mod, "ASTListener.exitExpr_mul", edit) else None


@SPEC.mutant("if-expression branches shifted", PARSER, "R03.5", "exitExpression_if")
def _m_ifsplit(mod):
    def edit(fn):
        for n in ast.walk(fn):
            if isinstance(n, ast.Assign) and norm(n.targets[0]) == "conditions":
                n.value = ast.parse("all_expr[1:-1:2]", mode="eval").body
                return True
            # the engine's form: the temporaries are folded into the constructor call
            if isinstance(n, ast.keyword) and n.arg == "conditions":
                n.value = ast.parse("all_expr[1:-1:2]", mode="eval").body
                return True
        return False

    return mod if replace_in_func(mod, "ASTListener.exitExpression_if", edit) else None


@SPEC.mutant("parenthesised expression kept as list", PARSER, "R03.5", "exitPrimary_output_expression_list")
def _m_paren(mod):
    def edit(fn):
        for n in ast.walk(fn):
            if isinstance(n, ast.If):
                n.test = ast.parse("len(self.ast[ctx]) == 0", mode="eval").body
                return True
        return False

    return mod if replace_in_func(mod, "ASTListener.exitPrimary_output_expression_list", edit) else None
