"""C08 — modifications take effect with Modelica precedence in either spelling."""
from __future__ import annotations

import ast

from ..cfg import CFG
from ..engine import AnalysisError, MechanismMissing, PropertySpec, norm
from ..pyutil import call_name, calls, dotted, is_name, walk_local

TREE = "src/pymoca/tree.py"

SPEC = PropertySpec(
    "C08",
    "Modifications take effect with Modelica precedence in either spelling",
    decided=(
        "(a) the applier is 'last applied wins' and at every place two modification lists are concatenated the inner "
        "list is the receiver and the outer list the argument; (b) scope is inherited by every argument derived from "
        "a scoped argument and unscoped arguments get the enclosing class as scope before being passed down; (c) "
        "wherever a modification is selected by its first name, a remaining dotted path is consumed one level or "
        "rejected; (d) the applier partitions the arguments into applied/kept by complementary predicates."
    ),
    not_decided="the values that result (expression resolution in scopes).",
)


def _role(expr, env) -> str:
    """Role of a `<something>.arguments` expression at a merge site."""
    t = norm(expr)
    if not t.endswith(".arguments"):
        return "?"
    base = expr.value if isinstance(expr, ast.Attribute) else None
    bt = norm(base)
    if bt == env.get("param_env"):
        return "caller_env"
    if bt.endswith(".modification_environment"):
        owner = norm(base.value)
        if owner == env.get("instance"):
            return "env"
        if owner in env.get("bases", ()):
            return "base_env"
        return "other_env"
    if ".type.symbols['__value'].class_modification" in bt or '.type.symbols["__value"].class_modification' in bt:
        return "type_decl"
    if bt.endswith(".class_modification"):
        return "decl"
    if bt in env.get("fresh_mods", ()):
        return "from_env"
    if isinstance(base, ast.Name):
        if base.id in env.get("env_parts", ()):
            return "env_part"
        return "local:" + base.id
    return "?"


ALLOWED = {("env", "base_env"), ("env", "caller_env"), ("decl", "env"), ("decl", "from_env"), ("from_env", "env_part")}


def _merge_sites(fn):
    out = []
    for n in walk_local(fn):
        if isinstance(n, ast.Call) and isinstance(n.func, ast.Attribute) and n.func.attr == "extend" and n.args \
                and norm(n.func.value).endswith(".arguments") and norm(n.args[0]).endswith(".arguments") and "annotation" not in norm(n.func.value):
            out.append((n.func.value, n.args[0], n))
        elif isinstance(n, ast.AugAssign) and isinstance(n.op, ast.Add) and norm(n.target).endswith(".arguments") \
                and norm(n.value).endswith(".arguments") and "annotation" not in norm(n.target):
            out.append((n.target, n.value, n))
    return out


def _env_of(fn):
    env = {"bases": set(), "fresh_mods": set(), "env_parts": set()}
    for n in walk_local(fn):
        if isinstance(n, ast.For) and isinstance(n.target, ast.Name) and norm(n.iter).endswith(".value.modifications"):
            env["env_parts"].add(n.target.id)
        if isinstance(n, ast.Assign) and isinstance(n.targets[0], ast.Name) and isinstance(n.value, ast.Call):
            cn = call_name(n.value) or ""
            if cn.endswith("InstanceClass"):
                env["instance"] = n.targets[0].id
            elif cn == "flatten_extends":
                if fn.name == "flatten_extends":
                    env["bases"].add(n.targets[0].id)
                else:
                    env["instance"] = n.targets[0].id
            elif cn.endswith("ClassModification") and not n.value.args and not n.value.keywords:
                env["fresh_mods"].add(n.targets[0].id)
    params = [a.arg for a in fn.args.args]
    if "modification_environment" in params:
        env["param_env"] = "modification_environment"
    return env


@SPEC.rule(
    "R08.1",
    "merge order: modify_symbol applies arguments in list order (last wins); at every concatenation of modification "
    "arguments the receiver is the inner list (declaration / base classes) and the argument the outer one (enclosing "
    "environment / caller), and the caller's environment is appended after all extends clauses",
)
def r08_1(ctx, rep):
    R = "R08.1"
    ms = ctx.func(TREE, "modify_symbol", R)
    loops = [n for n in walk_local(ms) if isinstance(n, ast.For)]
    last_wins = False
    for lp in loops:
        if isinstance(lp.iter, ast.Name) and any(isinstance(c.func, ast.Name) and c.func.id == "setattr" for c in calls(lp)):
            last_wins = True
    rep.ob(R, TREE + ":modify_symbol", "applies in list order", last_wins,
           "premise of the order rule: the applier iterates the argument list front to back with setattr (later entries override)")
    n = 0
    keys_seen = {}
    for fname in ("flatten_extends", "build_instance_tree", "flatten_symbols"):
        fn = ctx.func(TREE, fname, R)
        env = _env_of(fn)
        for recv, arg, node in _merge_sites(fn):
            rr, ra = _role(recv, env), _role(arg, env)
            n += 1
            key = "%s <- %s" % (norm(recv), norm(arg))
            keys_seen[key] = keys_seen.get(key, 0) + 1
            if keys_seen[key] > 1:
                key += " #%d" % keys_seen[key]
            if (rr, ra) == ("decl", "type_decl"):
                # reviewed exception: reachable only if a non-elementary symbol still has a class_modification
                ok = _cleared_after_build(ctx, R)
                rep.ob(R, TREE + ":" + fname, key, ok,
                       "this site appends the type's own (inner) modifications AFTER the component's (outer) ones; it is dead "
                       "only while build_instance_tree sets sym.class_modification = None for every non-elementary symbol")
                continue
            rep.ob(R, TREE + ":" + fname, key, (rr, ra) in ALLOWED,
                   "receiver role %s, argument role %s: the inner list must receive the outer one (allowed: %s); reversed roles make "
                   "the declaration override the enclosing modification" % (rr, ra, sorted(ALLOWED)))
    # caller env after the extends loop
    fn = ctx.func(TREE, "flatten_extends", R)
    own = fn.args.args[0].arg
    idx_loop = [i for i, st in enumerate(fn.body) if isinstance(st, ast.For) and norm(st.iter) == own + ".extends"]
    idx_env = [i for i, st in enumerate(fn.body) if "modification_environment.arguments" in norm(st) and isinstance(st, ast.If)
               and norm(st.test).startswith("modification_environment is not None")]
    rep.ob(R, TREE + ":flatten_extends", "caller env after extends", bool(idx_loop and idx_env and idx_env[0] > idx_loop[-1]),
           "all extends clauses are handled before the caller's modifications are appended (spec: extends modifications are inner)")
    # within the loop: base env merged after the recursive call, whose own env argument is the extends clause's modification
    rec = [c for c in calls(fn) if is_name(c.func, "flatten_extends")]
    ok = bool(rec) and all(len(c.args) >= 2 and norm(c.args[1]).endswith(".class_modification") for c in rec)
    rep.ob(R, TREE + ":flatten_extends", "extends clause env passed to base", ok,
           "the base class is flattened with the extends clause's class_modification as its (outer) environment")
    if n < 5:
        raise MechanismMissing(R, "fewer than 5 modification merge sites found")


def _symbol_loop(fn):
    """(key var, value var, loop) of `for k, v in <instance>.symbols.items()` in build_instance_tree"""
    for n in walk_local(fn):
        if isinstance(n, ast.For) and isinstance(n.target, ast.Tuple) and len(n.target.elts) == 2 and all(isinstance(e, ast.Name) for e in n.target.elts) \
                and norm(n.iter).endswith(".symbols.items()") and any(is_name(c.func, fn.name) for c in calls(n)):
            return n.target.elts[0].id, n.target.elts[1].id, n
    return None, None, None


def _in_try(node) -> bool:
    """the main symbol-descent site (wrapped in try/except that re-raises with the symbol's name)"""
    p = getattr(node, "_parent", None)
    while p is not None:
        if isinstance(p, ast.Try) and node in [x for b in p.body for x in ast.walk(b)]:
            return True
        p = getattr(p, "_parent", None)
    return False


def _cleared_after_build(ctx, R) -> bool:
    fn = ctx.func(TREE, "build_instance_tree", R)
    cfg = CFG(fn, R)
    _k, sym, _lp = _symbol_loop(fn)
    if sym is None:
        return False
    builds = [x for x in cfg.stmts() if isinstance(x.ast, ast.Assign) and norm(x.ast.targets[0]) == sym + ".type"
              and isinstance(x.ast.value, ast.Call) and is_name(x.ast.value.func, "build_instance_tree")
              and (sym + ".class_modification") in norm(x.ast.value)
              and _in_try(x.ast)]
    clears = {x.id for x in cfg.stmts() if norm(x.ast) == sym + ".class_modification = None"}
    if not builds or not clears:
        return False
    for b in builds:
        # every normal path from the build to the next loop iteration / exit passes the clearing statement
        iters = [x.id for x in cfg.nodes if x.kind == "iter"]
        for tgt in iters + [cfg.exit]:
            if tgt in cfg.reachable(b.id) and cfg.must_pass(b.id, tgt, clears) is not None:
                # allowed: paths through handlers that re-raise
                w = cfg.must_pass(b.id, tgt, clears)
                if not any(nd.kind == "handler" for nd in w):
                    return False
    return True


def _argument_lists(fn):
    """locals holding a selection of modification arguments: list comprehensions over `<...>.arguments`"""
    out = set()
    for n in walk_local(fn):
        if isinstance(n, ast.Assign) and isinstance(n.targets[0], ast.Name) and isinstance(n.value, ast.ListComp) \
                and norm(n.value.generators[0].iter).endswith(".arguments"):
            out.add(n.targets[0].id)
    return out


def _enclosing_arg_loop(node, fn):
    """innermost enclosing `for <v> in <selection of modification arguments>` loop variable"""
    p = getattr(node, "_parent", None)
    while p is not None and p is not fn:
        if isinstance(p, ast.For) and isinstance(p.target, ast.Name) and isinstance(p.iter, ast.Name) and p.iter.id in _argument_lists(fn):
            return p.target.id
        p = getattr(p, "_parent", None)
    return None


def _scope_source(fn, st):
    """expression the freshly built ClassModificationArgument's scope is set from (kwarg or `v.scope = E` in the same block)"""
    call = st.value
    for k in call.keywords:
        if k.arg == "scope":
            return k.value
    v = st.targets[0].id
    from ..pyutil import stmt_list_of

    block = stmt_list_of(st) or []
    for s2 in block[block.index(st) + 1:]:
        if isinstance(s2, ast.Assign) and norm(s2.targets[0]) == v + ".scope":
            return s2.value
        if ".append(%s)" % v in norm(s2) or (isinstance(s2, ast.Return) and is_name(s2.value, v)):
            break
    return None


@SPEC.rule(
    "R08.2",
    "scope propagation: every ClassModificationArgument built in tree.py from an existing argument gets that "
    "argument's scope — directly (`v.scope = arg.scope`) or through a helper parameter that every call site fills with "
    "`arg.scope`; arguments without scope get the enclosing instance class as scope before they are passed down",
)
def r08_2(ctx, rep):
    R = "R08.2"
    mod = ctx.module(TREE, R)
    fn = ctx.func(TREE, "build_instance_tree", R)
    site = TREE + ":build_instance_tree"
    n = 0
    funcs = [f for f in mod.body if isinstance(f, ast.FunctionDef)]
    for f in funcs:
        for st in walk_local(f):
            if isinstance(st, ast.Assign) and isinstance(st.value, ast.Call) and (call_name(st.value) or "").endswith("ClassModificationArgument") \
                    and isinstance(st.targets[0], ast.Name):
                src = _scope_source(f, st)
                loopvar = _enclosing_arg_loop(st, f)
                params = [a.arg for a in f.args.args]
                fsite = TREE + ":" + f.name
                if loopvar is not None:
                    n += 1
                    rep.ob(R, fsite, "derived argument #%d" % n, src is not None and norm(src) == loopvar + ".scope",
                           "a value modification re-wrapped as `value=` argument must keep the scope of the argument it came from "
                           "(scope = %s.scope); found %s — otherwise its expression is resolved in the wrong class" % (loopvar, norm(src) if src is not None else "no scope"))
                elif src is not None and isinstance(src, ast.Name) and src.id in params:
                    # helper: every call site must pass <loop argument>.scope for that parameter
                    idx = params.index(src.id)
                    for g in funcs:
                        for c in calls(g):
                            if is_name(c.func, f.name):
                                n += 1
                                val = c.args[idx] if idx < len(c.args) else next((k.value for k in c.keywords if k.arg == src.id), None)
                                lv = _enclosing_arg_loop(c, g)
                                ok = val is not None and lv is not None and norm(val) == lv + ".scope"
                                rep.ob(R, TREE + ":" + g.name, "call %s #%d" % (f.name, n), ok,
                                       "%s() builds a modification argument whose scope is its parameter `%s`; this call passes %s instead of "
                                       "%s.scope: the modification expression is resolved in the wrong class"
                                       % (f.name, src.id, norm(val) if val is not None else "nothing (default)", lv or "<argument>"))
                elif f.name in ("build_instance_tree",) or any(is_name(c.func, f.name) for g in funcs for c in calls(g) if g.name == "build_instance_tree"):
                    n += 1
                    rep.ob(R, fsite, "derived argument #%d" % n, False, "a ClassModificationArgument is built without taking over any scope")
    # arguments unwrapped from a nested class modification `x(start = p)` keep the scope of the argument they were nested in
    from ..pyutil import stmt_list_of
    env = _env_of(fn)
    # ... for modifications that end up on a SYMBOL (the receiver is later stored in / merged into <symbol>.class_modification).  A list that is
    # handed to the recursive build_instance_tree of a nested class is an environment again and is taken apart by this same code one level down.
    def _feeds_symbol(recv):
        r = norm(recv).split(".")[0]
        for x in ast.walk(fn):
            if isinstance(x, ast.Assign) and norm(x.targets[0]).endswith(".class_modification") and norm(x.value) == r:
                return True
            if isinstance(x, ast.Call) and isinstance(x.func, ast.Attribute) and x.func.attr in ("extend", "append") and norm(x.func.value).endswith(".class_modification.arguments") \
                    and x.args and norm(x.args[0]).split(".")[0] == r:
                return True
        return False

    for recv, argx, node in _merge_sites(fn):
        if _role(recv, env) == "from_env" and _role(argx, env) == "env_part" and isinstance(argx, ast.Attribute) and isinstance(argx.value, ast.Name) and _feeds_symbol(recv):
            el = argx.value.id
            lv = _enclosing_arg_loop(node, fn)
            st = node
            while st is not None and not isinstance(st, ast.stmt):
                st = getattr(st, "_parent", None)
            block = stmt_list_of(st) or []
            before = block[:block.index(st)] if st in block else []
            ok = False
            for b in before:
                if isinstance(b, ast.For) and norm(b.iter) == "%s.arguments" % el and isinstance(b.target, ast.Name):
                    for a in ast.walk(b):
                        if isinstance(a, ast.Assign) and norm(a.targets[0]) == b.target.id + ".scope" and lv is not None and norm(a.value) == lv + ".scope":
                            ok = True
            n += 1
            rep.ob(R, site, "unwrapped nested arguments #%d" % n, ok,
                   "`%s` moves the arguments of a nested modification such as x(start = p) to the symbol without giving them the scope of "
                   "the argument they were written in (%s.scope): p is then looked up inside the component instead of where the "
                   "modification was written, and the nested spelling differs from the dotted one" % (norm(node)[:70], lv or "<argument>"))
    cfg = CFG(fn, R)
    _k, sym, _lp = _symbol_loop(fn)
    inst = _env_of(fn).get("instance")
    if sym is None or inst is None:
        raise MechanismMissing(R, "symbol loop / instance class of build_instance_tree not found")
    guard_loop = [x for x in cfg.nodes if x.kind == "iter" and norm(x.ast.iter) == sym + ".class_modification.arguments" and isinstance(x.ast.target, ast.Name)]
    lvs = {x.ast.target.id for x in guard_loop}
    setters = {x.id: x.ast.targets[0].value.id for x in cfg.stmts() if isinstance(x.ast, ast.Assign) and isinstance(x.ast.targets[0], ast.Attribute)
               and x.ast.targets[0].attr == "scope" and isinstance(x.ast.targets[0].value, ast.Name) and x.ast.targets[0].value.id in lvs
               and any(is_name(y, inst) for y in ast.walk(x.ast.value))}
    builds = [x for x in cfg.stmts() if isinstance(x.ast, ast.Assign) and isinstance(x.ast.value, ast.Call)
              and is_name(x.ast.value.func, "build_instance_tree") and (sym + ".class_modification") in norm(x.ast.value)
              and _in_try(x.ast)]
    ok = bool(setters) and bool(builds)
    for b in builds:
        ok = ok and any(g.id in cfg.dominators()[b.id] for g in guard_loop)
    # the setter must be under `if <arg>.scope is None`
    for s_, lv in setters.items():
        g = cfg.dominated_by(s_, lambda x: x.kind == "assume" and x.taken and norm(x.ast) == lv + ".scope is None")
        ok = ok and bool(g)
    n += 1
    rep.ob(R, site, "unscoped arguments scoped before descent", ok,
           "before a symbol's modifications are handed to its type's instance tree every argument without scope must get the "
           "current instance class as scope")
    if n < 3:
        raise MechanismMissing(R, "fewer than 3 scope-propagation instances found")


@SPEC.rule(
    "R08.3",
    "dotted path consumed or rejected: wherever build_instance_tree selects symbol modifications by their first name "
    "(x.value.component.name == <symbol>), the branch processing the selection must look at component.child — strip "
    "one level or raise — so that `a.x.start = 1` cannot silently become `a = 1`",
)
def r08_3(ctx, rep):
    R = "R08.3"
    fn = ctx.func(TREE, "build_instance_tree", R)
    site = TREE + ":build_instance_tree"
    selectors = {}
    symkey, _sym, _lp = _symbol_loop(fn)
    if symkey is None:
        raise MechanismMissing(R, "symbol loop of build_instance_tree not found")
    for n in walk_local(fn):
        if isinstance(n, ast.Assign) and isinstance(n.targets[0], ast.Name) and isinstance(n.value, ast.ListComp):
            # symbol selectors compare the first name with the key of the symbol loop (the nested-class selector compares
            # with a class name: every dotted input there ends in an exception further down (DESIGN C08), not armed)
            if any(isinstance(c, ast.Compare) and norm(c.left).endswith(".value.component.name") and is_name(c.comparators[0], symkey) for c in ast.walk(n.value)):
                selectors.setdefault(n.targets[0].id, []).append(n)
    inst = 0
    for loop in walk_local(fn):
        if isinstance(loop, ast.For) and isinstance(loop.iter, ast.Name) and loop.iter.id in selectors and isinstance(loop.target, ast.Name):
            # which branch of the symbol dispatch are we in?
            where = "non-elementary"
            p = getattr(loop, "_parent", None)
            while p is not None and p is not fn:
                if isinstance(p, ast.ExceptHandler):
                    where = "elementary"
                p = getattr(p, "_parent", None)
            # every path through the loop body must look at component.child (strip one level, or test and raise)
            cfg = CFG(ast.Module(body=[loop], type_ignores=[]), R)
            it = [x for x in cfg.nodes if x.kind == "iter" and x.ast is loop][0]
            entry = [s_ for s_ in cfg.succ[it.id] if cfg.nodes[s_].kind == "assume" and cfg.nodes[s_].taken][0]

            def reads_child(x):
                if x.kind not in ("stmt", "test") or isinstance(x.ast, (ast.FunctionDef, ast.ClassDef)):
                    return False
                return any(isinstance(y, ast.Attribute) and y.attr == "child" and norm(y.value).endswith(".component") for y in ast.walk(x.ast))

            through = {x.id for x in cfg.nodes if reads_child(x)}
            w = cfg.path(entry, it.id, avoid=through - {it.id})
            inst += 1
            rep.ob(R, site, "selector loop (%s symbols)" % where, w is None,
                   "modifications selected by their first name are processed on some path without looking at component.child: a dotted "
                   "modification such as x.start = 5 is applied as if it were x = 5", path=cfg.describe(w) if w else "")
    if inst < 2:
        raise MechanismMissing(R, "fewer than 2 symbol-selector loops found")


def _negation(a, b) -> bool:
    """syntactic complement of two atomic tests"""
    if isinstance(a, ast.Compare) and isinstance(b, ast.Compare) and len(a.ops) == 1 and len(b.ops) == 1:
        same = norm(a.left) == norm(b.left) and norm(a.comparators[0]) == norm(b.comparators[0])
        pairs = {(ast.Is, ast.IsNot), (ast.IsNot, ast.Is), (ast.Eq, ast.NotEq), (ast.NotEq, ast.Eq), (ast.In, ast.NotIn), (ast.NotIn, ast.In)}
        return same and (type(a.ops[0]), type(b.ops[0])) in pairs
    return False


@SPEC.rule(
    "R08.4",
    "applier totality: modify_symbol partitions the arguments into applied and kept by complementary predicates, "
    "applies with setattr(sym, <attribute name>, <first modification>) after checking the name against "
    "Symbol.ATTRIBUTES, and keeps exactly the skipped ones",
)
def r08_4(ctx, rep):
    R = "R08.4"
    fn = ctx.func(TREE, "modify_symbol", R)
    site = TREE + ":modify_symbol"
    comps = {}
    for n in walk_local(fn):
        if isinstance(n, ast.Assign) and isinstance(n.targets[0], ast.Name) and isinstance(n.value, ast.ListComp):
            g = n.value.generators[0]
            if norm(g.iter).endswith(".class_modification.arguments") and len(g.ifs) == 1:
                comps[n.targets[0].id] = g.ifs[0]
    ok = False
    if len(comps) == 2:
        (n1, p1), (n2, p2) = list(comps.items())
        for a, b in ((p1, p2), (p2, p1)):
            if isinstance(a, ast.BoolOp) and isinstance(a.op, ast.Or) and isinstance(b, ast.BoolOp) and isinstance(b.op, ast.And) \
                    and len(a.values) == len(b.values):
                ok = all(_negation(x, y) for x, y in zip(a.values, b.values))
    # the same partition in one pass: `for x in <arguments>: if P(x): applied.append(x) else: kept.append(x)` — complementary by construction
    one_pass = None
    for lp in walk_local(fn):
        if isinstance(lp, ast.For) and norm(lp.iter).endswith(".class_modification.arguments") and isinstance(lp.target, ast.Name) and len(lp.body) == 1 \
                and isinstance(lp.body[0], ast.If) and len(lp.body[0].body) == 1 and len(lp.body[0].orelse) == 1:
            br = lp.body[0]

            def _appended(st, v=lp.target.id):
                c = st.value if isinstance(st, ast.Expr) else None
                if isinstance(c, ast.Call) and isinstance(c.func, ast.Attribute) and c.func.attr == "append" and isinstance(c.func.value, ast.Name) \
                        and len(c.args) == 1 and is_name(c.args[0], v):
                    return c.func.value.id
                return None

            a, b = _appended(br.body[0]), _appended(br.orelse[0])
            t = br.test
            if a and b and a != b and isinstance(t, ast.BoolOp):
                # which side is `scope is None or scope == current` (applied) and which its negation (kept)
                applied, kept = (a, b) if isinstance(t.op, ast.Or) else (b, a)
                shape = {type(o).__name__ for v_ in t.values if isinstance(v_, ast.Compare) for o in v_.ops}
                want = {"Is", "Eq"} if isinstance(t.op, ast.Or) else {"IsNot", "NotEq"}
                if shape == want and len(t.values) == 2:
                    one_pass = (applied, kept)
    if one_pass:
        ok = True
        comps = {one_pass[0]: ast.BoolOp(op=ast.Or(), values=[]), one_pass[1]: ast.BoolOp(op=ast.And(), values=[])}
    rep.ob(R, site, "apply/skip partition", ok,
           "the applied and the kept arguments must be selected by complementary predicates (scope is None or == current) vs "
           "(scope is not None and != current); otherwise a modification is lost or applied twice")
    sets = [c for c in calls(fn) if is_name(c.func, "setattr")]
    ok = len(sets) == 1 and len(sets[0].args) == 3 and norm(sets[0].args[1]).endswith(".component.name") and norm(sets[0].args[2]).endswith(".modifications[0]")
    rep.ob(R, site, "setattr(sym, name, value)", ok, "the attribute named by the modification receives its (first) value")
    guard = any(isinstance(n, ast.If) and "not in ast.Symbol.ATTRIBUTES" in norm(n.test) and any(isinstance(x, ast.Raise) for x in ast.walk(n))
                for n in walk_local(fn))
    rep.ob(R, site, "unknown attribute rejected", guard, "a modification of a name that is not a Symbol attribute must raise")
    keep = any(isinstance(n, ast.Assign) and norm(n.targets[0]).endswith(".class_modification.arguments") and isinstance(n.value, ast.Name)
               and n.value.id in comps and isinstance(comps[n.value.id], ast.BoolOp) and isinstance(comps[n.value.id].op, ast.And)
               for n in walk_local(fn))
    rep.ob(R, site, "kept arguments stored back", keep, "after applying, the symbol keeps exactly the arguments of other scopes")


@SPEC.rule(
    "R08.5",
    "built-in-ness is read from the flattened base: in flatten_extends the test `<base>.type == \"__builtin\"` (which "
    "decides whether the modifications are redirected to the value symbol) is dominated by `<base> = "
    "flatten_extends(<base>, ...)` — a type derived in two steps (type T2 = T; type T = Real(..)) is built-in only "
    "after its own extends clause was flattened, otherwise modifications on T2 components are silently dropped",
)
def r08_5(ctx, rep):
    R = "R08.5"
    fn = ctx.func(TREE, "flatten_extends", R)
    cfg = CFG(fn, R)
    site = TREE + ":flatten_extends"
    bases = _env_of(fn)["bases"]
    if not bases:
        raise MechanismMissing(R, "recursive flatten_extends(<base>, ...) not found")
    n = 0
    for x in cfg.nodes:
        if x.kind != "test":
            continue
        for c in ast.walk(x.ast):
            if isinstance(c, ast.Compare) and isinstance(c.left, ast.Attribute) and c.left.attr == "type" and isinstance(c.left.value, ast.Name) \
                    and c.left.value.id in bases and any(isinstance(k, ast.Constant) and k.value == "__builtin" for k in c.comparators):
                n += 1
                b = c.left.value.id
                flat = {y.id for y in cfg.stmts() if isinstance(y.ast, ast.Assign) and is_name(y.ast.targets[0], b) and isinstance(y.ast.value, ast.Call)
                        and is_name(y.ast.value.func, "flatten_extends")}
                ok = bool(flat & cfg.dominators()[x.id])
                rep.ob(R, site, "built-in test #%d on the flattened base" % n, ok,
                       "`%s` is evaluated before %s was flattened: for `type T2 = T; type T = Real(...)` the direct parent T is not "
                       "built-in yet, T2's modification environment is not moved to its value symbol and `T2 y(start = 3)` keeps start 0" % (norm(c), b))
    if n < 1:
        raise MechanismMissing(R, "no `<base>.type == \"__builtin\"` test left in flatten_extends")


PARSER = "src/pymoca/parser.py"


@SPEC.rule(
    "R08.6",
    "a declaration's `= expr` takes part in the merge like any other modification: on every path through the value branch of "
    "ASTListener.exitDeclaration the `value` argument built from it is appended to the symbol's class modification (a fresh one "
    "is attached to the symbol), and nowhere in the parser is a modifiable attribute (value, start, min, ...) of a Symbol "
    "assigned directly — a value written past the modification list is not overridden by an outer `(x = ...)` and wins regardless of nesting",
)
def r08_6(ctx, rep):
    R = "R08.6"
    fn = ctx.methods(PARSER, "ASTListener", R).get("exitDeclaration")
    if fn is None:
        raise MechanismMissing(R, "ASTListener.exitDeclaration not found")
    site = PARSER + ":ASTListener.exitDeclaration"
    cfg = CFG(fn, R)
    allocs = [x for x in cfg.stmts() if isinstance(x.ast, ast.Assign) and isinstance(x.ast.value, ast.Call)
              and (call_name(x.ast.value) or "").endswith("ClassModificationArgument") and isinstance(x.ast.targets[0], ast.Name)]
    if not allocs:
        raise MechanismMissing(R, "exitDeclaration no longer wraps the declared value into a ClassModificationArgument")
    for al in allocs:
        v = al.ast.targets[0].id
        apps = [x for x in cfg.stmts() if any(isinstance(c.func, ast.Attribute) and c.func.attr in ("append", "insert") and norm(c.func.value).endswith(".arguments")
                                                 and any(norm(a) == v for a in c.args) for c in calls(x.ast))]
        # ... or the argument list is given to the constructor: `<symbol>.class_modification = ClassModification(arguments=[v])`
        for x in cfg.stmts():
            if isinstance(x.ast, ast.Assign) and isinstance(x.ast.value, ast.Call) and (call_name(x.ast.value) or "").endswith("ClassModification") \
                    and any(k.arg == "arguments" and isinstance(k.value, ast.List) and any(norm(e) == v for e in k.value.elts) for k in x.ast.value.keywords):
                tgt = x.ast.targets[0]
                if norm(tgt).endswith(".class_modification"):
                    apps.append(x)
                elif isinstance(tgt, ast.Name):
                    attach = [y for y in cfg.stmts() if isinstance(y.ast, ast.Assign) and norm(y.ast.value) == tgt.id and norm(y.ast.targets[0]).endswith(".class_modification")]
                    if attach and cfg.must_pass(x.id, cfg.exit, {y.id for y in attach}) is None:
                        apps.append(x)
        bad = cfg.must_pass(al.id, cfg.exit, {x.id for x in apps}) if apps else [al.id]
        rep.ob(R, site, "the value argument reaches the symbol's modification list on every path", bad is None,
               "after `%s` a path leaves the declaration without appending it to <symbol>.class_modification.arguments: the declared value "
               "bypasses apply_symbol_modifications and its ordering against outer modifications" % norm(al.ast)[:60],
               path=cfg.describe(bad) if bad and apps else "")
        # a fresh list must be attached to the symbol
        for x in apps:
            for c in calls(x.ast):
                if isinstance(c.func, ast.Attribute) and norm(c.func.value).endswith(".arguments") and isinstance(c.func.value.value, ast.Name):
                    holder = c.func.value.value.id
                    attach = [y for y in cfg.stmts() if isinstance(y.ast, ast.Assign) and norm(y.ast.value) == holder
                              and norm(y.ast.targets[0]).endswith(".class_modification")]
                    ok = bool(attach) and cfg.must_pass(x.id, cfg.exit, {y.id for y in attach}) is None
                    rep.ob(R, site, "the fresh modification list `%s` is attached to the symbol" % holder, ok,
                           "`%s` receives the value argument but is not stored in <symbol>.class_modification on every path" % holder)
        # the wrapped argument is named `value`
        named = any(isinstance(n, ast.Call) and (call_name(n) or "").endswith("ComponentRef") and any(k.arg == "name" and isinstance(k.value, ast.Constant) and k.value.value == "value" for k in n.keywords)
                    for n in ast.walk(fn))
        rep.ob(R, site, "the argument addresses the `value` attribute", named, "the wrapping ElementModification no longer names the component `value`")
    # no direct writes of modifiable attributes on symbols anywhere in the listener
    attrs = {"value"}
    for st in ctx.cls("src/pymoca/ast.py", "Symbol", R).body:
        if isinstance(st, ast.Assign) and norm(st.targets[0]) == "ATTRIBUTES":
            attrs |= {x.value for x in ast.walk(st.value) if isinstance(x, ast.Constant) and isinstance(x.value, str)}
    n_sym = 0
    direct = []
    for name, m in ctx.methods(PARSER, "ASTListener", R).items():
        syms = set()
        for n in walk_local(m):
            if isinstance(n, ast.Assign) and len(n.targets) == 1 and isinstance(n.targets[0], ast.Name) and (
                    norm(n.value) == "self.symbol_node" or (isinstance(n.value, ast.Call) and (call_name(n.value) or "").endswith("Symbol"))):
                syms.add(n.targets[0].id)
        syms.add("self.symbol_node")
        n_sym += len(syms) - 1
        for n in walk_local(m):
            if isinstance(n, (ast.Assign, ast.AugAssign)):
                for t in (n.targets if isinstance(n, ast.Assign) else [n.target]):
                    if isinstance(t, ast.Attribute) and t.attr in attrs and norm(t.value) in syms:
                        direct.append("%s (line %d): %s" % (name, n.lineno, norm(n)[:60]))
            elif isinstance(n, ast.Call) and is_name(n.func, "setattr") and n.args and norm(n.args[0]) in syms:
                direct.append("%s (line %d): %s" % (name, n.lineno, norm(n)[:60]))
    if n_sym < 2:
        raise MechanismMissing(R, "fewer than two symbol-typed locals found in ASTListener (type resolution of `sym` broke)")
    rep.ob(R, PARSER + ":ASTListener", "no modifiable symbol attribute is assigned directly by the parser", not direct,
           "; ".join(direct[:4]) + " — the attribute is set before any modification is applied and no modification list knows about it")


@SPEC.rule(
    "R08.7",
    "nothing written on a declaration is thrown away while the environment is handed down: in build_instance_tree a symbol's own "
    "class_modification.arguments list is only appended to / extended, never reassigned, filtered or emptied — `Sub s(x(start=1, min=0))` "
    "with an outer `s.x.start = 2` still carries min=0 (precedence is decided later, attribute by attribute, by the order of application)",
)
def r08_7(ctx, rep):
    R = "R08.7"
    fn = ctx.func(TREE, "build_instance_tree", R)
    site = TREE + ":build_instance_tree"
    bad = []
    n = 0
    for x in walk_local(fn):
        if isinstance(x, ast.Call) and isinstance(x.func, ast.Attribute) and norm(x.func.value).endswith(".class_modification.arguments"):
            n += 1
            if x.func.attr in ("remove", "pop", "clear", "__delitem__"):
                bad.append("line %d: %s" % (x.lineno, norm(x)[:70]))
        if isinstance(x, (ast.Assign, ast.AugAssign, ast.Delete)):
            tgts = x.targets if isinstance(x, (ast.Assign, ast.Delete)) else [x.target]
            for t in tgts:
                base = t.value if isinstance(t, ast.Subscript) else t
                if norm(base).endswith(".class_modification.arguments") and not (isinstance(x, ast.AugAssign) and isinstance(x.op, ast.Add)):
                    bad.append("line %d: %s" % (x.lineno, norm(x)[:70]))
    if n < 2:
        raise MechanismMissing(R, "build_instance_tree no longer extends symbols' class_modification.arguments")
    rep.ob(R, site, "declaration modifications are only added to", not bad,
           "%s — arguments written on the declaration are dropped before they were applied; attributes they set that the outer modification "
           "does not mention fall back to the type's own values" % "; ".join(bad[:3]))


@SPEC.rule(
    "R08.8",
    "every part of a modification is handed on: the loops of build_instance_tree that walk an argument's element modifications or a "
    "modification's arguments (`for el in arg.value.modifications`, `for a in <x>.arguments`) are not left early — no `break` (and no "
    "`return` of a helper inlined there) of their own: `c(y(start = 5) = 7)` carries the attribute and the value in ONE element list, and a "
    "loop that stops after the first element drops the value",
)
def r08_8(ctx, rep):
    R = "R08.8"
    fn = ctx.func(TREE, "build_instance_tree", R)
    site = TREE + ":build_instance_tree"
    n = 0
    for lp in walk_local(fn):
        if not (isinstance(lp, ast.For) and (norm(lp.iter).endswith(".modifications") or norm(lp.iter).endswith(".arguments"))):
            continue
        n += 1
        early = []

        def own(node, top):
            for ch in ast.iter_child_nodes(node):
                if isinstance(ch, (ast.For, ast.While, ast.FunctionDef, ast.Lambda)) and ch is not top:
                    continue
                if isinstance(ch, (ast.Break, ast.Return)):
                    early.append(ch)
                own(ch, top)

        own(lp, lp)
        rep.ob(R, site, "loop over `%s` visits every element" % norm(lp.iter)[:50], not early,
               "the loop is left with `%s`: the elements after that point (a value next to nested attributes, a second attribute) are not "
               "turned into modifications of the symbol" % ("break" if early and isinstance(early[0], ast.Break) else "return"))
    if n < 3:
        raise MechanismMissing(R, "fewer than 3 loops over modification lists found in build_instance_tree")


@SPEC.rule(
    "R08.9",
    "no modification is dropped silently: in build_instance_tree every iteration of the loop that sorts a component's arguments into the "
    "component's own modification either adds something to that modification (append / extend, or the walk over the argument's element "
    "list) or raises — a dispatch without a final branch lets the nested spelling `b(a(x(nominal = k)))` fall through and flatten to a "
    "different model than `b(a.x.nominal = k)`",
)
def r08_9(ctx, rep):
    from ..cfg import CFG, iteration_skips
    R = "R08.9"
    fn = ctx.func(TREE, "build_instance_tree", R)
    site = TREE + ":build_instance_tree"
    cfg = CFG(fn, R)
    n = 0
    for lp in walk_local(fn):
        if not (isinstance(lp, ast.For) and isinstance(lp.target, ast.Name)):
            continue
        v = lp.target.id
        adds_arg = any(isinstance(c.func, ast.Attribute) and c.func.attr == "append" and norm(c.func.value).endswith(".arguments") and c.args and is_name(c.args[0], v)
                       for st in lp.body for c in calls(st))
        branches = any(isinstance(st, ast.If) for st in lp.body)
        if not adds_arg or not branches:
            continue
        n += 1

        def handled(x, v=v):
            if x.kind == "iter" and x.ast is not lp and v in {y.id for y in ast.walk(x.ast.iter) if isinstance(y, ast.Name)}:
                return True
            return x.kind == "stmt" and any(isinstance(c.func, ast.Attribute) and c.func.attr in ("append", "extend") and norm(c.func.value).endswith(".arguments")
                                            for c in calls(x.ast))

        w = iteration_skips(cfg, lp, handled)
        rep.ob(R, site, "every argument of `for %s in %s` is sorted somewhere" % (v, norm(lp.iter)[:40]), w is None,
               "an iteration can end without the argument having been added to any modification and without an error: the modification the "
               "user wrote has no effect", path=cfg.describe(w) if w else "")
    if n < 1:
        raise MechanismMissing(R, "the dispatch loop over a component's modification arguments was not found in build_instance_tree")


@SPEC.rule(
    "R08.10",
    "what is collected for one element is not handed to the next: every ClassModification that build_instance_tree fills inside a loop "
    "(`<m>.arguments.append/extend`) is created inside that loop's body — an accumulator created once in front of the loop over the local "
    "classes still holds `Voltage(nominal = 1000)` when `Current` is instantiated",
)
def r08_10(ctx, rep):
    R = "R08.10"
    fn = ctx.func(TREE, "build_instance_tree", R)
    site = TREE + ":build_instance_tree"
    fresh = {}
    for st in walk_local(fn):
        if isinstance(st, ast.Assign) and isinstance(st.targets[0], ast.Name) and isinstance(st.value, ast.Call) and (call_name(st.value) or "").endswith("ClassModification") \
                and not st.value.args:
            fresh.setdefault(st.targets[0].id, []).append(st)
    n = 0
    for lp in walk_local(fn):
        if not isinstance(lp, ast.For):
            continue
        inside = {id(x) for b in lp.body for x in ast.walk(b)}
        filled = {c.func.value.value.id for b in lp.body for c in calls(b) if isinstance(c.func, ast.Attribute) and c.func.attr in ("append", "extend")
                  and isinstance(c.func.value, ast.Attribute) and c.func.value.attr == "arguments" and isinstance(c.func.value.value, ast.Name)}
        for v in sorted(filled & set(fresh)):
            # only the outermost loop that fills v matters: an inner loop fills what its enclosing iteration created
            outer_fills = [o for o in walk_local(fn) if isinstance(o, ast.For) and o is not lp and id(lp) in {id(x) for b in o.body for x in ast.walk(b)}
                           and any(id(d) in {id(x) for b in o.body for x in ast.walk(b)} for d in fresh[v])]
            if outer_fills:
                continue
            n += 1
            ok = all(id(d) in inside for d in fresh[v])
            rep.ob(R, site, "`%s` filled in `for %s in ...` is created per iteration" % (v, norm(lp.target)[:30]), ok,
                   "`%s = ast.ClassModification()` (line %d) is outside the loop that fills it: the arguments gathered for one element are "
                   "still in it when the next element is handled" % (v, fresh[v][0].lineno))
    if n < 2:
        raise MechanismMissing(R, "fewer than 2 per-element modification accumulators found in build_instance_tree")


@SPEC.rule(
    "R08.11",
    "every symbol's own expressions are resolved at its own level: each iteration of the loop of flatten_symbols that rewrites the references "
    "inside the symbol definitions passes flatten_component_refs — a symbol skipped because a modification from an enclosing scope is still "
    "pending has `start = k` resolved one level too high (to the enclosing class's k)",
)
def r08_11(ctx, rep):
    from ..cfg import CFG, iteration_skips
    R = "R08.11"
    fn = ctx.func(TREE, "flatten_symbols", R)
    site = TREE + ":flatten_symbols"
    cfg = CFG(fn, R)
    loops = [lp for lp in walk_local(fn) if isinstance(lp, ast.For) and any(is_name(c.func, "flatten_component_refs") for b in lp.body for c in calls(b))
             and not any(isinstance(x, ast.For) and any(is_name(c.func, "flatten_component_refs") for b in x.body for c in calls(b)) for b in lp.body for x in ast.walk(b))]
    if not loops:
        raise MechanismMissing(R, "the loop of flatten_symbols that calls flatten_component_refs was not found")
    for lp in loops:
        w = iteration_skips(cfg, lp, lambda x: x.kind == "stmt" and any(is_name(c.func, "flatten_component_refs") for c in calls(x.ast)))
        rep.ob(R, site, "every symbol of `for %s in %s` has its references resolved" % (norm(lp.target)[:30], norm(lp.iter)[:40]), w is None,
               "an iteration can end without flatten_component_refs: the names in that symbol's declaration stay relative to its own class and are "
               "bound, later, in an enclosing one", path=cfg.describe(w) if w else "")


# -- seeded variants ---------------------------------------------------------
from ._mut import delete_stmt_where, replace_in_func  # noqa: E402


@SPEC.mutant("outer merged before inner", TREE, "R08.1", "sym_mod.arguments <-")
def _m1(mod):
    def edit(fn):
        for n in ast.walk(fn):
            if isinstance(n, ast.Expr) and norm(n) == "sym.class_modification.arguments.extend(sym_mod.arguments)":
                n.value = ast.parse("sym_mod.arguments.extend(sym.class_modification.arguments)", mode="eval").body
                return True
        return False

    return mod if replace_in_func(mod, "build_instance_tree", edit) else None


@SPEC.mutant("caller env before extends", TREE, "R08.1", "caller env after extends")
def _m2(mod):
    def edit(fn):
        idx = [i for i, st in enumerate(fn.body) if isinstance(st, ast.If) and norm(st.test).startswith("modification_environment is not None")]
        loop = [i for i, st in enumerate(fn.body) if isinstance(st, ast.For)]
        if not idx or not loop:
            return False
        st = fn.body.pop(idx[0])
        fn.body.insert(loop[0], st)
        return True

    return mod if replace_in_func(mod, "flatten_extends", edit) else None


@SPEC.mutant("derived argument loses scope", TREE, "R08.2", "derived argument")
def _m3(mod):
    return mod if delete_stmt_where(mod, "build_instance_tree", lambda st: norm(st) == "vmod_arg.scope = arg.scope") else None


@SPEC.mutant("unscoped arguments not scoped", TREE, "R08.2", "unscoped")
def _m4(mod):
    return mod if delete_stmt_where(mod, "build_instance_tree", lambda st: norm(st) == "arg.scope = extended_orig_class") else None


@SPEC.mutant("dotted path ignored for elementary symbols", TREE, "R08.3", "elementary")
def _m5(mod):
    def edit(fn):
        for n in ast.walk(fn):
            if isinstance(n, ast.If) and norm(n.test) == "arg.value.component.child":
                n.test = ast.Constant(value=False)
                return True
        return False

    return mod if replace_in_func(mod, "build_instance_tree", edit) else None


@SPEC.mutant("skip predicate not complementary", TREE, "R08.4", "partition")
def _m6(mod):
    def edit(fn):
        for n in ast.walk(fn):
            if isinstance(n, ast.BoolOp) and isinstance(n.op, ast.And) and "x.scope is not None" in norm(n):
                n.values[0] = ast.parse("x.scope is None", mode="eval").body
                return True
        return False

    return mod if replace_in_func(mod, "modify_symbol", edit) else None


@SPEC.mutant("non-elementary modification not cleared", TREE, "R08.1", "type.symbols")
def _m7(mod):
    return mod if delete_stmt_where(mod, "build_instance_tree", lambda st: norm(st) == "sym.class_modification = None") else None


@SPEC.mutant("built-in test before the base is flattened", TREE, "R08.5", "built-in test")
def _m_builtin(mod):
    def edit(fn):
        for lp in ast.walk(fn):
            if isinstance(lp, ast.For):
                idx_t = [i for i, st in enumerate(lp.body) if isinstance(st, ast.If) and "'__builtin'" in norm(st.test)]
                idx_f = [i for i, st in enumerate(lp.body) if isinstance(st, ast.Assign) and isinstance(st.value, ast.Call) and is_name(st.value.func, "flatten_extends")]
                if idx_t and idx_f and idx_f[0] < idx_t[0]:
                    st = lp.body.pop(idx_t[0])
                    lp.body.insert(idx_f[0], st)
                    return True
        return False

    return mod if replace_in_func(mod, "flatten_extends", edit) else None


@SPEC.mutant("nested arguments moved without their scope", TREE, "R08.2", "unwrapped nested arguments")
def _m_nested_scope(mod):
    def edit(fn):
        for node in ast.walk(fn):
            for fld in ("body", "orelse"):
                b = getattr(node, fld, None)
                if isinstance(b, list):
                    for i, st in enumerate(b):
                        if isinstance(st, ast.For) and norm(st.iter).endswith(".arguments") and any(
                                isinstance(a, ast.Assign) and norm(a.targets[0]).endswith(".scope") for a in ast.walk(st)) \
                                and i + 1 < len(b) and ".arguments.extend(" in norm(b[i + 1]):
                            del b[i]
                            return True
        return False

    return mod if replace_in_func(mod, "build_instance_tree", edit) else None


@SPEC.mutant("plain declared value written straight into the symbol", PARSER, "R08.6", "modification list")
def _m_declvalue(mod):
    def edit(fn):
        for n in ast.walk(fn):
            if isinstance(n, ast.If) and norm(n.test) == "sym.class_modification is None":
                n.body = ast.parse("sym.value = mod").body
                return True
        return False

    return mod if replace_in_func(mod, "ASTListener.exitDeclaration", edit) else None


@SPEC.mutant("declaration modifications of re-modified elements pruned", TREE, "R08.7", "only added to")
def _m_prune_decl(mod):
    def edit(fn):
        for n in ast.walk(fn):
            if isinstance(n, ast.If) and norm(n.test) == "sym.class_modification" and any("extend(sym_mod.arguments)" in norm(b) for b in n.body):
                n.body.insert(0, ast.parse("sym.class_modification.arguments = [x for x in sym.class_modification.arguments if x.redeclare]").body[0])
                return True
        return False

    return mod if replace_in_func(mod, "build_instance_tree", edit) else None


@SPEC.mutant("element loop stops after the first element", TREE, "R08.8", "visits every element")
def _m_first_element_only(mod):
    def edit(fn):
        for lp in ast.walk(fn):
            if isinstance(lp, ast.For) and norm(lp.iter) == "arg.value.modifications":
                lp.body.append(ast.Break())
                return True
        return False

    return mod if replace_in_func(mod, "build_instance_tree", edit) else None


@SPEC.mutant("class-modification accumulator created once for all local classes", TREE, "R08.10", "created per iteration")
def _m_hoisted_accumulator(mod):
    def edit(fn):
        for b in ast.walk(fn):
            for f_ in ("body", "orelse"):
                lst = getattr(b, f_, None)
                if isinstance(lst, list):
                    for i, lp in enumerate(lst):
                        if isinstance(lp, ast.For) and norm(lp.iter).endswith(".classes.items()"):
                            for j, st in enumerate(lp.body):
                                if isinstance(st, ast.Assign) and norm(st.value) == "ast.ClassModification()":
                                    lst.insert(i, lp.body.pop(j))
                                    return True
        return False

    return mod if replace_in_func(mod, "build_instance_tree", edit) else None
