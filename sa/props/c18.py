"""C18 — vector expansion is a faithful renaming to scalars (coverage clauses)."""
from __future__ import annotations

import ast

from ..engine import AnalysisError, MechanismMissing, PropertySpec, norm
from ..pyutil import call_name, calls, inlined, is_name, literal, walk_local
from ._simplify import MODEL, substitutions

SPEC = PropertySpec(
    "C18",
    "Vector expansion is a faithful renaming to scalars",
    decided=(
        "coverage: every variable list whose symbols are arguments of the residual functions is expanded; the "
        "(old symbol -> expanded symbols) substitution is applied to equations, initial_equations, delay_arguments "
        "and metadata; outputs and delay states are renamed; expanded names use index + 1 (Modelica is 1-based)."
    ),
    not_decided="element order within an array, attribute element correspondence (value-level).",
)

SITE = MODEL + ":Model._expand_vectors"
GEN = "src/pymoca/backends/casadi/generator.py"


def signature_lists(ctx, R):
    """Model list attributes whose symbols are inputs of dae_residual_function."""
    fn = ctx.func(MODEL, "Model.dae_residual_function", R)
    out = []
    for c in calls(fn):
        if isinstance(c.func, ast.Attribute) and c.func.attr == "_symbols" and c.args and isinstance(c.args[0], ast.Attribute) and is_name(c.args[0].value, "self"):
            if c.args[0].attr not in out:
                out.append(c.args[0].attr)
    if len(out) < 6:
        raise MechanismMissing(R, "fewer than 6 variable lists in dae_residual_function's signature")
    return out


@SPEC.rule("R18.1", "the list of variable groups expanded by _expand_vectors equals the variable lists in the residual functions' signature (6)")
def r18_1(ctx, rep):
    R = "R18.1"
    fn = ctx.func(MODEL, "Model._expand_vectors", R)
    groups = None
    loopvar = None
    for lp in walk_local(fn):
        if isinstance(lp, ast.For) and isinstance(lp.target, ast.Name):
            lit = literal(lp.iter)
            if isinstance(lit, list) and all(isinstance(x, str) for x in lit) and len(lit) >= 3:
                groups, loopvar, loop = lit, lp.target.id, lp
    if groups is None:
        raise MechanismMissing(R, "literal list of variable groups not found in _expand_vectors")
    sig = signature_lists(ctx, R)
    for g in sig:
        rep.ob(R, SITE, "group " + g, g in groups,
               "`%s` symbols are arguments of the residual functions but the list is not expanded: its arrays stay vectors while "
               "every equation is rewritten to scalars" % g)
    extra = [g for g in groups if g not in sig]
    rep.ob(R, SITE, "no foreign group", not extra, "groups %s are expanded but are not variable lists of the signature" % extra)
    reads = [st for st in loop.body if isinstance(st, ast.Assign) and isinstance(st.targets[0], ast.Name) and norm(st.value) == "getattr(self, %s)" % loopvar]
    writes = [c for st in loop.body if isinstance(st, ast.Expr) for c in [st.value] if isinstance(c, ast.Call) and is_name(c.func, "setattr")
              and len(c.args) == 3 and is_name(c.args[0], "self") and is_name(c.args[1], loopvar)]
    rep.ob(R, SITE, "read and write back the same group", bool(reads) and bool(writes),
           "each group must be read with getattr(self, group) and written back with setattr(self, group, new list)")


@SPEC.rule("R18.2", "the expansion substitution is applied to equations, initial_equations, delay_arguments and the metadata; outputs and delay states/arguments are renamed together")
def r18_2(ctx, rep):
    R = "R18.2"
    fn = ctx.func(MODEL, "Model._expand_vectors", R)
    subs = substitutions(fn.body)
    eq = [s for s in subs if s["store"] == "equations"]
    if not eq:
        raise MechanismMissing(R, "substitution of self.equations not found in _expand_vectors")
    pair = (eq[0]["symbols"], eq[0]["values"])
    for store in ("equations", "initial_equations", "delay_arguments", "metadata"):
        ok = any(s["store"] == store and (s["symbols"], s["values"]) == pair for s in subs)
        rep.ob(R, SITE, "store " + store, ok, "after expansion `%s` must be rewritten with the same (symbols, values) pair as the equations" % store)
    t = [norm(s) for s in ast.walk(fn) if isinstance(s, (ast.Expr, ast.Assign))]
    slice_store = any(isinstance(s_, ast.Assign) and isinstance(s_.targets[0], ast.Subscript) and norm(s_.targets[0].value) == "self.outputs"
                      and isinstance(s_.targets[0].slice, ast.Slice) and s_.targets[0].slice.lower is not None and s_.targets[0].slice.upper is not None
                      and norm(s_.targets[0].slice.upper) in ("%s + 1" % norm(s_.targets[0].slice.lower), "1 + %s" % norm(s_.targets[0].slice.lower))
                      and ".symbol.name()" in norm(s_.value) for s_ in ast.walk(fn))
    rep.ob(R, SITE, "outputs renamed", slice_store or (any("self.outputs.pop(" in x for x in t) and any("self.outputs.insert(" in x for x in t)),
           "an expanded output must be replaced in self.outputs by the names of its elements, at the same position")
    # ... and for every variable that is expanded, whatever its group: from the point where the elements are added to the group's new list no
    # path reaches the next variable without the look-up of the old name in self.outputs
    from ..cfg import CFG, enclosing_loops
    cfg = CFG(fn, R)
    # the list of a variable's scalar elements: what is appended to inside the np.ndindex loop
    elem_lists = {c.func.value.id for lp in ast.walk(fn) if isinstance(lp, ast.For) and "np.ndindex(" in norm(lp.iter) for c in calls(lp)
                  if isinstance(c.func, ast.Attribute) and c.func.attr == "append" and isinstance(c.func.value, ast.Name)}
    ext = [x for x in cfg.stmts() if any(isinstance(c.func, ast.Attribute) and c.func.attr == "extend" and c.args and isinstance(c.args[0], ast.Name)
                                         and c.args[0].id in elem_lists for c in calls(x.ast))]
    look = {x.id for x in cfg.stmts() if any(isinstance(c.func, ast.Attribute) and c.func.attr == "index" and norm(c.func.value) == "self.outputs" for c in calls(x.ast))}
    if not ext or not look:
        raise MechanismMissing(R, "the extension of the group's new list by the expanded elements / the look-up in self.outputs was not found")
    inner_loops = enclosing_loops(fn, ext[0].ast)
    w = None
    if inner_loops:
        head = [x for x in cfg.nodes if x.kind == "iter" and x.ast is inner_loops[-1]][0]
        w = cfg.path(ext[0].id, head.id, avoid=look)
    rep.ob(R, SITE, "outputs looked up for every expanded variable", bool(inner_loops) and w is None,
           "after a variable was expanded the next one can be reached without looking the old name up in self.outputs: an output of a group "
           "the test leaves out keeps its array name, which no variable of the expanded model has", path=cfg.describe(w) if w else "")
    pops_s = [x for x in t if "self.delay_states.pop(" in x]
    pops_a = [x for x in t if "self.delay_arguments.pop(" in x]
    app_s = [x for x in t if "self.delay_states.append(" in x]
    app_a = [x for x in t if "self.delay_arguments.append(" in x]
    same_idx = bool(pops_s and pops_a) and pops_s[0].split("pop(")[1] == pops_a[0].split("pop(")[1]
    rep.ob(R, SITE, "delay lists renamed pairwise", same_idx and len(app_s) == len(app_a) == 1,
           "delay_states and delay_arguments are parallel lists: pop the same index from both and append to both in the same loop")
    # the appended pair sits in the same loop body
    ok = False
    for lp in ast.walk(fn):
        if isinstance(lp, ast.For):
            b = [norm(s) for s in lp.body]
            if any("self.delay_states.append(" in x for x in b) and any("self.delay_arguments.append(" in x for x in b):
                ok = True
    rep.ob(R, SITE, "delay appends in one loop", ok, "one delay state and one delay argument must be appended per expanded element")


@SPEC.rule("R18.3", "1-based naming: every index inserted into an expanded name is the zero-based numpy index + 1")
def r18_3(ctx, rep):
    R = "R18.3"
    fn = ctx.func(MODEL, "Model._expand_vectors", R)
    n = 0
    # loop variables bound to a numpy multi-index: `for <v> in np.ndindex(...)`
    nd_vars = {lp.target.id for lp in ast.walk(fn) if isinstance(lp, ast.For) and isinstance(lp.target, ast.Name) and "np.ndindex(" in norm(lp.iter)}
    for c in calls(fn):
        if isinstance(c.func, ast.Attribute) and c.func.attr in ("format", "join") and c.args:
            for g in ast.walk(c):
                if isinstance(g, ast.GeneratorExp) and isinstance(g.generators[0].iter, ast.Name) and g.generators[0].iter.id in nd_vars:
                    n += 1
                    v = g.generators[0].target.id
                    elt = norm(g.elt)
                    rep.ob(R, SITE, "index in `%s`" % norm(c)[:60], elt in ("%s + 1" % v, "str(%s + 1)" % v, "1 + %s" % v),
                           "np.ndindex is 0-based, Modelica element names are 1-based: the name must use index + 1 (found %s)" % elt)
    if n < 2:
        raise MechanismMissing(R, "fewer than 2 name-building sites found in _expand_vectors")


@SPEC.rule(
    "R18.4",
    "element correspondence: inside the loop over np.ndindex(<shape>) every element taken from an array-valued "
    "attribute is indexed with that multi-index itself (or, for nested lists, with its components in order) — not "
    "with a position derived some other way",
)
def r18_4(ctx, rep):
    element_correspondence(ctx, rep, "R18.4")


def element_correspondence(ctx, rep, R):
    fn = ctx.func(MODEL, "Model._expand_vectors", R)
    n = 0
    for lp in ast.walk(fn):
        if isinstance(lp, ast.For) and "np.ndindex(" in norm(lp.iter) and any("CASADI_ATTRIBUTES" in norm(x) for x in ast.walk(lp)):
            if not isinstance(lp.target, ast.Name):
                rep.ob(R, SITE, "multi-index loop target", False,
                       "the loop over np.ndindex must bind the multi-index itself (found target `%s`): elements are then taken by another position" % norm(lp.target))
                n += 1
                continue
            ind = lp.target.id
            comps = set()
            for x in ast.walk(lp):
                if isinstance(x, ast.For) and is_name(x.iter, ind) and isinstance(x.target, ast.Name):
                    comps.add(x.target.id)
            # the attribute value read from the old variable, and the element that is stored on the new scalar variable
            srcs = {x.targets[0].id for x in ast.walk(lp) if isinstance(x, ast.Assign) and isinstance(x.targets[0], ast.Name)
                    and isinstance(x.value, ast.Call) and is_name(x.value.func, "getattr")}
            dsts = {c.args[2].id for c in ast.walk(lp) if isinstance(c, ast.Call) and is_name(c.func, "setattr") and len(c.args) == 3 and isinstance(c.args[2], ast.Name)}
            for x in ast.walk(lp):
                if isinstance(x, ast.Assign) and isinstance(x.value, ast.Subscript) and isinstance(x.value.value, ast.Name) \
                        and x.value.value.id in (srcs | dsts) and isinstance(x.targets[0], ast.Name) and x.targets[0].id in dsts:
                    n += 1
                    sl = x.value.slice
                    ok = is_name(sl, ind) or (isinstance(sl, ast.Name) and sl.id in comps)
                    rep.ob(R, SITE, "element `%s`" % norm(x), ok,
                           "the attribute element of the scalar named by multi-index `%s` must be value[%s]; `%s` picks another element "
                           "(e.g. column-major linear position of a CasADi matrix vs row-major ndindex order)" % (ind, ind, norm(x.value)))
    if n < 3:
        raise MechanismMissing(R, "fewer than 3 attribute element accesses found in the ndindex loop of _expand_vectors")


def scalar_attributes_verbatim(ctx, rep, R):
    """_expand_vectors: an attribute value that is not an array is handed to every scalar element as the object it is"""
    fn = ctx.func(MODEL, "Model._expand_vectors", R)
    n = 0
    for lp in ast.walk(fn):
        if isinstance(lp, ast.For) and "np.ndindex(" in norm(lp.iter) and any("CASADI_ATTRIBUTES" in norm(x) for x in ast.walk(lp)):
            srcs = {x.targets[0].id for x in ast.walk(lp) if isinstance(x, ast.Assign) and isinstance(x.targets[0], ast.Name)
                    and isinstance(x.value, ast.Call) and is_name(x.value.func, "getattr")}
            dsts = {c.args[2].id for c in ast.walk(lp) if isinstance(c, ast.Call) and is_name(c.func, "setattr") and len(c.args) == 3 and isinstance(c.args[2], ast.Name)}
            direct = [c for c in ast.walk(lp) if isinstance(c, ast.Call) and is_name(c.func, "setattr") and len(c.args) == 3 and not isinstance(c.args[2], ast.Name)]
            for x in ast.walk(lp):
                if isinstance(x, ast.Assign) and isinstance(x.targets[0], ast.Name) and x.targets[0].id in dsts and not isinstance(x.value, ast.Subscript):
                    n += 1
                    v = x.value
                    ok = (isinstance(v, ast.Name) and v.id in (srcs | dsts)) or (
                        isinstance(v, ast.Call) and norm(inlined(v.func, [lp])).endswith(".python_type") and len(v.args) == 1 and isinstance(v.args[0], ast.Name) and v.args[0].id in dsts)
                    rep.ob(R, SITE, "`%s` hands the value on unchanged" % norm(x)[:60], ok,
                           "the attribute value given to the scalar elements is `%s`, not the value itself: a start value that stands for `no start "
                           "declared` is an instance of a marker class, and a conversion returns a plain number — every element then looks as if it "
                           "had an explicit start" % norm(v)[:60])
            for c in direct:
                n += 1
                v = c.args[2]
                ok = isinstance(v, ast.Subscript) or (isinstance(v, ast.Name) and v.id in srcs)
                rep.ob(R, SITE, "`%s` hands the value on unchanged" % norm(c)[:60], ok, "the attribute value given to the scalar elements is `%s`" % norm(v)[:60])
    if n < 2:
        raise MechanismMissing(R, "fewer than 2 non-indexed attribute assignments found in the ndindex loop of _expand_vectors")


@SPEC.rule(
    "R18.10",
    "attribute values that are not arrays reach every scalar element as they are: in the ndindex loop of _expand_vectors the value set on "
    "the new variable is the old variable's attribute itself, an element of it, or that element converted with the variable's own python_type "
    "— nothing else (no float(), .item(), np.asarray round trip)",
)
def r18_10(ctx, rep):
    scalar_attributes_verbatim(ctx, rep, "R18.10")


@SPEC.rule(
    "R18.5",
    "expanded => substituted: on every path on which _expand_vectors replaces a variable by its scalar elements (the elements are "
    "added to the group's new list), the old symbol and its replacement are appended to the (symbols, values) pair that is later "
    "substituted into equations, initial equations, delay arguments and metadata — unconditionally: an array that occurs in no "
    "equation can still occur in another variable's attribute or in a delay argument",
)
def r18_5(ctx, rep):
    from ..cfg import CFG
    R = "R18.5"
    fn = ctx.func(MODEL, "Model._expand_vectors", R)
    subs = substitutions(fn.body)
    eq = [s_ for s_ in subs if s_["store"] == "equations"]
    if not eq:
        raise MechanismMissing(R, "substitution of self.equations not found in _expand_vectors")
    syms, vals = eq[0]["symbols"], eq[0]["values"]
    cfg = CFG(fn, R)
    # the element list of one variable: a local bound to [] to which Variable(...) objects are appended, and which extends the group's list
    ext = [x for x in cfg.stmts() if isinstance(x.ast, ast.Expr) and isinstance(x.ast.value, ast.Call) and isinstance(x.ast.value.func, ast.Attribute)
           and x.ast.value.func.attr == "extend" and x.ast.value.args and isinstance(x.ast.value.args[0], ast.Name)]
    n = 0
    for e in ext:
        elems = e.ast.value.args[0].id
        starts = [x for x in cfg.stmts() if isinstance(x.ast, ast.Assign) and is_name(x.ast.targets[0], elems) and isinstance(x.ast.value, ast.List) and not x.ast.value.elts]
        if not starts:
            continue
        n += 1
        for what, lst in (("old symbol recorded", syms), ("replacement recorded", vals)):
            apps = {x.id for x in cfg.stmts() if any(isinstance(c.func, ast.Attribute) and c.func.attr == "append" and is_name(c.func.value, lst) for c in calls(x.ast))}
            w = None
            for s0 in starts:
                w = w or (cfg.path(s0.id, e.id, avoid=apps) if apps else [s0, e])
            rep.ob(R, SITE, "%s for every expanded variable" % what, bool(apps) and w is None,
                   "a variable can be replaced by its elements without `%s.append(...)`: its old symbol then survives in attributes of other variables "
                   "and in delay arguments, which refer to a variable that no longer exists" % lst, path=cfg.describe(w) if w else "")
    if n < 1:
        raise MechanismMissing(R, "per-variable element list (bound to [] and extended into the group's list) not found")


def delay_element_correspondence(ctx, rep, R):
    """element DelayArguments built by _expand_vectors: `<old argument>.expr[I]` with I the multi-index of an enclosing
    `for I in np.ndindex(<shape>)` loop — the same I the element's name is built from"""
    fn = ctx.func(MODEL, "Model._expand_vectors", R)
    n = 0
    for c in calls(fn):
        if not ((call_name(c) or "").split(".")[-1] == "DelayArgument" and c.args and isinstance(c.args[0], ast.Subscript)
                and isinstance(c.args[0].value, ast.Attribute) and c.args[0].value.attr == "expr"):
            continue
        n += 1
        sl = c.args[0].slice
        loopvars = {}
        p_ = getattr(c, "_parent", None)
        while p_ is not None and p_ is not fn:
            if isinstance(p_, ast.For):
                for t in ast.walk(p_.target):
                    if isinstance(t, ast.Name):
                        loopvars[t.id] = p_
            p_ = getattr(p_, "_parent", None)
        lp = loopvars.get(sl.id) if isinstance(sl, ast.Name) else None
        ok = lp is not None and "np.ndindex(" in norm(lp.iter) and isinstance(lp.target, ast.Name)
        rep.ob(R, SITE, "delayed element `%s`" % norm(c.args[0]), ok,
               "the element of a delayed array expression that belongs to the scalar named by multi-index I is expr[I]; `%s` is indexed by "
               "something else (a running position: CasADi's single-index access is column-major, the names are generated row-major, so for "
               "a matrix the delayed expression and the delay state's name no longer belong together)" % norm(c.args[0]))
    if n < 1:
        raise MechanismMissing(R, "no element-wise DelayArgument(<argument>.expr[...], ...) found in _expand_vectors")


@SPEC.rule(
    "R18.6",
    "delayed array expressions are split element by element with the same multi-index their delay states are named with",
)
def r18_6(ctx, rep):
    delay_element_correspondence(ctx, rep, "R18.6")


@SPEC.rule(
    "R18.7",
    "arrays inside nested component arrays count: _modelica_shape has one entry per nesting level, and the test that decides whether "
    "a variable is expanded, as well as every np.ndindex enumeration of its elements, looks at the whole of it — never at a single "
    "level (shape[-1], shape[0]): `Tank t[2]` with a scalar member h has shape ((2,), (None,)) and t.h is a 2-vector",
)
def r18_7(ctx, rep):
    R = "R18.7"
    fn = ctx.func(MODEL, "Model._expand_vectors", R)
    tests = [n for n in ast.walk(fn) if isinstance(n, (ast.If, ast.IfExp, ast.While)) and "_modelica_shape" in norm(n.test)]
    enums = [c for c in calls(fn) if (call_name(c) or "").endswith("ndindex") and "_modelica_shape" in norm(c)]
    if not tests or len(enums) < 1:
        raise MechanismMissing(R, "expansion test on _modelica_shape / np.ndindex enumerations not found (%d / %d)" % (len(tests), len(enums)))
    for what, nodes in (("expansion test", [t.test for t in tests]), ("element enumeration", enums)):
        for e in nodes:
            part = [norm(x) for x in ast.walk(e) if isinstance(x, ast.Subscript) and norm(x.value).endswith("._modelica_shape")]
            rep.ob(R, SITE, "%s `%s` reads every nesting level" % (what, norm(e)[:60]), not part,
                   "`%s` looks at one level of the nested shape only: a scalar member of a component array (or an array member of a scalar "
                   "component) is judged by the wrong level and is left unexpanded or expanded with the wrong element count" % (part[0] if part else ""))


@SPEC.rule(
    "R18.8",
    "names are taken apart by pattern, not by character set: model.py removes no prefix or suffix (the `der(` ... `)` wrapper of a "
    "derivative's name) with str.strip/lstrip/rstrip and a multi-character argument — `\"depth\".lstrip(\"der(\")` is `pth`, and the "
    "expanded derivatives of a state called depth, error or rate would be named after a variable that does not exist",
)
def r18_8(ctx, rep):
    from ._literal import no_charset_strip
    no_charset_strip(ctx, rep, "R18.8", MODEL, "the CasADi model, _expand_vectors in particular")


@SPEC.rule(
    "R18.9",
    "the shape a variable is expanded with is the shape of its value: in Generator.get_symbol every read of the value's shape inside the "
    "dimension loops uses one and the same running index (the counter the loop advances once per declared dimension over all nesting levels), "
    "and in _expand_vectors the residual is split in the element order the names are generated in — ca.vec() is applied to the equation itself, not "
    "to a transposed or reshaped copy",
)
def r18_9(ctx, rep):
    R = "R18.9"
    fn = ctx.func(GEN, "Generator.get_symbol", R)
    site = GEN + ":Generator.get_symbol"
    # lists indexed by a plain name inside a loop whose body advances a counter with `+= 1`
    groups = {}
    for lp in walk_local(fn):
        if not isinstance(lp, ast.For):
            continue
        counters = {x.target.id for x in ast.walk(lp) if isinstance(x, ast.AugAssign) and isinstance(x.target, ast.Name) and isinstance(x.op, ast.Add)}
        if not counters:
            continue
        for x in ast.walk(lp):
            if isinstance(x, ast.Subscript) and isinstance(x.value, ast.Name) and isinstance(x.slice, ast.Name) and isinstance(x.ctx, ast.Load):
                groups.setdefault(x.value.id, {"idx": set(), "counters": set()})
                groups[x.value.id]["idx"].add(x.slice.id)
                groups[x.value.id]["counters"] |= counters
    n = 0
    for lst, g in sorted(groups.items()):
        if not (g["idx"] & g["counters"]):
            continue  # a list that is never read through a running counter
        n += 1
        rep.ob(R, site, "all reads of `%s[...]` use the running index" % lst, g["idx"] <= g["counters"],
               "`%s` is read with %s: the running counter %s advances over all nesting levels, the other index restarts at every level — for an array inside a "
               "component array the size of an unspecified `[:]` dimension is then taken from the wrong dimension of the value" % (lst, sorted(g["idx"]), sorted(g["idx"] & g["counters"])))
    if n < 1:
        raise MechanismMissing(R, "no list read through a running counter found in get_symbol")
    ev = ctx.func(MODEL, "Model._expand_vectors", R)
    vecs = [c for c in calls(ev) if (call_name(c) or "").endswith("ca.vec") and c.args]
    if len(vecs) < 2:
        raise MechanismMissing(R, "fewer than 2 ca.vec(...) splits found in _expand_vectors")
    for c in vecs:
        rep.ob(R, SITE, "`%s` flattens the equation itself" % norm(c)[:40], isinstance(c.args[0], ast.Name),
               "the argument of ca.vec is `%s`: the rows of the expanded residual come out in another order than the unexpanded residual's elements (and than the "
               "expanded variables' names)" % norm(c.args[0])[:40])


@SPEC.rule(
    "R18.11",
    "an array is replaced by its elements, nothing else: every value _expand_vectors appends to the list that is substituted for the old array "
    "symbols is built from the variable's new scalar symbols — never from the variable's numbers (`a constant's literal value, to save an "
    "indexing node`): the residual function must keep depending on c[1], c[2] exactly as it depended on c",
)
def r18_11(ctx, rep):
    R = "R18.11"
    fn = ctx.func(MODEL, "Model._expand_vectors", R)
    subs = substitutions(fn.body)
    eq = [s_ for s_ in subs if s_["store"] == "equations"]
    if not eq:
        raise MechanismMissing(R, "substitution of self.equations not found in _expand_vectors")
    vals = eq[0]["values"]
    elem_lists = {c.func.value.id for lp in ast.walk(fn) if isinstance(lp, ast.For) and "np.ndindex(" in norm(lp.iter) for c in calls(lp)
                  if isinstance(c.func, ast.Attribute) and c.func.attr == "append" and isinstance(c.func.value, ast.Name)}
    apps = [c for c in calls(fn) if isinstance(c.func, ast.Attribute) and c.func.attr in ("append", "extend") and is_name(c.func.value, vals) and c.args]
    if not apps or not elem_lists:
        raise MechanismMissing(R, "appends to the substitution values / the list of a variable's scalar elements were not found")
    for k, c in enumerate(apps):
        uses = {x.id for x in ast.walk(c.args[0]) if isinstance(x, ast.Name)} & elem_lists
        rep.ob(R, SITE, "substitution value #%d is made of the new scalar symbols" % (k + 1), bool(uses),
               "`%s` does not read the list of new scalar variables: the old array symbol is replaced by something that no longer is the model's "
               "variable" % norm(c)[:80])


@SPEC.rule(
    "R18.12",
    "an array attribute is indexed, a scalar one is not — decided by what the value is, not by how many elements it has: in the ndindex "
    "loop of _expand_vectors the attribute value is handed on whole only where it is known to be a Python scalar (`np.isscalar`) or a CasADi "
    "expression (whose one-element case is a scalar), or where the statement is the start of an element-by-element descent; `it has exactly "
    "one element` also holds for `start = {5.0}` on Real w[1], and the element then gets the list",
)
def r18_12(ctx, rep):
    from ..cfg import CFG, assume_truth
    R = "R18.12"
    fn = ctx.func(MODEL, "Model._expand_vectors", R)
    cfg = CFG(fn, R)
    n = 0
    for lp in ast.walk(fn):
        if not (isinstance(lp, ast.For) and "np.ndindex(" in norm(lp.iter) and any("CASADI_ATTRIBUTES" in norm(x) for x in ast.walk(lp)) and isinstance(lp.target, ast.Name)):
            continue
        ind = lp.target.id
        srcs = {x.targets[0].id for x in ast.walk(lp) if isinstance(x, ast.Assign) and isinstance(x.targets[0], ast.Name)
                and isinstance(x.value, ast.Call) and is_name(x.value.func, "getattr")}
        dsts = {c.args[2].id for c in ast.walk(lp) if isinstance(c, ast.Call) and is_name(c.func, "setattr") and len(c.args) == 3 and isinstance(c.args[2], ast.Name)}
        inside = {id(x) for b in lp.body for x in ast.walk(b)}
        for node in cfg.stmts():
            a = node.ast
            if id(a) not in inside or not (isinstance(a, ast.Assign) and isinstance(a.targets[0], ast.Name) and a.targets[0].id in dsts
                                           and isinstance(a.value, ast.Name) and a.value.id in srcs):
                continue
            n += 1
            src = a.value.id
            known = [g for g in cfg.dominated_by(node.id, lambda x: x.kind == "assume") if
                     assume_truth(g, "np.isscalar(%s)" % src) is True or assume_truth(g, "isinstance(%s, ca.MX)" % src) is True]
            # the start of a descent through nested lists: `val = value` followed by `for i in <multi-index>: val = val[i]`
            descent = False
            for holder in ast.walk(lp):
                for f_ in ("body", "orelse"):
                    lst = getattr(holder, f_, None)
                    if isinstance(lst, list) and any(x is a for x in lst):
                        i = [k for k, x in enumerate(lst) if x is a][0]
                        nxt = lst[i + 1] if i + 1 < len(lst) else None
                        descent = isinstance(nxt, ast.For) and is_name(nxt.iter, ind)
            rep.ob(R, SITE, "`%s` (line offset #%d) hands on a value known to be scalar" % (norm(a), n), bool(known) or descent,
                   "the attribute is handed to the element un-indexed under a test that does not say it is a scalar (np.isscalar / a CasADi "
                   "expression): a one-element list or matrix attribute becomes the element's value as a container")
    if n < 2:
        raise MechanismMissing(R, "fewer than 2 un-indexed attribute assignments found in the ndindex loop of _expand_vectors")


@SPEC.rule(
    "R18.13",
    "scalar names are composed component by component: _expand_vectors builds the element name format from the components of the dotted name "
    "and their shapes, and edits no name with str.replace / re.sub — `pipe.p` with the placeholder put `behind p` by a textual replace "
    "becomes `p[{}]ipe.p`",
)
def r18_13(ctx, rep):
    R = "R18.13"
    fn = ctx.func(MODEL, "Model._expand_vectors", R)
    probe = ast.parse("def f(n, s):\n    fmt = n\n    fmt = fmt.replace(s, s + '[{}]', 1)\n").body[0]

    def edits(f):
        return ["line %d: %s" % (c.lineno, norm(c)[:60]) for c in ast.walk(f) if isinstance(c, ast.Call) and (
            (isinstance(c.func, ast.Attribute) and c.func.attr == "replace" and len(c.args) >= 2) or (call_name(c) or "") in ("re.sub", "re.subn"))]

    if not edits(probe):
        raise AnalysisError(R, "self-test of the name-editing detector failed")
    hits = edits(fn)
    fmts = [st for st in ast.walk(fn) if isinstance(st, (ast.Assign, ast.AugAssign)) and any(
        isinstance(t, ast.Name) and "format" in t.id for t in (st.targets if isinstance(st, ast.Assign) else [st.target]))]
    if len(fmts) < 2:
        raise MechanismMissing(R, "the construction of the element name format was not found in _expand_vectors")
    rep.ob(R, SITE, "no textual replace on a name", not hits, "; ".join(hits[:3]))


# -- seeded variants ---------------------------------------------------------
from ._mut import replace_in_func  # noqa: E402


@SPEC.mutant("constants not expanded", MODEL, "R18.1", "constants")
def _m1(mod):
    def edit(fn):
        for n in ast.walk(fn):
            if isinstance(n, ast.For) and isinstance(n.iter, ast.List) and any(literal(e) == "constants" for e in n.iter.elts):
                n.iter.elts = [e for e in n.iter.elts if literal(e) != "constants"]
                return True
        return False

    return mod if replace_in_func(mod, "Model._expand_vectors", edit) else None


@SPEC.mutant("metadata not substituted", MODEL, "R18.2", "metadata")
def _m2(mod):
    def edit(fn):
        for i, st in enumerate(fn.body):
            if "_substitute_metadata" in norm(st):
                fn.body[i] = ast.Pass()
                return True
        return False

    return mod if replace_in_func(mod, "Model._expand_vectors", edit) else None


@SPEC.mutant("zero-based element names", MODEL, "R18.3", "index")
def _m3(mod):
    def edit(fn):
        for n in ast.walk(fn):
            if isinstance(n, ast.GeneratorExp) and norm(n.elt) == "i + 1" and norm(n.generators[0].iter) == "ind":
                n.elt = ast.Name(id="i", ctx=ast.Load())
                return True
        return False

    return mod if replace_in_func(mod, "Model._expand_vectors", edit) else None


@SPEC.mutant("delay argument popped at other index", MODEL, "R18.2", "delay lists")
def _m4(mod):
    def edit(fn):
        for n in ast.walk(fn):
            if isinstance(n, ast.Assign) and norm(n.value) == "self.delay_arguments.pop(i)":
                n.value = ast.parse("self.delay_arguments.pop(0)", mode="eval").body
                return True
        return False

    return mod if replace_in_func(mod, "Model._expand_vectors", edit) else None


@SPEC.mutant("attribute element by flat position", MODEL, "R18.4", "element")
def _m5(mod):
    def edit(fn):
        for x in ast.walk(fn):
            if isinstance(x, ast.Assign) and norm(x) == "val = value[ind]":
                x.value.slice = ast.parse("len(expanded_symbols)", mode="eval").body
                return True
        return False

    return mod if replace_in_func(mod, "Model._expand_vectors", edit) else None


@SPEC.mutant("delayed expression split by running position", MODEL, "R18.6", "delayed element")
def _m_delay_pos(mod):
    def edit(fn):
        for lp in ast.walk(fn):
            if isinstance(lp, ast.For) and "np.ndindex(" in norm(lp.iter) and "DelayArgument" in norm(lp):
                lp.target = ast.Tuple(elts=[ast.Name(id="_k", ctx=ast.Store()), lp.target], ctx=ast.Store())
                lp.iter = ast.Call(func=ast.Name(id="enumerate", ctx=ast.Load()), args=[lp.iter], keywords=[])
                for c in ast.walk(lp):
                    if isinstance(c, ast.Subscript) and norm(c.value).endswith(".expr"):
                        c.slice = ast.Name(id="_k", ctx=ast.Load())
                return True
        return False

    return mod if replace_in_func(mod, "Model._expand_vectors", edit) else None


@SPEC.mutant("expansion decided by the innermost shape level only", MODEL, "R18.7", "reads every nesting level")
def _m_lastlevel(mod):
    def edit(fn):
        for n in ast.walk(fn):
            if isinstance(n, ast.Compare) and norm(n.left).startswith("set(") and "_modelica_shape" in norm(n.left):
                n.left = ast.Subscript(value=n.left.args[0], slice=ast.UnaryOp(op=ast.USub(), operand=ast.Constant(value=1)), ctx=ast.Load())
                n.comparators = [ast.parse("(None,)", mode="eval").body]
                return True
        return False

    return mod if replace_in_func(mod, "Model._expand_vectors", edit) else None


@SPEC.mutant("equations split after transposing", MODEL, "R18.9", "flattens the equation itself")
def _m_vec_T(mod):
    def edit(fn):
        for c in ast.walk(fn):
            if isinstance(c, ast.Call) and norm(c.func) == "ca.vec" and c.args and isinstance(c.args[0], ast.Name):
                c.args[0] = ast.Attribute(value=c.args[0], attr="T", ctx=ast.Load())
                return True
        return False

    return mod if replace_in_func(mod, "Model._expand_vectors", edit) else None
