"""C23 — out-of-range array subscripts are rejected, never reinterpreted."""
from __future__ import annotations

import ast

from ..cfg import CFG
from ..engine import AnalysisError, MechanismMissing, PropertySpec, norm
from ..pyutil import call_name, calls, is_name, literal, walk_local

GEN = "src/pymoca/backends/casadi/generator.py"

SPEC = PropertySpec(
    "C23",
    "Out-of-range array subscripts are rejected, never reinterpreted",
    decided=(
        "every 1-based -> 0-based conversion of a subscript-derived value (`x - 1`) in Generator.get_indexed_symbol and "
        "ForLoop.register_indexed_symbol is dominated by a comparison of that same value against both bounds (< 1 / <= 0 "
        "and > dimension) whose true branch raises; a subscript on a scalar and too many subscripts raise."
    ),
    not_decided="subscripts that are not constants at generation time (symbolic index expressions).",
)

FUNCS = ["Generator.get_indexed_symbol", "ForLoop.register_indexed_symbol"]


def _atoms(test):
    """the comparisons that are all FALSE when `test` is false: the test itself, or the operands of a disjunction (recursively).  A comparison
    under `and` (`for_loop is None and (sl <= 0 or sl > dim)`) or `not` tells nothing about its operands when the whole test fails."""
    out = []

    def go(t):
        if isinstance(t, ast.Compare) and len(t.ops) == 1:
            out.append((norm(t.left), type(t.ops[0]), t.comparators[0]))
        elif isinstance(t, ast.BoolOp) and isinstance(t.op, ast.Or):
            for v in t.values:
                go(v)

    go(test)
    return out


def _bounds_checked(test, subject: str):
    lower = upper = False
    for l, op, r in _atoms(test):
        rv = literal(r)
        if l == subject or l in ("np.min(%s)" % subject, "%s.min()" % subject, "min(%s)" % subject):
            if (op is ast.LtE and rv == 0) or (op is ast.Lt and rv == 1):
                lower = True
        if l == subject or l in ("np.max(%s)" % subject, "%s.max()" % subject, "max(%s)" % subject):
            if op in (ast.Gt, ast.GtE) and not isinstance(r, ast.Constant):
                upper = True
        # reversed operand order: 0 >= x, dim < x
        if norm(r) == subject and isinstance(ast.parse(l, mode="eval").body, ast.Constant):
            lv = literal(ast.parse(l, mode="eval").body)
            if (op is ast.GtE and lv == 0) or (op is ast.Gt and lv == 1):
                lower = True
    return lower, upper


@SPEC.rule(
    "R23.1",
    "checked conversion: each `<v> - 1` applied to a subscript-derived value is dominated by the false branch of a test "
    "comparing <v> with both bounds (`<= 0`/`< 1` and `> dim`) whose true branch raises; slices check start and stop",
)
def r23_1(ctx, rep):
    R = "R23.1"
    total = 0
    kcount = {}
    for q in FUNCS:
        fn = ctx.func(GEN, q, R)
        cfg = CFG(fn, R)
        site = GEN + ":" + q
        for node in cfg.nodes:
            if node.kind not in ("stmt", "test"):
                continue
            if isinstance(node.ast, (ast.FunctionDef, ast.ClassDef)):
                continue
            for b in ast.walk(node.ast):
                if isinstance(b, ast.BinOp) and isinstance(b.op, ast.Sub) and isinstance(b.right, ast.Constant) and b.right.value == 1 \
                        and isinstance(b.left, (ast.Name, ast.Attribute)):
                    subj = norm(b.left)
                    total += 1
                    # what is converted, named by its provenance rather than by the local's name
                    if subj.endswith(".start"):
                        what = "slice start"
                    elif isinstance(b.left, ast.Name):
                        vals = [norm(d.value) for d in ast.walk(fn) if isinstance(d, ast.Assign) and any(is_name(t_, subj) for t_ in d.targets)]
                        if any(".values" in v or "res[" in v or "Fmap" in v for v in vals):
                            what = "for-loop index values"
                        elif any("get_integer" in v for v in vals):
                            what = "integer subscript"
                        else:
                            what = "value of `%s`" % subj
                    else:
                        what = "`%s`" % subj
                    kcount[(site, what)] = kcount.get((site, what), 0) + 1
                    if kcount[(site, what)] > 1:
                        what += " #%d" % kcount[(site, what)]
                    subjects = [subj]
                    if subj.endswith(".start"):
                        subjects.append(subj[: -len(".start")] + ".stop")
                    missing = []
                    for sj in subjects:
                        ok = False
                        for g in cfg.dominated_by(node.id, lambda x: x.kind == "assume" and not x.taken):
                            lo, up = _bounds_checked(g.ast, sj)
                            if lo and up and _true_branch_raises(cfg, g):
                                ok = True
                        # separate lower / upper guards are fine too
                        if not ok:
                            lo_any = up_any = False
                            for g in cfg.dominated_by(node.id, lambda x: x.kind == "assume" and not x.taken):
                                lo, up = _bounds_checked(g.ast, sj)
                                if _true_branch_raises(cfg, g):
                                    lo_any |= lo
                                    up_any |= up
                            ok = lo_any and up_any
                        if not ok:
                            missing.append(sj)
                    rep.ob(R, site, "conversion of %s" % what, not missing,
                           "`%s` turns a 1-based Modelica subscript into a 0-based index without a dominating range check on %s: "
                           "index 0 wraps to the last element / an out-of-range slice silently selects fewer elements" % (norm(b), missing))
    if total < 3:
        raise MechanismMissing(R, "fewer than 3 index conversions found")


def _true_branch_raises(cfg, assume_false) -> bool:
    tnode = [p for p in cfg.pred[assume_false.id]][0]
    tb = [s for s in cfg.succ[tnode] if cfg.nodes[s].kind == "assume" and cfg.nodes[s].taken]
    return bool(tb) and cfg.exit not in cfg.reachable(tb[0], avoid={assume_false.id})


@SPEC.rule("R23.2", "a subscript on a scalar dimension and more subscripts than dimensions raise ValueError")
def r23_2(ctx, rep):
    R = "R23.2"
    fn = ctx.func(GEN, "Generator.get_indexed_symbol", R)
    site = GEN + ":Generator.get_indexed_symbol"
    scalar = many = False
    # outer loop: (subscript list, shape) of one name part; inner loop: (subscript, dimension) pairs
    outer = inner = None
    for lp in walk_local(fn):
        if isinstance(lp, ast.For) and isinstance(lp.iter, ast.Call) and call_name(lp.iter) == "enumerate" and isinstance(lp.target, ast.Tuple) \
                and isinstance(lp.target.elts[1], ast.Tuple) and len(lp.target.elts[1].elts) == 2:
            outer = [e.id for e in lp.target.elts[1].elts if isinstance(e, ast.Name)]
        if isinstance(lp, ast.For) and isinstance(lp.iter, ast.Call) and call_name(lp.iter) == "zip" and isinstance(lp.target, ast.Tuple) \
                and len(lp.target.elts) == 2 and all(isinstance(e, ast.Name) for e in lp.target.elts):
            inner = [e.id for e in lp.target.elts]
    if not outer or len(outer) != 2 or not inner:
        raise MechanismMissing(R, "the loops over (subscript list, shape) and (subscript, dimension) were not found")
    for n in walk_local(fn):
        if isinstance(n, ast.If) and any(isinstance(x, ast.Raise) for s in n.body for x in ast.walk(s)):
            t = norm(n.test)
            if "is not None" in t and ("%s is None" % inner[1]) in t:
                scalar = True
            if t.startswith("len(%s) > len(%s)" % (outer[0], outer[1])):
                many = True
    rep.ob(R, site, "subscript on scalar", scalar, "`x[1]` on a scalar x must raise (test `sl is not None and dim is None`)")
    rep.ob(R, site, "too many subscripts", many, "more subscripts than dimensions must raise")


@SPEC.rule(
    "R23.3",
    "every integer subscript is range-checked: on each path from a branch taken because the subscript value is an int "
    "(`isinstance(sl, int)`) to the place where it is stored as an index, the both-bounds test is passed on its "
    "non-raising side",
)
def r23_3(ctx, rep):
    R = "R23.3"
    fn = ctx.func(GEN, "Generator.get_indexed_symbol", R)
    cfg = CFG(fn, R)
    site = GEN + ":Generator.get_indexed_symbol"
    sinks = [x for x in cfg.stmts() if isinstance(x.ast, ast.Expr) and isinstance(x.ast.value, ast.Call) and isinstance(x.ast.value.func, ast.Attribute)
             and x.ast.value.func.attr == "append" and x.ast.value.args and isinstance(x.ast.value.args[0], ast.Name)]
    if not sinks:
        raise MechanismMissing(R, "index list append not found")
    var = sinks[0].ast.value.args[0].id
    int_branches = [x for x in cfg.nodes if x.kind == "assume" and x.taken and ("isinstance(%s, int)" % var) in norm(x.ast)]
    if not int_branches:
        raise MechanismMissing(R, "no branch on isinstance(%s, int) found" % var)
    checks = set()
    for g in cfg.nodes:
        if g.kind == "assume" and not g.taken:
            lo, up = _bounds_checked(g.ast, var)
            if lo and up and _true_branch_raises(cfg, g):
                checks.add(g.id)
    for k, a in enumerate(int_branches, 1):
        w = None
        for sk in sinks:
            if sk.id in cfg.reachable(a.id):
                w = w or cfg.path(a.id, sk.id, avoid=checks)
        rep.ob(R, site, "int branch `%s`" % norm(a.ast)[:60], w is None,
               "an integer subscript reaches the index list without passing the 1..n range check: an out-of-range constant subscript is "
               "accepted and mapped to some element", path=cfg.describe(w) if w else "")


@SPEC.rule(
    "R23.4",
    "an unknown subscript is not an absent subscript: in get_indexed_symbol the whole-dimension slice `slice(None, None, 1)` "
    "is chosen only on paths where the written subscript is known to be None (no subscript for this dimension); a subscript "
    "whose value get_integer cannot determine (parameter without value, variable) must raise, otherwise `x[k]` silently "
    "means all of x (decided by a path-sensitive None-ness analysis of the handler)",
)
def r23_4(ctx, rep):
    from ..cfg import CFG, explore_facts, none_facts_transfer
    R = "R23.4"
    fn = ctx.func(GEN, "Generator.get_indexed_symbol", R)
    site = GEN + ":Generator.get_indexed_symbol"
    cfg = CFG(fn, R)
    # the per-dimension loop: `for <index>, <dim> in zip(<index_array>, <shape>)`
    loops = [x for x in cfg.nodes if x.kind == "iter" and isinstance(x.ast.target, ast.Tuple) and len(x.ast.target.elts) == 2
             and isinstance(x.ast.iter, ast.Call) and call_name(x.ast.iter) == "zip" and not isinstance(x.ast.target.elts[0], ast.Tuple)
             and all(isinstance(e, ast.Name) for e in x.ast.target.elts)]
    fulls = [x for x in cfg.stmts() if isinstance(x.ast, ast.Assign) and isinstance(x.ast.value, ast.Call) and is_name(x.ast.value.func, "slice")
             and len(x.ast.value.args) == 3 and all(isinstance(a, ast.Constant) for a in x.ast.value.args) and x.ast.value.args[0].value is None
             and x.ast.value.args[1].value is None]
    if not loops or not fulls:
        raise MechanismMissing(R, "per-dimension loop or the whole-dimension slice not found in get_indexed_symbol")
    n = 0
    for lp in loops:
        idx = lp.ast.target.elts[0].id
        body_entry = [s_ for s_ in cfg.succ[lp.id] if cfg.nodes[s_].kind == "assume" and cfg.nodes[s_].taken]
        if not body_entry:
            continue
        states = explore_facts(cfg, none_facts_transfer, start=body_entry[0])
        for f in fulls:
            reached = states.get(f.id, set())
            if not reached:
                continue
            n += 1
            bad = [st for st in reached if ("none", idx) not in st]
            rep.ob(R, site, "whole-dimension slice only for an absent subscript", not bad,
                   "`%s` can be reached while the written subscript `%s` is not known to be None (facts on such a path: %s): a subscript "
                   "whose value cannot be determined is silently replaced by the whole dimension" % (norm(f.ast), idx, sorted(bad[0]) if bad else ""))
    if n < 1:
        raise MechanismMissing(R, "the whole-dimension slice is not reachable from the per-dimension loop")


def _reinterpreting_ops(fn):
    """operations that silently map an out-of-range subscript onto an in-range one: slice.indices(n) (clamps), min/max/clip
    against a bound, modulo"""
    out = []
    for n in ast.walk(fn):
        if isinstance(n, ast.Call) and isinstance(n.func, ast.Attribute) and n.func.attr == "indices" and n.args:
            out.append((n, "slice.indices() clamps both bounds to the dimension"))
        elif isinstance(n, ast.Call) and (call_name(n) or "").split(".")[-1] in ("min", "max", "clip", "minimum", "maximum") and len(n.args) >= 2:
            out.append((n, "min/max/clip bounds the value instead of rejecting it"))
        elif isinstance(n, ast.BinOp) and isinstance(n.op, ast.Mod) and not (isinstance(n.left, ast.Constant) and isinstance(n.left.value, str)):
            out.append((n, "modulo wraps the value around"))
    return out


@SPEC.rule(
    "R23.5",
    "nothing bends a subscript into range: Generator.get_indexed_symbol and ForLoop.register_indexed_symbol apply no clamping or "
    "wrapping operation (slice.indices(n), min/max/clip against a bound, modulo) to subscript values — an out-of-range subscript "
    "must reach the range check (or the backend's own bound check) as written",
)
def r23_5(ctx, rep):
    R = "R23.5"
    # the detector must recognise the constructs it forbids (the expected count on a correct tree is zero)
    probe = ast.parse("def f(sl, dim, i):\n    sl = slice(*sl.indices(dim))\n    i = min(i, dim)\n    j = i % dim\n    return 'a %s' % i")
    if len(_reinterpreting_ops(probe.body[0])) != 3:
        raise AnalysisError(R, "self-test of the clamping detector failed")
    for q in FUNCS:
        fn = ctx.func(GEN, q, R)
        bad = _reinterpreting_ops(fn)
        rep.ob(R, GEN + ":" + q, "no clamping or wrapping of subscript values", not bad,
               "; ".join("`%s`: %s" % (norm(n)[:50], why) for n, why in bad[:3]) +
               " — an out-of-range slice such as x[2:4] on Real x[3] is then silently mapped to x[2:3] instead of being rejected")


@SPEC.rule(
    "R23.6",
    "the surplus-subscript test is made for every name part: in get_indexed_symbol every path from the head of the loop over "
    "(subscript list, shape) to the pairing `zip(<subscripts>, <shape>)` passes the test `len(<subscripts>) > len(<shape>)`, whose "
    "true side raises — zip() stops at the shorter operand, so an un-tested `x[1,2]` on a vector silently means x[1]",
)
def r23_6(ctx, rep):
    R = "R23.6"
    fn = ctx.func(GEN, "Generator.get_indexed_symbol", R)
    site = GEN + ":Generator.get_indexed_symbol"
    cfg = CFG(fn, R)
    outer = [x for x in cfg.nodes if x.kind == "iter" and isinstance(x.ast.iter, ast.Call) and call_name(x.ast.iter) == "enumerate" and isinstance(x.ast.target, ast.Tuple)
             and isinstance(x.ast.target.elts[1], ast.Tuple) and len(x.ast.target.elts[1].elts) == 2]
    if not outer:
        raise MechanismMissing(R, "loop over (subscript list, shape) not found")
    out = outer[0]
    a, b = [norm(e) for e in out.ast.target.elts[1].elts]
    inner = [x for x in cfg.nodes if x.kind == "iter" and isinstance(x.ast.iter, ast.Call) and call_name(x.ast.iter) == "zip" and [norm(z) for z in x.ast.iter.args] == [a, b]]
    if not inner:
        raise MechanismMissing(R, "pairing zip(%s, %s) not found" % (a, b))

    def surplus(t):
        t = norm(t).replace(" ", "")
        return t in ("len(%s)>len(%s)" % (a, b), "len(%s)<len(%s)" % (b, a), "not(len(%s)<=len(%s))" % (a, b), "not(len(%s)>=len(%s))" % (b, a))

    tests = [x for x in cfg.nodes if x.kind == "test" and surplus(x.ast)]
    if not tests:
        rep.ob(R, site, "surplus subscripts tested", False, "no test `len(%s) > len(%s)` left in get_indexed_symbol" % (a, b))
        return
    body_entry = [s_ for s_ in cfg.succ[out.id] if cfg.nodes[s_].kind == "assume" and cfg.nodes[s_].taken]
    w = cfg.path(body_entry[0], inner[0].id, avoid={t.id for t in tests}) if body_entry else None
    rep.ob(R, site, "surplus subscripts tested for every name part", w is None,
           "the subscripts of a name part can be paired with its shape without the surplus test: zip() drops the extra subscript and `x[1,2]` on a "
           "vector is accepted as x[1]", path=cfg.describe(w) if w else "")
    for t in tests:
        fa = [cfg.nodes[s_] for s_ in cfg.succ[t.id] if cfg.nodes[s_].kind == "assume" and not cfg.nodes[s_].taken]
        rep.ob(R, site, "surplus subscripts raise", bool(fa) and _true_branch_raises(cfg, fa[0]), "the true side of `%s` does not raise" % norm(t.ast))


@SPEC.rule(
    "R23.7",
    "a for-equation reads the elements its subscripts name: every value Generator.exitForEquation passes to the mapped loop body "
    "for an indexed symbol is the gather `<symbol>[<indices>]` (possibly transposed) — CasADi's own bound check on that gather is the "
    "only place a loop subscript beyond the dimension is rejected, and a shortcut that maps over the whole symbol instead "
    "(`as many subscripts as elements`) turns x[1], x[3], x[5] on a 3-vector into x[1], x[2], x[3]",
)
def r23_7(ctx, rep):
    R = "R23.7"
    fn = ctx.func(GEN, "Generator.exitForEquation", R)
    site = GEN + ":Generator.exitForEquation"
    # the list handed to the mapped call together with f.values, and the local appended to it
    mapped = {x.id for c in calls(fn) if isinstance(c.func, ast.Attribute) and c.func.attr == "call" for a_ in c.args for x in ast.walk(a_) if isinstance(x, ast.Name)}
    apps = [c for c in calls(fn) if isinstance(c.func, ast.Attribute) and c.func.attr == "append" and isinstance(c.func.value, ast.Name)
            and c.func.value.id in mapped and c.args and isinstance(c.args[0], ast.Name)]
    if not apps:
        raise MechanismMissing(R, "no `<indexed symbols>.append(<local>)` found in exitForEquation")
    n = 0
    for ap in apps:
        v = ap.args[0].id
        loop = getattr(ap, "_parent", None)
        while loop is not None and not isinstance(loop, ast.For):
            loop = getattr(loop, "_parent", None)
        if loop is None:
            continue
        defs = [st for st in ast.walk(loop) if isinstance(st, ast.Assign) and any(is_name(t, v) for t in st.targets)]
        for st in defs:
            n += 1
            val = st.value
            wraps_self = isinstance(val, ast.Call) and any(is_name(a_, v) for a_ in val.args)
            # the subscript is a local that holds the loop's recorded subscripts (<indexed symbol>.indices) or the whole-range slice
            idx_locals = {st2.targets[0].id for st2 in ast.walk(loop) if isinstance(st2, ast.Assign) and isinstance(st2.targets[0], ast.Name)
                          and isinstance(st2.value, ast.Attribute) and st2.value.attr == "indices"}
            gather = isinstance(val, ast.Subscript) and isinstance(val.value, ast.Name) and (
                (isinstance(val.slice, ast.Name) and val.slice.id in idx_locals) or (isinstance(val.slice, ast.Attribute) and val.slice.attr == "indices"))
            rep.ob(R, site, "`%s` gathers by the loop's subscripts" % norm(st)[:60], gather or wraps_self,
                   "the value mapped over is not `<symbol>[<indices>]`: the subscripts the loop computed are not used to select the elements (and "
                   "are not checked against the dimension by the gather)")
    if n < 2:
        raise MechanismMissing(R, "expected the gather and the transpose definition of the mapped value, found %d definition(s)" % n)


@SPEC.rule(
    "R23.8",
    "a for-loop stops being `the current loop` when it is left, on every path: each exit handler of the CasADi generator whose enter "
    "handler pushes onto self.for_loops pops it on every path to its end — also for an empty range. A loop left on the stack makes a "
    "later plain subscript `x[k]` (k a parameter named like the old loop index) a loop subscript, which bypasses the range check",
)
def r23_8(ctx, rep):
    R = "R23.8"
    ms = ctx.methods(GEN, "Generator", R)
    n = 0
    for name, fn in sorted(ms.items()):
        if not name.startswith("enter"):
            continue
        pushes = {norm(c.func.value) for c in calls(fn) if isinstance(c.func, ast.Attribute) and c.func.attr == "append" and norm(c.func.value).startswith("self.")
                  and any(isinstance(a, ast.Call) and (call_name(a) or "").endswith("ForLoop") for a in c.args)}
        for stack in sorted(pushes):
            twin = ms.get("exit" + name[len("enter"):])
            n += 1
            if twin is None:
                rep.ob(R, GEN + ":Generator." + name, "push onto %s has an exit handler" % stack, False, "no exit handler pops what %s pushes" % name)
                continue
            cfg = CFG(twin, R)
            pops = {x.id for x in cfg.stmts() if any(isinstance(c.func, ast.Attribute) and c.func.attr == "pop" and norm(c.func.value) == stack for c in calls(x.ast))}
            bad = cfg.must_pass(cfg.entry, cfg.exit, pops) if pops else [cfg.nodes[cfg.entry]]
            rep.ob(R, GEN + ":Generator." + twin.name, "%s.pop() on every path" % stack, bool(pops) and bad is None,
                   "the handler can finish without popping the loop that %s pushed: everything generated afterwards is treated as being inside that loop" % name,
                   path=cfg.describe(bad) if bad and pops else "")
    if n < 2:
        raise MechanismMissing(R, "expected the for-equation and the for-statement push/pop pairs, found %d" % n)


@SPEC.rule(
    "R23.9",
    "loop subscripts reach the backend as subscripts: every index function that get_indexed_symbol hands to the loop (the nested functions that "
    "map the loop's index array to what the symbol is subscripted with) returns the array itself or a tuple containing it unchanged next to the "
    "other, already checked, subscripts — never arithmetic on it (a flat offset `i + c * rows` is inside the matrix for rows that are not)",
)
def r23_9(ctx, rep):
    R = "R23.9"
    fn = ctx.func(GEN, "Generator.get_indexed_symbol", R)
    site = GEN + ":Generator.get_indexed_symbol"
    # the function itself and any part of it that was split off into a helper the reference tree does not have
    hosts = [fn] + ctx.new_callees(GEN, fn)
    handed = {c.args[1].id for h in hosts for c in calls(h) if isinstance(c.func, ast.Attribute) and c.func.attr == "register_indexed_symbol" and len(c.args) >= 2 and isinstance(c.args[1], ast.Name)}
    defs = [d for h in hosts for d in ast.walk(h) if isinstance(d, ast.FunctionDef) and d is not h and d.name in handed]
    lambdas = [c.args[1] for h in hosts for c in calls(h) if isinstance(c.func, ast.Attribute) and c.func.attr == "register_indexed_symbol" and len(c.args) >= 2 and isinstance(c.args[1], ast.Lambda)]
    if len(defs) + len(lambdas) < 2:
        raise MechanismMissing(R, "fewer than 2 index functions handed to register_indexed_symbol found")
    for d in defs + lambdas:
        p = d.args.args[0].arg if d.args.args else None
        rets = [d.body] if isinstance(d, ast.Lambda) else [r.value for r in ast.walk(d) if isinstance(r, ast.Return) and r.value is not None]
        for v in rets:
            elems = v.elts if isinstance(v, ast.Tuple) else [v]
            bad = [norm(e) for e in elems if not is_name(e, p) and any(is_name(x, p) for x in ast.walk(e))]
            rep.ob(R, site, "index function (line %d) passes the loop's subscripts on unchanged" % d.lineno, not bad and any(is_name(e, p) for e in elems),
                   "it returns %s: the subscript array is transformed before the backend sees it, so its own bound check no longer applies to what the model wrote" % (bad or norm(v)))


@SPEC.rule(
    "R23.10",
    "every branch of an if-expression is translated, and with it every subscript in it is checked: each iteration of the branch loop of "
    "Generator.exitIfExpression passes the translation (`self.get_mx`) of that branch's condition AND of its value — component references "
    "are resolved, and their subscripts range-checked, only when get_mx reaches them, so a branch that is skipped (`condition is the "
    "literal false`) keeps an out-of-range subscript unseen",
)
def r23_10(ctx, rep):
    from ..cfg import iteration_skips
    R = "R23.10"
    fn = ctx.func(GEN, "Generator.exitIfExpression", R)
    site = GEN + ":Generator.exitIfExpression"
    cfg = CFG(fn, R)
    loops = [lp for lp in walk_local(fn) if isinstance(lp, ast.For)]
    n = 0
    for lp in loops:
        for fld in ("conditions", "expressions"):
            def reads(x, fld=fld):
                return x.kind == "stmt" and any(isinstance(c.func, ast.Attribute) and c.func.attr == "get_mx" and c.args
                                                and any(isinstance(a, ast.Attribute) and a.attr == fld for a in ast.walk(c.args[0])) for c in calls(x.ast))
            if not any(reads(x) for x in cfg.stmts() if any(x.ast is y for st in lp.body for y in ast.walk(st))):
                continue
            n += 1
            w = iteration_skips(cfg, lp, reads)
            rep.ob(R, site, "each branch's %s translated" % fld, w is None,
                   "an iteration over the branches can end without get_mx(tree.%s[...]): the subscripts in that branch are never checked" % fld,
                   path=cfg.describe(w) if w else "")
    if n < 2:
        raise MechanismMissing(R, "the branch loop of exitIfExpression (get_mx of tree.conditions[..] and tree.expressions[..]) was not found")


@SPEC.rule(
    "R23.11",
    "subscript values are computed for the loop they belong to: nothing in the CasADi generator is remembered under the printed form of an "
    "expression — the element numbers a loop's index expression evaluates to depend on the loop's range, which str(<expression>) does not show",
)
def r23_11(ctx, rep):
    from ._memo import no_text_keyed_tables
    no_text_keyed_tables(ctx, rep, "R23.11", GEN, "the CasADi generator", 20)


@SPEC.rule(
    "R23.12",
    "no unchecked conversion outside the checked ones: apart from the two functions whose conversions R23.1 examines, no function of the CasADi "
    "generator subscripts anything with `<value> - 1` — picking `values[k - 1]` out of an array literal with a Python list index makes k = 0 "
    "the last element and k = -1 the one before it",
)
def r23_12(ctx, rep):
    R = "R23.12"
    probe = ast.parse("def f(v, k):\n    return v.values[g(k) - 1]\n").body[0]

    def conversions(fn):
        out = []
        for s_ in ast.walk(fn):
            if isinstance(s_, ast.Subscript):
                for b in ast.walk(s_.slice):
                    if isinstance(b, ast.BinOp) and isinstance(b.op, ast.Sub) and isinstance(b.right, ast.Constant) and b.right.value == 1 \
                            and not isinstance(b.left, ast.Constant):
                        out.append((s_.lineno, norm(s_)[:60]))
        return out

    if not conversions(probe):
        raise AnalysisError(R, "self-test of the conversion detector failed")
    mod = ctx.module(GEN, R)
    n = 0
    hits = []
    for cls in [c for c in mod.body if isinstance(c, ast.ClassDef)]:
        for fn in [f for f in cls.body if isinstance(f, ast.FunctionDef)]:
            n += 1
            if "%s.%s" % (cls.name, fn.name) in FUNCS:
                continue
            hits += ["%s.%s line %d: %s" % (cls.name, fn.name, ln, t) for ln, t in conversions(fn)]
    if n < 30:
        raise MechanismMissing(R, "fewer than 30 methods scanned in the CasADi generator")
    rep.ob(R, GEN, "no 1-based value is used as a Python index without a range check", not hits, "; ".join(hits[:3]))


@SPEC.rule(
    "R23.13",
    "no way around the range checks: every `return` of Generator.get_indexed_symbol (and of a helper split off from it) lies behind the loop "
    "over the subscripts in which the bounds are tested — a shortcut in front of it (`an empty symbol stays empty`) accepts e[1] on Real e[0] "
    "and silently drops the equation",
)
def r23_13(ctx, rep):
    R = "R23.13"
    fn = ctx.func(GEN, "Generator.get_indexed_symbol", R)
    site = GEN + ":Generator.get_indexed_symbol"
    cfg = CFG(fn, R)
    loops = [lp for lp in walk_local(fn) if isinstance(lp, ast.For) and any(isinstance(x, ast.Raise) for b in lp.body for x in ast.walk(b))
             and ("indices" in norm(lp.iter) or "shapes" in norm(lp.iter))]
    if not loops:
        raise MechanismMissing(R, "the loop over the subscripts that raises on a bad subscript was not found")
    heads = {x.id for x in cfg.nodes if x.kind == "iter" and x.ast is loops[0]}
    rets = [x for x in cfg.stmts() if isinstance(x.ast, ast.Return) and x.ast.value is not None]
    if not rets:
        raise MechanismMissing(R, "get_indexed_symbol returns nothing")
    for k, r_ in enumerate(rets):
        w = cfg.must_pass(cfg.entry, r_.id, heads)
        rep.ob(R, site, "return #%d (`%s`) lies behind the subscript checks" % (k + 1, norm(r_.ast)[:40]), w is None,
               "the function can return a selection without having looked at the subscripts", path=cfg.describe(w) if w else "")


@SPEC.rule(
    "R23.14",
    "the subscripts a loop index expression produces are the values it has, for every iteration (R12.6 evaluated for this property): computed "
    "from the first two iterations and continued linearly, x[i*i] for i in 1:3 stays inside an array it actually leaves",
)
def r23_14(ctx, rep):
    from ..engine import run_as
    from .c12 import r12_6
    run_as(r12_6, "R23.14", ctx, rep)


@SPEC.rule(
    "R23.15",
    "both sides of every equation are translated: every path through Generator.exitEquation to a normal return passes self.get_mx of the "
    "left-hand side and of the right-hand side — subscripts are range-checked only when get_mx reaches the reference, so an equation that is "
    "given an empty residual up front (`the loop has no iterations`) keeps v[5] on Real v[3] unseen",
)
def r23_15(ctx, rep):
    R = "R23.15"
    fn = ctx.func(GEN, "Generator.exitEquation", R)
    site = GEN + ":Generator.exitEquation"
    cfg = CFG(fn, R)
    for side in ("left", "right"):
        from ..pyutil import inlined

        def res(e):
            return norm(inlined(e, fn.body))

        nodes = {x.id for x in cfg.nodes if x.ast is not None and x.kind in ("stmt", "test") and not isinstance(x.ast, (ast.If, ast.For, ast.While, ast.Try, ast.With, ast.FunctionDef))
                 and any(isinstance(c.func, ast.Attribute) and c.func.attr == "get_mx" and c.args and (
                     res(c.args[0]) == "tree." + side or (isinstance(c.args[0], ast.Name) and any(
                         isinstance(g, ast.comprehension) and res(g.iter) == "tree." + side for g in ast.walk(x.ast)))) for c in calls(x.ast))}
        if not nodes:
            raise MechanismMissing(R, "the translation of tree.%s was not found in exitEquation" % side)
        w = cfg.must_pass(cfg.entry, cfg.exit, nodes)
        rep.ob(R, site, "the %s-hand side is translated on every path" % side, w is None,
               "exitEquation can return without get_mx(tree.%s): the references on that side are never resolved, and their subscripts never checked" % side,
               path=cfg.describe(w) if w else "")


# -- seeded variants ---------------------------------------------------------
from ._mut import replace_in_func  # noqa: E402


@SPEC.mutant("integer range check removed", GEN, "R23.1", "sl - 1")
def _m1(mod):
    def edit(fn):
        for n in ast.walk(fn):
            if isinstance(n, ast.If) and norm(n.test) == "sl <= 0 or sl > dim":
                n.test = ast.Constant(value=False)
                return True
        return False

    return mod if replace_in_func(mod, "Generator.get_indexed_symbol", edit) else None


@SPEC.mutant("lower bound check lost", GEN, "R23.1", "sl - 1")
def _m2(mod):
    def edit(fn):
        for n in ast.walk(fn):
            if isinstance(n, ast.If) and norm(n.test) == "sl <= 0 or sl > dim":
                n.test = ast.parse("sl > dim", mode="eval").body
                return True
        return False

    return mod if replace_in_func(mod, "Generator.get_indexed_symbol", edit) else None


@SPEC.mutant("scalar subscript accepted", GEN, "R23.2", "scalar")
def _m3(mod):
    def edit(fn):
        for n in ast.walk(fn):
            if isinstance(n, ast.If) and "dim is None" in norm(n.test) and "sl is not None" in norm(n.test):
                n.body = [ast.parse("sl = None").body[0]]
                return True
        return False

    return mod if replace_in_func(mod, "Generator.get_indexed_symbol", edit) else None


@SPEC.mutant("size-one dimension skips the check", GEN, "R23.3", "int branch")
def _m4(mod):
    def edit(fn):
        for n in ast.walk(fn):
            if isinstance(n, ast.If) and norm(n.test) == "isinstance(sl, int)":
                new = ast.If(test=ast.parse("isinstance(sl, int) and dim == 1", mode="eval").body, body=[ast.parse("sl = 0").body[0]], orelse=[n])
                # replace n by new inside its parent
                for p_ in ast.walk(fn):
                    for fld in ("body", "orelse"):
                        b = getattr(p_, fld, None)
                        if isinstance(b, list) and n in b and p_ is not new:
                            b[b.index(n)] = new
                            return True
        return False

    return mod if replace_in_func(mod, "Generator.get_indexed_symbol", edit) else None


@SPEC.mutant("unknown subscript value treated as no subscript", GEN, "R23.4", "whole-dimension slice")
def _m_unknown(mod):
    def edit(fn):
        for n in ast.walk(fn):
            if isinstance(n, ast.If) and norm(n.test).endswith(" is None") and n.body and isinstance(n.body[0], ast.Raise) and "no known value" in norm(n.body[0]):
                n.body = [ast.Pass()]
                return True
        return False

    return mod if replace_in_func(mod, "Generator.get_indexed_symbol", edit) else None


@SPEC.mutant("slice resolved with slice.indices(dim)", GEN, "R23.5", "clamping")
def _m_clamp(mod):
    def edit(fn):
        for node in ast.walk(fn):
            for fld in ("body", "orelse"):
                b = getattr(node, fld, None)
                if isinstance(b, list):
                    for i, st in enumerate(b):
                        if isinstance(st, ast.Assign) and is_name(st.targets[0], "sl") and isinstance(st.value, ast.Call) and is_name(st.value.func, "slice") \
                                and len(st.value.args) == 3 and not all(isinstance(a, ast.Constant) for a in st.value.args):
                            b.insert(i + 1, ast.parse("sl = slice(*sl.indices(dim))").body[0])
                            return True
        return False

    return mod if replace_in_func(mod, "Generator.get_indexed_symbol", edit) else None


@SPEC.mutant("surplus-subscript test only for nested names", GEN, "R23.6", "for every name part")
def _m_surplus_nested(mod):
    def edit(fn):
        for n in ast.walk(fn):
            for f in ("body", "orelse"):
                lst = getattr(n, f, None)
                if isinstance(lst, list):
                    for i, st in enumerate(lst):
                        if isinstance(st, ast.If) and norm(st.test).startswith("len(index_array) > len(shape)"):
                            lst[i] = ast.If(test=ast.parse("len(tree.indices) != 1", mode="eval").body, body=[st], orelse=[])
                            return True
        return False

    return mod if replace_in_func(mod, "Generator.get_indexed_symbol", edit) else None


@SPEC.mutant("whole-vector loops mapped over the symbol itself", GEN, "R23.7", "gathers by")
def _m_no_gather(mod):
    def edit(fn):
        for n in ast.walk(fn):
            for f in ("body", "orelse"):
                lst = getattr(n, f, None)
                if isinstance(lst, list):
                    for i, st in enumerate(lst):
                        if isinstance(st, ast.Assign) and norm(st) == "indexed_symbol = orig_symbol[indices]":
                            lst[i] = ast.If(test=ast.parse("isinstance(indices, np.ndarray) and indices.size == orig_symbol.size1()", mode="eval").body,
                                            body=ast.parse("indexed_symbol = orig_symbol").body, orelse=[st])
                            return True
        return False

    return mod if replace_in_func(mod, "Generator.exitForEquation", edit) else None


@SPEC.mutant("empty-range loops stay on the loop stack", GEN, "R23.8", "on every path")
def _m_loop_left(mod):
    def edit(fn):
        for i, st in enumerate(fn.body):
            if isinstance(st, ast.Assign) and norm(st.value) == "self.for_loops.pop()":
                st.value = ast.parse("self.for_loops[-1]", mode="eval").body
                for nxt in fn.body[i + 1:]:
                    if isinstance(nxt, ast.If):
                        nxt.body.append(ast.parse("self.for_loops.pop()").body[0])
                        return True
        return False

    return mod if replace_in_func(mod, "Generator.exitForEquation", edit) else None


@SPEC.mutant("range check of a constant subscript skipped next to a loop index", GEN, "R23.3", "")
def _m_check_only_without_loop(mod):
    def edit(fn):
        for n in ast.walk(fn):
            if isinstance(n, ast.If) and norm(n.test).replace(" ", "") in ("sl<=0orsl>dim",):
                n.test = ast.BoolOp(op=ast.And(), values=[ast.parse("for_loop is None", mode="eval").body, n.test])
                return True
        return False

    return mod if replace_in_func(mod, "Generator.get_indexed_symbol", edit) else None


@SPEC.mutant("fixed-column loop gather through a flat index", GEN, "R23.9", "passes the loop's subscripts on unchanged")
def _m_flat_index(mod):
    def edit(fn):
        for d in ast.walk(fn):
            if isinstance(d, ast.FunctionDef) and d.name == "index_function" and isinstance(d.body[0], ast.Return) and isinstance(d.body[0].value, ast.Tuple) \
                    and isinstance(d.body[0].value.elts[0], ast.Name):
                d.body[0].value = ast.parse("i + indices[1] * s.size1()", mode="eval").body
                return True
        return False

    return mod if replace_in_func(mod, "Generator.get_indexed_symbol", edit) else None


@SPEC.mutant("if-expression branch behind a literal false is skipped", GEN, "R23.10", "expressions translated")
def _m_dead_branch(mod):
    def edit(fn):
        for lp in ast.walk(fn):
            if isinstance(lp, ast.For):
                conds = [c for st in lp.body for c in ast.walk(st) if isinstance(c, ast.Call) and isinstance(c.func, ast.Attribute) and c.func.attr == "get_mx"
                         and "tree.conditions" in norm(c)]
                if conds:
                    lp.body.insert(0, ast.parse("if %s is False:\n    continue" % norm(conds[0])).body[0])
                    return True
        return False

    return mod if replace_in_func(mod, "Generator.exitIfExpression", edit) else None
