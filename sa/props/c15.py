"""C15 — simplification keeps regular systems square and self-contained."""
from __future__ import annotations

import ast

from ..cfg import CFG
from ..engine import AnalysisError, MechanismMissing, PropertySpec, norm
from ..pyutil import call_name, calls, is_name, walk_local
from ._simplify import META_PASSES, MODEL, option_blocks, passes, simplify_fn, substitutions

SPEC = PropertySpec(
    "C15",
    "Simplification keeps regular systems square and self-contained",
    decided=(
        "pairing: in every loop of _simplify_once that rebuilds the equation list, each path that drops an equation "
        "passes a removal of one unknown (pop/del from the state dictionaries, or an alias registration), and the "
        "model's variable lists are rebuilt from those dictionaries; completeness: every pass that eliminates symbols "
        "with a (symbols, values) substitution applies it to equations, initial_equations, delay_arguments and (for "
        "parameters/constants and vector expansion) the metadata."
    ),
    not_decided="that the removed unknown is the one the dropped equation determines (value-level).",
)


def _find_loops(fn):
    """for eq in self.equations loops that rebuild a reduced list (append + continue)."""
    out = []
    for n in ast.walk(fn):
        if isinstance(n, ast.For) and norm(n.iter) == "self.equations" and isinstance(n.target, ast.Name):
            # the list that becomes self.equations afterwards (whether kept equations are appended in an else branch, after a `continue`, ...)
            kept = {norm(st.value) for st in ast.walk(fn) if isinstance(st, ast.Assign) and norm(st.targets[0]) == "self.equations" and isinstance(st.value, ast.Name)}
            app = [c for c in calls(n) if isinstance(c.func, ast.Attribute) and c.func.attr == "append" and c.args and is_name(c.args[0], n.target.id)
                   and norm(c.func.value) in kept]
            if app:
                out.append((n, norm(app[0].func.value)))
    return out


REMOVAL_DICTS = ("alg_states", "states", "der_states", "all_states")


def _is_removal(node) -> bool:
    if node.kind == "stmt":
        a = node.ast
        if isinstance(a, ast.Delete):
            return any(isinstance(t, ast.Subscript) and norm(t.value) in REMOVAL_DICTS for t in a.targets)
        if isinstance(a, (ast.FunctionDef, ast.ClassDef)):
            return False
        for c in calls(a):
            if isinstance(c.func, ast.Attribute) and c.func.attr == "pop" and norm(c.func.value) in REMOVAL_DICTS:
                return True
    return False


@SPEC.rule(
    "R15.1",
    "drop => remove: in each loop that rebuilds the equation list, every path through the loop body either appends "
    "the equation to the reduced list or removes an unknown (pop/del on alg_states/states/der_states, or a successful "
    "_make_alias, which registers the alias on every path returning True); aliases substituted away are deleted from "
    "the state dictionary; the model lists are rebuilt from the dictionaries after the loop",
)
def r15_1(ctx, rep):
    R = "R15.1"
    fn = simplify_fn(ctx, R)
    blocks = option_blocks(fn)
    site = MODEL + ":Model._simplify_once"
    n = 0
    for name, blk in blocks.items():
        for loop, reduced in _find_loops(ast.Module(body=blk.body, type_ignores=[])):
            n += 1
            cfg = CFG(ast.Module(body=[loop], type_ignores=[]), R)
            it = [x for x in cfg.nodes if x.kind == "iter" and x.ast is loop][0]
            body_entry = [s for s in cfg.succ[it.id] if cfg.nodes[s].kind == "assume" and cfg.nodes[s].taken][0]
            keep = {x.id for x in cfg.stmts() if any(isinstance(c.func, ast.Attribute) and c.func.attr == "append" and norm(c.func.value) == reduced
                                                       for c in calls(x.ast) if not isinstance(x.ast, (ast.FunctionDef, ast.ClassDef)))}
            removal = {x.id for x in cfg.nodes if _is_removal(x)}
            # successful alias registration: true branch of a test calling _make_alias
            from ..cfg import assume_truth
            for x in cfg.nodes:
                if x.kind == "assume":
                    for c in calls(x.ast):
                        if is_name(c.func, "_make_alias") and assume_truth(x, norm(c)) is True:
                            removal.add(x.id)
            # NB: `if v in states: ... elif v in alg_states: ...` without an else is NOT treated as exhaustive: the extraction
            # helper tests a snapshot dictionary, so a variable removed by an earlier equation reaches the implicit else (D25)
            w = cfg.path(body_entry, it.id, avoid=(keep | removal) - {it.id})
            # a path that leaves by `continue` returns to the iter node: covered by the same query
            rep.ob(R, site, "loop of %s" % name, w is None,
                   "a path through the equation loop of `%s` neither keeps the equation nor removes an unknown: the system "
                   "loses an equation but keeps its unknown" % name, path=cfg.describe(w) if w else "")
            # model lists rebuilt from the dictionaries
            after = []
            seen = False
            for st in blk.body:
                if seen:
                    after.append(norm(st))
                if any(x is loop for x in ast.walk(st)):
                    seen = True
            rebuilt = [a for a in after if a.startswith("self.alg_states =") and "alg_states" in a.split("=", 1)[1]]
            eqs = [a for a in after if a == "self.equations = %s" % reduced]
            rep.ob(R, site, "rebuild after loop of %s" % name, bool(rebuilt) and bool(eqs),
                   "after the loop self.alg_states must be rebuilt from the dictionary the loop removed from and self.equations "
                   "set to the reduced list (found %s / %s)" % (rebuilt[:1], eqs[:1]))
    if n < 3:
        raise MechanismMissing(R, "fewer than 3 equation-reducing loops found")
    # _make_alias: True only after alias_relation.add
    ma = None
    for x in ast.walk(fn):
        if isinstance(x, ast.FunctionDef) and x.name == "_make_alias":
            ma = x
    if ma is None:
        raise MechanismMissing(R, "_make_alias not found")
    cfg = CFG(ma, R)
    adds = {x.id for x in cfg.stmts() if "self.alias_relation.add(" in norm(x.ast)}
    bad = None
    for x in cfg.stmts():
        if isinstance(x.ast, ast.Return) and isinstance(x.ast.value, ast.Constant) and x.ast.value.value is True:
            w = cfg.must_pass(cfg.entry, x.id, adds)
            if w is not None:
                bad = w
    rep.ob(R, site + "._make_alias", "True only after alias_relation.add", bool(adds) and bad is None,
           "_make_alias may report success (equation dropped) only when it registered an alias", path=cfg.describe(bad) if bad else "")
    # alias pass: substituted aliases are deleted from all_states
    da = blocks.get("detect_aliases")
    ok = False
    if da is not None:
        for lp in ast.walk(da):
            if isinstance(lp, ast.For) and is_name(lp.iter, "aliases"):
                c2 = CFG(ast.Module(body=[lp], type_ignores=[]), R)
                it = [x for x in c2.nodes if x.kind == "iter" and x.ast is lp][0]
                # the list of substituted symbols: first argument pair of the pass's substitution of self.equations
                symvar = next((s_["symbols"] for s_ in substitutions(da.body) if s_["store"] == "equations"), None)
                subs = [x for x in c2.stmts() if symvar and norm(x.ast).startswith(symvar + ".append(")]
                dels = {x.id for x in c2.stmts() if isinstance(x.ast, ast.Delete) and norm(x.ast).startswith("del all_states[")}
                ok = bool(subs) and bool(dels) and all(c2.must_pass(s.id, it.id, dels) is None for s in subs)
    rep.ob(R, site, "substituted alias removed", ok,
           "every alias whose symbol is substituted by its canonical variable must be deleted from the state dictionary "
           "(otherwise the variable stays in the model with no equation mentioning it)")


@SPEC.rule(
    "R15.2",
    "substitution completeness (sibling agreement): every pass that substitutes self.equations with (symbols, values) "
    "applies the same pair to initial_equations and delay_arguments, and — for parameter/constant passes and vector "
    "expansion — to the metadata",
)
def r15_2(ctx, rep):
    R = "R15.2"
    for name, site, subs in passes(ctx, R):
        eq = [s for s in subs if s["store"] == "equations"]
        for e in eq[:1]:
            pair = (e["symbols"], e["values"])
            need = ["initial_equations", "delay_arguments"]
            base = name.split("#")[0].split("+")[0]
            if base in META_PASSES or name == "_expand_vectors":
                need.append("metadata")
            for store in need:
                ok = any(s["store"] == store and (s["symbols"], s["values"]) == pair for s in subs)
                rep.ob(R, site, "pass %s -> %s" % (name, store), ok,
                       "pass `%s` removes the symbols `%s` from the model and substitutes them in equations but not in %s: "
                       "the remaining %s still refer to eliminated variables and the corresponding function cannot be built"
                       % (name, pair[0], store, store))


UNSIGNED_TABLES = {"do_not_eliminate", "all_states", "states", "alg_states", "der_states", "inputs", "parameters", "constants"}


def _unsigned_table(e) -> bool:
    """name tables keyed by plain variable names: the pass's local tables and any relation's canonical_variables"""
    return norm(e) in UNSIGNED_TABLES or (isinstance(e, ast.Attribute) and e.attr == "canonical_variables")


@SPEC.rule(
    "R15.3",
    "signed names never index unsigned tables: in the alias pass, values that come from AliasRelation.aliases() or from "
    "iterating a relation's alias sets are SIGNED names ('-x' for a negative alias); they may be tested against / used "
    "as keys of the name tables (do_not_eliminate, all_states, states, alg_states, ...) only after the sign was "
    "stripped (`if v[0] == '-': v = v[1:]`) or through canonical_signed(...)[0]",
)
def r15_3(ctx, rep):
    R = "R15.3"
    fn = simplify_fn(ctx, R)
    blk = option_blocks(fn).get("detect_aliases")
    if blk is None:
        raise MechanismMissing(R, "detect_aliases block not found")
    site = MODEL + ":Model._simplify_once"

    def is_signed_source(e):
        return isinstance(e, ast.Call) and isinstance(e.func, ast.Attribute) and e.func.attr == "aliases" and "alias_relation" in norm(e.func.value)

    # signed variables: bound to aliases(...), or the second element when iterating a relation, and loop variables over them
    signed_sets, signed_vars = set(), set()
    changed = True
    while changed:
        changed = False
        for n in ast.walk(blk):
            if isinstance(n, ast.Assign) and isinstance(n.targets[0], ast.Name) and (is_signed_source(n.value) or (isinstance(n.value, ast.Name) and n.value.id in signed_sets)):
                if n.targets[0].id not in signed_sets:
                    signed_sets.add(n.targets[0].id)
                    changed = True
            if isinstance(n, (ast.For, ast.comprehension)):
                it, tg = n.iter, n.target
                if "alias_relation" in norm(it) and isinstance(tg, ast.Tuple) and len(tg.elts) == 2 and isinstance(tg.elts[1], ast.Name):
                    if tg.elts[1].id not in signed_sets:
                        signed_sets.add(tg.elts[1].id)
                        changed = True
                if isinstance(tg, ast.Name) and ((isinstance(it, ast.Name) and it.id in signed_sets) or is_signed_source(it)):
                    if tg.id not in signed_vars:
                        signed_vars.add(tg.id)
                        changed = True
    # sanitising ifs: `if v[0] == "-": ...; v = v[1:]`
    sanitised_after = {}
    for n in ast.walk(blk):
        if isinstance(n, ast.If) and isinstance(n.test, ast.Compare) and isinstance(n.test.left, ast.Subscript) and isinstance(n.test.left.value, ast.Name) \
                and isinstance(n.test.comparators[0], ast.Constant) and n.test.comparators[0].value == "-":
            v = n.test.left.value.id
            if any(isinstance(st, ast.Assign) and is_name(st.targets[0], v) and norm(st.value) == "%s[1:]" % v for st in n.body):
                sanitised_after[v] = n
    n_checked = 0

    def signed_expr(e, at):
        """does expression e evaluate to a signed name / a set of signed names at node `at`?"""
        if is_signed_source(e):
            return True
        if isinstance(e, ast.Name):
            if e.id in signed_sets:
                return True
            if e.id in signed_vars:
                san = sanitised_after.get(e.id)
                if san is not None and _later_sibling(at, san):
                    return False
                return True
        if isinstance(e, ast.BinOp):
            return signed_expr(e.left, at) or signed_expr(e.right, at)
        return False

    for n in ast.walk(blk):
        uses = []
        if isinstance(n, ast.Compare) and len(n.ops) == 1 and isinstance(n.ops[0], (ast.In, ast.NotIn)) and _unsigned_table(n.comparators[0]):
            uses.append((n.left, norm(n.comparators[0]), norm(n)))
        elif isinstance(n, ast.Subscript) and _unsigned_table(n.value):
            uses.append((n.slice, norm(n.value), norm(n)))
        elif isinstance(n, ast.Call) and isinstance(n.func, ast.Attribute) and n.func.attr in ("isdisjoint", "intersection", "issubset", "issuperset", "pop", "get") \
                and n.args:
            if _unsigned_table(n.func.value):
                uses.append((n.args[0], norm(n.func.value), norm(n)))
            elif _unsigned_table(n.args[0]):
                uses.append((n.func.value, norm(n.args[0]), norm(n)))
        elif isinstance(n, ast.BinOp) and isinstance(n.op, (ast.BitAnd, ast.Sub)) and (_unsigned_table(n.left) or _unsigned_table(n.right)):
            other = n.right if _unsigned_table(n.left) else n.left
            uses.append((other, norm(n.left) if _unsigned_table(n.left) else norm(n.right), norm(n)))
        for e, table, text in uses:
            n_checked += 1
            bad = signed_expr(e, n)
            if bad or n_checked <= 40:
                rep.ob(R, site, "use `%s`" % text[:90], not bad,
                       "`%s` may be a SIGNED alias name ('-x'); the table `%s` is keyed by plain variable names, so a negative alias is "
                       "never found there (e.g. an algebraic variable tied to `-input` is no longer recognised as protected)" % (norm(e)[:60], table))
    if n_checked < 8:
        raise MechanismMissing(R, "fewer than 8 uses of the name tables found in the alias pass")


def _later_sibling(at, stmt) -> bool:
    """`at` lies in (or under) a statement that follows `stmt` in stmt's own statement list — decided on the tree, not by line numbers
    (statements inlined from a helper keep the helper's line numbers)"""
    holder = getattr(stmt, "_parent", None)
    if holder is None:
        return False
    lst = next((getattr(holder, f) for f in ("body", "orelse", "finalbody") if isinstance(getattr(holder, f, None), list) and stmt in getattr(holder, f)), None)
    if lst is None:
        return False
    cur = at
    while cur is not None and getattr(cur, "_parent", None) is not holder:
        cur = getattr(cur, "_parent", None)
    if cur is None or cur not in lst:
        return False
    return lst.index(cur) > lst.index(stmt)


def _category_tables(blk):
    """local name -> Model list it indexes by name:  X = OrderedDict([(s.symbol.name(), s) for s in self.<cat>])"""
    out = {}
    for st in ast.walk(blk):
        if isinstance(st, ast.Assign) and isinstance(st.targets[0], ast.Name) and isinstance(st.value, ast.Call) and st.value.args:
            comp = st.value.args[0]
            if isinstance(comp, (ast.ListComp, ast.GeneratorExp, ast.DictComp)) and len(comp.generators) == 1:
                it = comp.generators[0].iter
                if isinstance(it, ast.Attribute) and is_name(it.value, "self"):
                    out[st.targets[0].id] = it.attr
    return out


@SPEC.rule(
    "R15.4",
    "the alias pass protects everything it can see except the eliminable category: the categories merged into the "
    "pass's name universe (all_states.update(<table>)) minus the categories whose names are put into the protected set "
    "(the set tested with `canonical_signed(..)[0] in <set>`) is exactly {alg_states} — an unprotected non-algebraic "
    "canonical variable can be unseated, and then two equations are dropped for one removed unknown",
)
def r15_4(ctx, rep):
    R = "R15.4"
    fn = simplify_fn(ctx, R)
    blk = option_blocks(fn).get("detect_aliases")
    if blk is None:
        raise MechanismMissing(R, "detect_aliases block not found")
    site = MODEL + ":Model._simplify_once"
    tables = _category_tables(blk)
    # universe: D.update(<table>) calls on one dictionary
    upd = {}
    for c in calls(blk):
        if isinstance(c.func, ast.Attribute) and c.func.attr == "update" and isinstance(c.func.value, ast.Name) and len(c.args) == 1 \
                and isinstance(c.args[0], ast.Name) and c.args[0].id in tables:
            upd.setdefault(c.func.value.id, set()).add(tables[c.args[0].id])
    if not upd:
        raise MechanismMissing(R, "the alias pass no longer merges the per-category tables into one name universe")
    universe = max(upd.values(), key=len)
    # protected set: the name tested with `<...canonical_signed(...)[0]> in NAME`
    prot_names = set()
    for n in ast.walk(blk):
        if isinstance(n, ast.Compare) and len(n.ops) == 1 and isinstance(n.ops[0], (ast.In, ast.NotIn)) and isinstance(n.comparators[0], ast.Name) \
                and any(isinstance(c, ast.Call) and isinstance(c.func, ast.Attribute) and c.func.attr == "canonical_signed" for c in ast.walk(n.left)):
            prot_names.add(n.comparators[0].id)
    if not prot_names:
        raise MechanismMissing(R, "no `canonical_signed(..)[0] in <protected set>` test left in the alias pass")
    for pn in sorted(prot_names):
        cats = set()
        for st in ast.walk(blk):
            if isinstance(st, ast.Assign) and is_name(st.targets[0], pn):
                cats |= {tables[x.id] for x in ast.walk(st.value) if isinstance(x, ast.Name) and x.id in tables}
            if isinstance(st, ast.Call) and isinstance(st.func, ast.Attribute) and is_name(st.func.value, pn) and st.func.attr in ("update", "add"):
                cats |= {tables[x.id] for a in st.args for x in ast.walk(a) if isinstance(x, ast.Name) and x.id in tables}
        missing = universe - cats - {"alg_states"}
        rep.ob(R, site, "protected set `%s` covers the universe" % pn if len(prot_names) > 1 else "protected set covers the universe",
               not missing and "alg_states" not in cats,
               "categories visible to the alias pass %s, protected %s: names of %s can become an eliminated alias although only algebraic "
               "states may be eliminated" % (sorted(universe), sorted(cats), sorted(missing) or "alg_states (protected, nothing is eliminable)"))
    rep.ob(R, site, "universe has the six categories", len(universe) >= 6, "expected states, der_states, alg_states, inputs, parameters, constants; found %s" % sorted(universe))


def _model_list_shrunk(blk):
    """Model lists (self.X) re-assigned inside the pass to an empty list or to a local filtered list"""
    out = {}
    for st in ast.walk(blk):
        if isinstance(st, ast.Assign) and isinstance(st.targets[0], ast.Attribute) and is_name(st.targets[0].value, "self") \
                and st.targets[0].attr in ("parameters", "constants") and isinstance(st.value, (ast.List, ast.Name, ast.ListComp)):
            out[st.targets[0].attr] = st
    return out


@SPEC.rule(
    "R15.5",
    "values substituted for eliminated symbols are closed: every pass of _simplify_once that substitutes (symbols, values) "
    "into the equations and then removes those parameters/constants from the model either (a) admits a symbol only after "
    "testing its value with .is_constant(), or (b) first substitutes the values into themselves "
    "(ca.substitute(values, symbols, values)) — otherwise `constant c2 = 2*c1` leaves c1 in the residual after both "
    "constants were removed",
)
def r15_5(ctx, rep):
    R = "R15.5"
    fn = simplify_fn(ctx, R)
    site = MODEL + ":Model._simplify_once"
    n = 0
    for name, blk in option_blocks(fn).items():
        subs = [s_ for s_ in substitutions(blk.body) if s_["store"] == "equations"]
        shrunk = _model_list_shrunk(blk)
        if not subs or not shrunk:
            continue
        vals, syms = subs[0]["node"].value.args[2], subs[0]["node"].value.args[1]
        # the substituted symbols are those of the list that shrinks: self._symbols(self.L), or X.symbol appended in `for X in self.L`
        src = set()
        if isinstance(syms, ast.Name):
            for st in ast.walk(blk):
                if isinstance(st, ast.Assign) and any(is_name(t, syms.id) for t in st.targets) and isinstance(st.value, ast.Call) \
                        and (call_name(st.value) or "").endswith("_symbols") and st.value.args and isinstance(st.value.args[0], ast.Attribute):
                    src.add(st.value.args[0].attr)
                if isinstance(st, ast.For) and isinstance(st.iter, ast.Attribute) and is_name(st.iter.value, "self") and any(
                        isinstance(c, ast.Call) and isinstance(c.func, ast.Attribute) and c.func.attr == "append" and is_name(c.func.value, syms.id) for c in ast.walk(st)):
                    src.add(st.iter.attr)
        if not (src & set(shrunk)):
            continue
        n += 1
        # (b) self-substitution of the values
        selfsub = False
        for c in calls(blk):
            if (call_name(c) or "").endswith("substitute") and len(c.args) == 3 and not norm(c.args[0]).startswith("self.") \
                    and norm(c.args[1]) == norm(syms) and norm(c.args[2]) == norm(c.args[0]) or \
                    ((call_name(c) or "").endswith("substitute") and len(c.args) == 3 and not norm(c.args[0]).startswith("self.")
                     and norm(c.args[1]) == norm(syms) and {x.id for x in ast.walk(c.args[0]) if isinstance(x, ast.Name)} & {x.id for x in ast.walk(vals) if isinstance(x, ast.Name)}):
                selfsub = True
        # (a) every append to the values list is dominated by an is_constant() test
        guarded = False
        if isinstance(vals, ast.Name):
            apps = [c for c in calls(blk) if isinstance(c.func, ast.Attribute) and c.func.attr == "append" and is_name(c.func.value, vals.id)]
            if apps:
                guarded = True
                for a in apps:
                    p_ = getattr(a, "_parent", None)
                    found = False
                    child = a
                    while p_ is not None and p_ is not blk:
                        if isinstance(p_, ast.If) and any(child is x or any(child is y for y in ast.walk(x)) for x in p_.body) and "is_constant()" in norm(p_.test) \
                                and not (isinstance(p_.test, ast.UnaryOp) and isinstance(p_.test.op, ast.Not)):
                            found = True
                        child = p_
                        p_ = getattr(p_, "_parent", None)
                    guarded = guarded and found
        rep.ob(R, site, "pass %s: substituted values are closed" % name, selfsub or guarded,
               "the pass removes %s from the model after substituting their values, but a value that refers to another removed symbol is "
               "substituted as it is (no .is_constant() admission test, no substitution of the values into themselves): the "
               "residual then refers to an eliminated symbol" % "/".join(sorted(shrunk)))
    if n < 4:
        raise MechanismMissing(R, "fewer than 4 by-value elimination passes found (found %d)" % n)


@SPEC.rule(
    "R15.6",
    "one set of fresh input symbols: an attribute of Model that holds a freshly created symbol (self._X = ca.MX.sym(...)) "
    "and is used as an input of the residual-function properties is never assigned inside a loop — the expressions stored "
    "by an earlier iteration would keep referring to symbols that the attribute no longer holds, and the residual "
    "function could not be built (free variables)",
)
def r15_6(ctx, rep):
    R = "R15.6"
    cls = ctx.cls(MODEL, "Model", R)
    props = [m for m in cls.body if isinstance(m, ast.FunctionDef) and m.name.endswith("_function")]
    used = {a.attr for m in props for a in ast.walk(m) if isinstance(a, ast.Attribute) and is_name(a.value, "self")}
    n = 0
    for m in cls.body:
        if not isinstance(m, ast.FunctionDef):
            continue
        for st in walk_local(m):
            if isinstance(st, ast.Assign) and isinstance(st.targets[0], ast.Attribute) and is_name(st.targets[0].value, "self") \
                    and isinstance(st.value, ast.Call) and (call_name(st.value) or "").endswith("MX.sym") and st.targets[0].attr in used:
                n += 1
                loop = None
                p_ = getattr(st, "_parent", None)
                while p_ is not None and p_ is not m:
                    if isinstance(p_, (ast.For, ast.While)):
                        loop = p_
                    p_ = getattr(p_, "_parent", None)
                rep.ob(R, MODEL + ":Model." + m.name, "fresh symbol self.%s created once" % st.targets[0].attr, loop is None,
                       "self.%s is re-created on every iteration of `for %s in %s`: what the first iteration stored refers to symbols that "
                       "are no longer inputs of the residual functions" % (st.targets[0].attr, norm(loop.target) if isinstance(loop, ast.For) else "",
                                                                           norm(loop.iter)[:60] if isinstance(loop, ast.For) else "while"))
    rep.extra["R15.6_fresh_symbol_attributes"] = n


def _conjuncts(test, positive=True):
    """atomic (expr, polarity) facts implied by `test` being true (positive) / false (not positive)"""
    if isinstance(test, ast.UnaryOp) and isinstance(test.op, ast.Not):
        return _conjuncts(test.operand, not positive)
    if isinstance(test, ast.BoolOp):
        if (isinstance(test.op, ast.And) and positive) or (isinstance(test.op, ast.Or) and not positive):
            return [f for v in test.values for f in _conjuncts(v, positive)]
        return []
    return [(test, positive)]


def _member_term(expr, positive, tables):
    """`T.name() in <table>` known true -> the text of T"""
    if isinstance(expr, ast.Compare) and len(expr.ops) == 1 and isinstance(expr.comparators[0], ast.Name) and expr.comparators[0].id in tables:
        op = expr.ops[0]
        if (isinstance(op, ast.In) and positive) or (isinstance(op, ast.NotIn) and not positive):
            l = expr.left
            if isinstance(l, ast.Call) and isinstance(l.func, ast.Attribute) and l.func.attr == "name" and not l.args:
                return norm(l.func.value)
    return None


@SPEC.rule(
    "R15.7",
    "both ends of a new alias are variables of the model: on every path of _make_alias to alias_relation.add(X.name(), "
    "[\"-\" +] Y.name()), X and Y were each tested for membership in one of the pass's name tables — a symbol outside them "
    "(time) would become a canonical variable that the elimination loop cannot look up",
)
def r15_7(ctx, rep):
    from ..cfg import must_facts
    R = "R15.7"
    fn = simplify_fn(ctx, R)
    blk = option_blocks(fn).get("detect_aliases")
    if blk is None:
        raise MechanismMissing(R, "detect_aliases block not found")
    site = MODEL + ":Model._simplify_once"
    tables = set(_category_tables(blk))
    for c in calls(blk):
        if isinstance(c.func, ast.Attribute) and c.func.attr == "update" and isinstance(c.func.value, ast.Name) and c.args and isinstance(c.args[0], ast.Name) and c.args[0].id in tables:
            tables = tables | {c.func.value.id}
    helpers = [n for n in ast.walk(blk) if isinstance(n, ast.FunctionDef) and any(
        isinstance(c.func, ast.Attribute) and c.func.attr == "add" and "alias_relation" in norm(c.func.value) for c in calls(n))]
    if not helpers:
        raise MechanismMissing(R, "no function of the alias pass registers aliases with alias_relation.add")
    n_sites = 0
    for h in helpers:
        cfg = CFG(h, R)

        # state: ("v", term) = term is known to be in a name table on every path; ("s", var, term) = var may hold term
        def close(facts):
            facts = set(facts)
            changed = True
            while changed:
                changed = False
                srcs = {}
                for f in facts:
                    if f[0] == "s":
                        srcs.setdefault(f[1], set()).add(f[2])
                for var, ss in srcs.items():
                    if ("v", var) not in facts and all(t == "None" or ("v", t) in facts for t in ss):
                        facts.add(("v", var))
                        changed = True
            return frozenset(facts)

        def join(ins):
            ins = [close(i) for i in ins]
            must = frozenset.intersection(*[frozenset(f for f in i if f[0] == "v") for i in ins])
            may = frozenset.union(*[frozenset(f for f in i if f[0] == "s") for i in ins])
            return must | may

        def transfer(node, facts):
            facts = set(close(facts))
            if node.kind == "assume":
                for e, pol in _conjuncts(node.ast, node.taken):
                    t = _member_term(e, pol, tables)
                    if t:
                        facts.add(("v", t))
            elif node.kind == "stmt" and isinstance(node.ast, ast.Assign):
                tg, val = node.ast.targets[0], node.ast.value
                if isinstance(tg, ast.Tuple) and isinstance(val, ast.Tuple) and len(tg.elts) == len(val.elts):
                    pairs = list(zip(tg.elts, val.elts))
                else:
                    pairs = [(tg, val)]
                before = set(facts)
                for t_, _v in pairs:
                    facts = {f for f in facts if not (f[1] == norm(t_))}
                for t_, v_ in pairs:
                    vt = norm(v_)
                    old_src = {f[2] for f in before if f[0] == "s" and f[1] == vt}
                    for s_ in (old_src or {vt}):
                        facts.add(("s", norm(t_), s_))
                    if ("v", vt) in before:
                        facts.add(("v", norm(t_)))
            return close(facts)

        IN = must_facts(cfg, transfer, join)
        for x in cfg.stmts():
            if isinstance(x.ast, (ast.FunctionDef, ast.ClassDef)):
                continue
            for c in calls(x.ast):
                if isinstance(c.func, ast.Attribute) and c.func.attr == "add" and "alias_relation" in norm(c.func.value) and len(c.args) == 2:
                    n_sites += 1
                    terms = []
                    for a in c.args:
                        for sub in ast.walk(a):
                            if isinstance(sub, ast.Call) and isinstance(sub.func, ast.Attribute) and sub.func.attr == "name" and not sub.args:
                                terms.append(norm(sub.func.value))
                    facts = close(IN.get(x.id, frozenset()))
                    missing = [t for t in terms if ("v", t) not in facts]
                    rep.ob(R, site, "alias registration #%d: both names are known variables" % n_sites, len(terms) == 2 and not missing,
                           "`%s` registers %s without a membership test of %s in the pass's name tables on every path: an equation such as "
                           "`a = time` makes `time` a canonical variable and the elimination loop fails to look it up" % (norm(c)[:70], terms, missing or terms))
    if n_sites < 2:
        raise MechanismMissing(R, "expected the positive and the negative alias registration")


@SPEC.rule(
    "R15.8",
    "a new alias joins two DIFFERENT classes: every alias_relation.add in the alias pass is dominated by the failed test "
    "`canonical_signed(A)[0] == canonical_signed(B)[0]` (or the passed `!=`) — an equation between two variables that are "
    "already aliases of each other (x = y; x + y = 0) removes no further unknown, so it must be kept, not dropped",
)
def r15_8(ctx, rep):
    R = "R15.8"
    fn = simplify_fn(ctx, R)
    blk = option_blocks(fn).get("detect_aliases")
    if blk is None:
        raise MechanismMissing(R, "detect_aliases block not found")
    site = MODEL + ":Model._simplify_once"
    n = 0
    for h in [x for x in ast.walk(blk) if isinstance(x, ast.FunctionDef)]:
        cfg = CFG(h, R)

        def differs(x):
            if x.kind != "assume":
                return False
            for c in ast.walk(x.ast):
                if isinstance(c, ast.Compare) and len(c.ops) == 1 and isinstance(c.ops[0], (ast.Eq, ast.NotEq)):
                    sides = [c.left, c.comparators[0]]
                    if all(isinstance(s_, ast.Subscript) and isinstance(s_.value, ast.Call) and isinstance(s_.value.func, ast.Attribute)
                           and s_.value.func.attr == "canonical_signed" for s_ in sides) and norm(sides[0]) != norm(sides[1]):
                        # the compare must be the whole test or a conjunct/disjunct whose outcome is implied by the branch
                        eq = isinstance(c.ops[0], ast.Eq)
                        facts = _conjuncts(x.ast, x.taken)
                        if any(e is c and pol == (not eq) for e, pol in facts):
                            return True
            return False

        for x in cfg.stmts():
            if isinstance(x.ast, (ast.FunctionDef, ast.ClassDef)):
                continue
            for c in calls(x.ast):
                if isinstance(c.func, ast.Attribute) and c.func.attr == "add" and "alias_relation" in norm(c.func.value) and len(c.args) == 2:
                    n += 1
                    rep.ob(R, site, "alias registration #%d joins two different classes" % n, bool(cfg.dominated_by(x.id, differs)),
                           "`%s` can run for two variables that already are aliases of each other: the equation is dropped although no unknown "
                           "is removed (x = y; x + y = 0 leaves x and y without equations)" % norm(c)[:70])
    if n < 2:
        raise MechanismMissing(R, "expected the positive and the negative alias registration")


def _cmp_names(call):
    """names compared by is_equal(veccat(*A), veccat(*B), depth) / is_equal(A, B)"""
    out = []
    for a in call.args[:2]:
        while isinstance(a, ast.Call) and a.args:
            a = a.args[0]
        if isinstance(a, ast.Starred):
            a = a.value
        out.append(a.id if isinstance(a, ast.Name) else None)
    return out


@SPEC.rule(
    "R15.9",
    "the fixed-point loops compare the previous values with the new ones: at every `is_equal(A, B)` convergence test in "
    "Model._simplify_once, no assignment `A = B` (or `B = A`) reaches the test without B (A) being recomputed in between — a loop "
    "that copies the new values over the old ones before comparing them always reports convergence after one pass, and chains of "
    "parameter / constant / eliminated-variable definitions are then substituted only one level deep",
)
def r15_9(ctx, rep):
    R = "R15.9"
    fn = simplify_fn(ctx, R)
    site = MODEL + ":Model._simplify_once"
    cfg = CFG(fn, R)
    n = 0
    for x in cfg.nodes:
        if x.kind not in ("stmt", "test") or x.ast is None or isinstance(x.ast, (ast.FunctionDef, ast.ClassDef)):
            continue
        for c in calls(x.ast):
            if not ((call_name(c) or "").split(".")[-1] == "is_equal" and len(c.args) >= 2):
                continue
            a, b = _cmp_names(c)
            if a is None or b is None:
                continue
            n += 1
            same = a == b
            witness = None
            if not same:
                for y in cfg.stmts():
                    if isinstance(y.ast, ast.Assign) and len(y.ast.targets) == 1 and isinstance(y.ast.targets[0], ast.Name) and isinstance(y.ast.value, ast.Name) \
                            and {y.ast.targets[0].id, y.ast.value.id} == {a, b}:
                        kills = {z.id for z in cfg.stmts() if z.id != y.id and isinstance(z.ast, (ast.Assign, ast.AugAssign)) and any(
                            isinstance(t, ast.Name) and t.id in (a, b) for t in (z.ast.targets if isinstance(z.ast, ast.Assign) else [z.ast.target]))}
                        w = cfg.must_pass(y.id, x.id, kills)
                        if w is not None:
                            witness = (y, w)
                            break
            rep.ob(R, site, "convergence test #%d compares two different generations (%s vs %s, line %d)" % (n, a, b, x.lineno), not same and witness is None,
                   "`%s` reaches the test `%s` with nothing recomputed in between: both operands are the same list, the loop stops after "
                   "its first pass and definitions that refer to other definitions stay half substituted" % (norm(witness[0].ast) if witness else a + " is " + b, norm(c)[:70]),
                   path=cfg.describe(witness[1]) if witness else "")
    if n < 3:
        raise MechanismMissing(R, "expected at least three is_equal convergence tests in _simplify_once, found %d" % n)


@SPEC.rule(
    "R15.10",
    "simplification starts from the model alone: no function of model.py or alias_relation.py writes a module-level or class-level "
    "container, is wrapped in a caching decorator or keeps a mutable default — what one model's simplify() learned (aliases, "
    "eliminated names, constant values) must not be visible to the next model's",
)
def r15_10(ctx, rep):
    from .c25 import module_state_free
    module_state_free(ctx, rep, "R15.10", MODEL, "the CasADi model")
    module_state_free(ctx, rep, "R15.10", "src/pymoca/backends/casadi/alias_relation.py", "the alias relation")


@SPEC.rule(
    "R15.11",
    "the tests of the elimination passes are made: every CasADi predicate whose answer _simplify_once uses is called (a method object is "
    "always true), and every ca.Function built inside a loop gets symbol vectors as inputs on every iteration — no input name reaches the "
    "constructor bound to a number by a later statement of the previous iteration (`constants = 0` after the hoisted `constants = veccat(...)`)",
)
def r15_11(ctx, rep):
    from ..cfg import reaching_defs, def_value
    from ._literal import no_uncalled_predicates
    R = "R15.11"
    no_uncalled_predicates(ctx, rep, R, MODEL, "the CasADi model")
    fn = simplify_fn(ctx, R)
    site = MODEL + ":Model._simplify_once"
    cfg = CFG(fn, R)
    n = 0
    cache = {}
    for x in cfg.stmts():
        if isinstance(x.ast, (ast.FunctionDef, ast.ClassDef)):
            continue
        for c in calls(x.ast):
            if not ((call_name(c) or "").endswith("ca.Function") and len(c.args) >= 2 and isinstance(c.args[1], ast.List)):
                continue
            # only constructors inside a loop can see a rebinding from an earlier iteration
            p_, in_loop = getattr(c, "_parent", None), False
            while p_ is not None and p_ is not fn:
                in_loop = in_loop or isinstance(p_, (ast.For, ast.While))
                p_ = getattr(p_, "_parent", None)
            if not in_loop:
                continue
            for a in c.args[1].elts:
                if not isinstance(a, ast.Name):
                    continue
                n += 1
                rd = cache.setdefault(a.id, reaching_defs(cfg, a.id))
                numeric = [cfg.nodes[d] for d in rd.get(x.id, ()) if d != cfg.entry and isinstance(def_value(cfg.nodes[d], a.id), ast.Constant)
                           and isinstance(def_value(cfg.nodes[d], a.id).value, (int, float))]
                rep.ob(R, site, "input `%s` of %s is a symbol vector on every iteration" % (a.id, norm(c.args[0])), not numeric,
                       "`%s` (line %s) reaches this constructor through the loop's back edge: on the second iteration the function is built with a number "
                       "as input and CasADi raises (or, worse, the wrong quantity is treated as a constant)" % (norm(numeric[0].ast) if numeric else "", numeric[0].lineno if numeric else ""))
    if n < 4:
        raise MechanismMissing(R, "fewer than 4 named inputs of in-loop ca.Function constructions found in _simplify_once")


@SPEC.rule(
    "R15.12",
    "an equation is either consumed or kept: the loops of _simplify_once that rebuild self.equations (they append the loop's equation to a "
    "list that is later assigned to self.equations) contain no `break` of their own — the equations not yet visited when the loop is left "
    "would vanish without any unknown having been removed for them",
)
def r15_12(ctx, rep):
    R = "R15.12"
    fn = simplify_fn(ctx, R)
    site = MODEL + ":Model._simplify_once"
    kept_lists = {norm(st.value) for st in ast.walk(fn) if isinstance(st, ast.Assign) and norm(st.targets[0]) in ("self.equations", "self.initial_equations")
                  and isinstance(st.value, ast.Name)}
    n = 0
    for lp in ast.walk(fn):
        if not (isinstance(lp, ast.For) and norm(lp.iter) in ("self.equations", "self.initial_equations") and isinstance(lp.target, ast.Name)):
            continue
        v = lp.target.id
        appends = [c for c in ast.walk(lp) if isinstance(c, ast.Call) and isinstance(c.func, ast.Attribute) and c.func.attr == "append" and norm(c.func.value) in kept_lists
                   and c.args and is_name(c.args[0], v)]
        if not appends:
            continue
        n += 1
        breaks = []
        def own_breaks(node, top):
            for ch in ast.iter_child_nodes(node):
                if isinstance(ch, (ast.For, ast.While, ast.FunctionDef, ast.Lambda)) and ch is not top:
                    continue
                if isinstance(ch, ast.Break):
                    breaks.append(ch)
                own_breaks(ch, top)
        own_breaks(lp, lp)
        rep.ob(R, site, "filter loop over %s (line %d) visits every equation" % (norm(lp.iter), lp.lineno), not breaks,
               "the loop is left with `break` at line %s: the equations after that point are neither examined nor copied to `%s`, they disappear from the model"
               % (", ".join(str(b.lineno) for b in breaks), norm(appends[0].func.value)))
    if n < 3:
        raise MechanismMissing(R, "fewer than 3 equation-filtering loops found in _simplify_once")


@SPEC.rule(
    "R15.13",
    "removed means substituted: in the elimination pass for eliminable variables every statement that takes a variable out of a category "
    "table (`del T[name]`, `T.pop(name)`) hands that variable's symbol to the substitution list on every path to the end of the iteration "
    "— the derivative of an eliminated state included, also when the derivative it is replaced by is zero (it may still occur in other equations)",
)
def r15_13(ctx, rep):
    R = "R15.13"
    fn = simplify_fn(ctx, R)
    site = MODEL + ":Model._simplify_once"
    blk = option_blocks(fn).get("eliminable_variable_expression")
    if blk is None:
        raise MechanismMissing(R, "eliminable_variable_expression block not found")
    subs = substitutions(blk.body)
    sym_lists = {s_["symbols"] for s_ in subs}
    loops = [lp for lp in blk.body if isinstance(lp, ast.For) and norm(lp.iter) == "self.equations"]
    if not loops or not sym_lists:
        raise MechanismMissing(R, "equation loop / substitution lists of the pass not found")
    lp = loops[0]
    cfg = CFG(ast.Module(body=[lp], type_ignores=[]), R)
    it = [x for x in cfg.nodes if x.kind == "iter" and x.ast is lp][0]
    n = 0
    for x in cfg.stmts():
        removed = []  # (description, name the symbol must be appended under, or None when the pop sits inside the append itself)
        a = x.ast
        if isinstance(a, ast.Delete):
            for t in a.targets:
                if isinstance(t, ast.Subscript) and isinstance(t.slice, ast.Call) and isinstance(t.slice.func, ast.Attribute) and t.slice.func.attr == "name":
                    removed.append((norm(t), norm(t.slice.func.value), None))
        for c in calls(a):
            if isinstance(c.func, ast.Attribute) and c.func.attr == "pop" and c.args and isinstance(c.args[0], ast.Call) and isinstance(c.args[0].func, ast.Attribute) \
                    and c.args[0].func.attr == "name":
                in_append = any(isinstance(o, ast.Call) and isinstance(o.func, ast.Attribute) and o.func.attr == "append" and norm(o.func.value) in sym_lists
                                and any(z is c for z in ast.walk(o)) for o in calls(a))
                holder = a.targets[0].id if isinstance(a, ast.Assign) and isinstance(a.targets[0], ast.Name) else None
                removed.append((norm(c), None if in_append else (holder or "?"), "pop"))
        for what, need, kind in removed:
            n += 1
            if kind == "pop" and need is None:
                rep.ob(R, site, "`%s` goes straight into the substitution list" % what[:50], True, "")
                continue
            sinks = {y.id for y in cfg.stmts() if any(isinstance(o.func, ast.Attribute) and o.func.attr == "append" and norm(o.func.value) in sym_lists and o.args
                                                      and (norm(o.args[0]) == need or norm(o.args[0]).startswith(need + ".")) for o in calls(y.ast))}
            w = cfg.path(x.id, it.id, avoid=sinks) if sinks else [x]
            rep.ob(R, site, "`%s` is followed by its substitution on every path" % what[:50], bool(sinks) and w is None,
                   "the variable is taken out of its table but `%s` does not reach %s.append(...) on some path: other equations keep referring to a symbol that is no "
                   "longer a variable of the model" % (need, "/".join(sorted(sym_lists))), path=cfg.describe(w) if w and sinks else "")
    if n < 3:
        raise MechanismMissing(R, "fewer than 3 removals from the category tables found in the elimination loop")


@SPEC.rule(
    "R15.14",
    "every equation and variable is handled under its own name: no function of the CasADi model reads a for-loop's variable after that loop has ended (the value the last iteration left behind)",
)
def r15_14(ctx, rep):
    from ._literal import no_stale_loop_variables
    no_stale_loop_variables(ctx, rep, "R15.14", MODEL, "the CasADi model")


@SPEC.rule(
    "R15.15",
    "an eliminated constant assignment keeps its variable in the model: in the eliminate_constant_assignments pass every path from taking a "
    "variable out of the algebraic-state table (`<table>.pop(name)`) to the end of that iteration passes `self.constants.append(<it>)` — the "
    "equation is dropped on that path, so a variable that is in no category afterwards is a free symbol of the remaining equations",
)
def r15_15(ctx, rep):
    R = "R15.15"
    fn = simplify_fn(ctx, R)
    blk = option_blocks(fn).get("eliminate_constant_assignments")
    if blk is None:
        raise MechanismMissing(R, "eliminate_constant_assignments block not found")
    site = MODEL + ":Model._simplify_once"
    loops = [lp for lp in ast.walk(blk) if isinstance(lp, ast.For) and norm(lp.iter) == "self.equations"]
    if not loops:
        raise MechanismMissing(R, "loop over self.equations not found in the eliminate_constant_assignments block")
    lp = loops[0]
    cfg = CFG(ast.Module(body=[lp], type_ignores=[]), R)
    it = [x for x in cfg.nodes if x.kind == "iter" and x.ast is lp][0]
    pops = [(x, x.ast.targets[0].id) for x in cfg.stmts() if isinstance(x.ast, ast.Assign) and isinstance(x.ast.targets[0], ast.Name) and isinstance(x.ast.value, ast.Call)
            and isinstance(x.ast.value.func, ast.Attribute) and x.ast.value.func.attr == "pop"]
    if len(pops) < 2:
        raise MechanismMissing(R, "fewer than 2 `<var> = <table>.pop(<name>)` statements found in the pass")
    for x, v in pops:
        appends = {y.id for y in cfg.stmts() if any(isinstance(c.func, ast.Attribute) and c.func.attr == "append" and norm(c.func.value) == "self.constants"
                                                   and c.args and is_name(c.args[0], v) for c in calls(y.ast))}
        w = cfg.path(x.id, it.id, avoid=appends)
        rep.ob(R, site, "`%s` is followed by its registration as a constant" % norm(x.ast)[:50], bool(appends) and w is None,
               "after the variable was taken out of the algebraic states the iteration can end without `self.constants.append(%s)`: the variable "
               "is then in no category, while equations and initial equations still refer to it" % v, path=cfg.describe(w) if w else "")


@SPEC.rule(
    "R15.16",
    "protected variables stay: where _make_alias has to choose which of two algebraic variables is eliminated, the test that triggers the "
    "exchange of the two roles asks for the canonical variable of the one that is eliminated in the default order (the second argument of "
    "alias_relation.add) — when *its* class already has a state, input or parameter as canonical name, the default order would unseat that "
    "name and delete a variable that must stay",
)
def r15_16(ctx, rep):
    R = "R15.16"
    fn = simplify_fn(ctx, R)
    site = MODEL + ":Model._simplify_once._make_alias"
    swaps = []
    for st in ast.walk(fn):
        if isinstance(st, ast.If):
            for b in st.body:
                if isinstance(b, ast.Assign) and isinstance(b.targets[0], ast.Tuple) and isinstance(b.value, ast.Tuple) and len(b.targets[0].elts) == 2 \
                        and [norm(e) for e in b.targets[0].elts] == [norm(e) for e in reversed(b.value.elts)]:
                    swaps.append((st, b))
    if not swaps:
        raise MechanismMissing(R, "the exchange of the two roles (`a, b = b, a` under a test) was not found in _simplify_once")
    # the role that is eliminated: second argument of alias_relation.add(<kept>.name(), ['-' +] <eliminated>.name())
    elim = set()
    for c in ast.walk(fn):
        if isinstance(c, ast.Call) and isinstance(c.func, ast.Attribute) and c.func.attr == "add" and norm(c.func.value).endswith("alias_relation") and len(c.args) == 2:
            a = c.args[1]
            if isinstance(a, ast.BinOp):
                a = a.right
            if isinstance(a, ast.Call) and isinstance(a.func, ast.Attribute) and a.func.attr == "name" and isinstance(a.func.value, ast.Name):
                elim.add(a.func.value.id)
    if len(elim) != 1:
        raise MechanismMissing(R, "the eliminated role (second argument of alias_relation.add) is not a single local: %s" % sorted(elim))
    e = list(elim)[0]
    if not any(e in {norm(x) for x in b.targets[0].elts} for _st, b in swaps):
        raise MechanismMissing(R, "no exchange involving the eliminated role `%s` found" % e)
    for st, b in swaps:
        if e not in {norm(x) for x in b.targets[0].elts}:
            continue
        asked = {c.args[0].func.value.id for c in ast.walk(st.test) if isinstance(c, ast.Call) and isinstance(c.func, ast.Attribute) and c.func.attr == "canonical_signed"
                 and c.args and isinstance(c.args[0], ast.Call) and isinstance(c.args[0].func, ast.Attribute) and c.args[0].func.attr == "name"
                 and isinstance(c.args[0].func.value, ast.Name)}
        rep.ob(R, site, "the exchange is decided by the class of the variable to be eliminated", e in asked,
               "the test in front of `%s` asks for the canonical variable of %s, not of `%s` (the one alias_relation.add would eliminate): a "
               "class whose canonical name is a state/input/parameter is unseated and that variable deleted" % (norm(b)[:50], sorted(asked) or "nothing", e))


@SPEC.rule(
    "R15.17",
    "a derivative symbol is the registered one: inside _simplify_once a symbol named `der(...)` is created (`ca.MX.sym`) only to be stored — "
    "bound to a name that goes into a Variable / a category table — never returned or used on the spot: a second symbol of the same name is a "
    "free variable of the residual although the unknowns and equations still pair up",
)
def r15_17(ctx, rep):
    R = "R15.17"
    fn = simplify_fn(ctx, R)
    site = MODEL + ":Model._simplify_once"
    parents = {}
    for p_ in ast.walk(fn):
        for ch in ast.iter_child_nodes(p_):
            parents[id(ch)] = p_
    n = 0
    for c in ast.walk(fn):
        if isinstance(c, ast.Call) and (call_name(c) or "").endswith("MX.sym") and c.args and "der(" in norm(c.args[0]):
            n += 1
            st = c
            while id(st) in parents and not isinstance(st, ast.stmt):
                st = parents[id(st)]
            registered = False
            if isinstance(st, ast.Assign) and isinstance(st.targets[0], ast.Name):
                v = st.targets[0].id
                host = st
                while id(host) in parents and not isinstance(host, ast.FunctionDef):
                    host = parents[id(host)]
                registered = any(isinstance(u, ast.Call) and (call_name(u) or "").endswith("Variable") and any(is_name(a, v) for a in u.args) for u in ast.walk(host))
            elif isinstance(st, ast.Assign) and any(isinstance(u, ast.Call) and (call_name(u) or "").endswith("Variable") for u in ast.walk(st.value)):
                registered = True
            rep.ob(R, site, "der symbol #%d (line %d) becomes a registered variable" % (n, c.lineno), registered,
                   "`%s`: the new symbol is not wrapped in a Variable that enters a category — the residual then refers to a symbol no input of the "
                   "residual function provides" % norm(st)[:80])
    if n < 1:
        raise MechanismMissing(R, "no creation of a der(...) symbol found in _simplify_once")


@SPEC.rule(
    "R15.18",
    "an alias whose equation was dropped is eliminated: in the loop that merges the aliases of a canonical variable the only iteration that "
    "may end early is the one for an alias handled in an earlier pass (the test on the old alias relation) — any other `continue` keeps a "
    "variable whose defining equation the equation loop above has already removed",
)
def r15_18(ctx, rep):
    from .c16 import _merge_loops
    R = "R15.18"
    outer, inner, cst, ast_ = _merge_loops(ctx, R)
    site = MODEL + ":Model._simplify_once"
    parents = {}
    for p_ in ast.walk(inner):
        for ch in ast.iter_child_nodes(p_):
            parents[id(ch)] = p_
    n = 0
    for x in ast.walk(inner):
        if isinstance(x, (ast.Continue, ast.Break)):
            q, own, tests = x, True, []
            while id(q) in parents and parents[id(q)] is not inner:
                pq = parents[id(q)]
                if isinstance(pq, (ast.For, ast.While)):
                    own = False
                if isinstance(pq, ast.If):
                    tests.append(pq.test)
                q = pq
            if not own:
                continue
            n += 1
            from ..pyutil import inlined
            tests = [inlined(t, inner.body) for t in tests]
            ok = isinstance(x, ast.Continue) and any("old_alias_relation" in norm(t) or "old_" in norm(t) for t in tests)
            rep.ob(R, site, "early end of an alias iteration (line %d) is the handled-before case" % x.lineno, ok,
                   "the iteration is left under `%s`: the alias stays a variable of the model, its equation is gone" % "; ".join(norm(t)[:60] for t in tests))
    if n < 1:
        raise MechanismMissing(R, "the skip of aliases handled in an earlier pass was not found in the alias loop")


@SPEC.rule(
    "R15.19",
    "an expanded array is gone from every equation (R18.5 evaluated for this property): the old symbol and its replacement are recorded for "
    "every variable _expand_vectors expands — a one-element array left out of the substitution is a free symbol of the residual functions, "
    "although the unknowns and equations still pair up",
)
def r15_19(ctx, rep):
    from ..engine import run_as
    from .c18 import r18_5
    run_as(r18_5, "R15.19", ctx, rep)


@SPEC.rule(
    "R15.20",
    "every eliminated variable is substituted everywhere: in each pass of _simplify_once the two lists handed to ca.substitute are only "
    "initialised and appended to — never filtered or re-bound in between (`only the aliases still used in the remaining equations`: an alias "
    "that only an initial equation mentions stays a free symbol of the initial residual)",
)
def r15_20(ctx, rep):
    R = "R15.20"
    fn = simplify_fn(ctx, R)
    site = MODEL + ":Model._simplify_once"
    n = 0
    for name, blk in option_blocks(fn).items():
        subs = substitutions(blk.body)
        lists = {s_["symbols"] for s_ in subs} | {s_["values"] for s_ in subs}
        for v in sorted(x for x in lists if x.isidentifier()):
            binds = [st for b in blk.body for st in ast.walk(b) if isinstance(st, (ast.Assign, ast.AugAssign)) and any(
                isinstance(x, ast.Name) and x.id == v and isinstance(x.ctx, ast.Store)
                for t in (st.targets if isinstance(st, ast.Assign) else [st.target]) for x in ast.walk(t))]
            if not binds:
                continue
            n += 1
            # one initialisation per pass (possibly inside the pass's outer loop), everything else are appends
            fresh = [b for b in binds if isinstance(b, ast.Assign) and all(isinstance(e, (ast.List, ast.Tuple, ast.Call)) and (
                (isinstance(e, (ast.List, ast.Tuple)) and all(isinstance(x, (ast.List,)) and not x.elts for x in (e.elts if isinstance(e, ast.Tuple) else [e]))) or
                (isinstance(e, ast.List) and not e.elts) or isinstance(e, ast.Call)) for e in [b.value])]
            def shrinking(b):
                v_ = b.value
                if isinstance(v_, (ast.ListComp, ast.GeneratorExp)) and any(g.ifs for g in v_.generators):
                    return True
                if isinstance(v_, ast.Call) and (call_name(v_) or "") in ("filter", "itertools.compress", "list") and any(
                        isinstance(x, ast.Call) and (call_name(x) or "") in ("filter", "itertools.compress") for x in ast.walk(v_)):
                    return True
                return isinstance(v_, ast.Subscript) and isinstance(v_.slice, ast.Slice)

            rebinds = [b for b in binds if b not in fresh and shrinking(b)]
            rep.ob(R, site, "pass %s: list `%s` is never filtered" % (name, v), not rebinds,
                   "`%s` can drop entries from the list between its filling and the substitution" % (norm(rebinds[0])[:70] if rebinds else ""))
    if n < 4:
        raise MechanismMissing(R, "fewer than 4 substitution lists found in the passes of _simplify_once")


@SPEC.rule(
    "R15.21",
    "an alias equation relates two whole variables: where _detect_alias recognises an alias by substitution (`ca.substitute(eq, a, b).is_zero()`), "
    "the test is made only for an equation that has as many elements as each of the two variables — `y[1] = x[1]` between elements of two "
    "unexpanded vectors passes the substitution test too, the whole vector y is then eliminated for one scalar equation and the system is "
    "no longer square",
)
def r15_21(ctx, rep):
    from ..cfg import CFG
    R = "R15.21"
    fn = simplify_fn(ctx, R)
    inner = [f for f in ast.walk(fn) if isinstance(f, ast.FunctionDef) and f.name == "_detect_alias"]
    if not inner:
        raise MechanismMissing(R, "_detect_alias not found in _simplify_once")
    f = inner[0]
    site = MODEL + ":Model._simplify_once._detect_alias"
    cfg = CFG(f, R)
    tests = [x for x in cfg.nodes if x.kind == "test" and any(isinstance(c, ast.Call) and (call_name(c) or "").endswith("substitute") for c in ast.walk(x.ast))]
    if not tests:
        raise MechanismMissing(R, "the substitution-based alias test was not found in _detect_alias")
    for k, t in enumerate(tests):
        guards = cfg.dominated_by(t.id, lambda x: x.kind == "assume" and any(
            isinstance(c, ast.Call) and isinstance(c.func, ast.Attribute) and c.func.attr in ("numel", "size1", "size2", "size", "shape") for c in ast.walk(x.ast))
            or (x.kind == "assume" and any(isinstance(a, ast.Attribute) and a.attr == "shape" for a in ast.walk(x.ast))))
        rep.ob(R, site, "substitution test #%d is made for whole-variable equations only" % (k + 1), bool(guards),
               "`%s` is not preceded by a comparison of the equation's size with the variables' sizes" % norm(t.ast)[:70])


@SPEC.rule(
    "R15.22",
    "the replacement vectors of the affine collapse have one entry per scalar unknown: nowhere in a method of Model is a row count alone "
    "(`size1()`, `rows()`, `shape[0]`) used as the width of a variable (in a sum, an offset, a slice or the size of a new symbol) — with "
    "`reduce_affine_expression` and an unexpanded `Real M[2,3]` the state vector has 2 entries for 6 unknowns and no residual can be built "
    "(zero-count lint with a positive self-test)",
)
def r15_22(ctx, rep):
    from ._literal import _selftest_row_counts, row_counts_used_as_widths
    R = "R15.22"
    if not _selftest_row_counts():
        raise AnalysisError(R, "self-test of the row-count lint failed")
    ms = ctx.methods(MODEL, "Model", R)
    if len(ms) < 10:
        raise MechanismMissing(R, "Model has fewer than 10 methods")
    for name, f in sorted(ms.items()):
        hits = row_counts_used_as_widths(f)
        if hits or name in ("simplify", "_simplify_once", "check_balanced"):
            rep.ob(R, MODEL + ":Model." + name, "no row count stands for an element count", not hits,
                   "%s: the number of scalar elements of a symbol is numel() (= size1() * size2())" % "; ".join("`%s`" % t for _l, t in hits[:3]))


@SPEC.rule(
    "R15.23",
    "the table of derivative variables is keyed by the STATE's name everywhere: in Model._simplify_once, a table that is built as "
    "`zip(<states>.keys(), self.der_states)` is only ever subscripted (read, stored to, popped) with the name of a state — never with the "
    "name of a symbol created as `der(..)` — and a store into it sits next to the store of the same key into the state table; a promoted "
    "algebraic variable filed under `der(w)` is not found when its derivative is needed again (KeyError) and is never popped when w is eliminated",
)
def r15_23(ctx, rep):
    R = "R15.23"
    fn = ctx.func(MODEL, "Model._simplify_once", R)
    site = MODEL + ":Model._simplify_once"
    tables = {}
    for st in ast.walk(fn):
        if isinstance(st, ast.Assign) and len(st.targets) == 1 and isinstance(st.targets[0], ast.Name) and isinstance(st.value, ast.Call):
            z = [c for c in ast.walk(st.value) if isinstance(c, ast.Call) and is_name(c.func, "zip") and len(c.args) == 2]
            for c in z:
                a0, a1 = norm(c.args[0]), norm(c.args[1])
                if a0.endswith(".keys()") and a1 == "self.der_states":
                    tables[st.targets[0].id] = a0[:-len(".keys()")]
    if not tables:
        raise MechanismMissing(R, "the derivative table keyed by state names (OrderedDict(zip(<states>.keys(), self.der_states))) was not found in _simplify_once")
    der_syms = set()
    for st in ast.walk(fn):
        if isinstance(st, ast.Assign) and len(st.targets) == 1 and isinstance(st.targets[0], ast.Name) and isinstance(st.value, ast.Call) \
                and (call_name(st.value) or "").endswith("MX.sym") and st.value.args and "der(" in norm(st.value.args[0]):
            der_syms.add(st.targets[0].id)
    n = 0
    from ..pyutil import stmt_list_of
    for t, state_table in tables.items():
        for x in ast.walk(fn):
            key = None
            if isinstance(x, ast.Subscript) and is_name(x.value, t):
                key = x.slice
            elif isinstance(x, ast.Call) and isinstance(x.func, ast.Attribute) and is_name(x.func.value, t) and x.func.attr in ("pop", "get", "__getitem__", "setdefault") and x.args:
                key = x.args[0]
            if key is None:
                continue
            n += 1
            bad = sorted({y.id for y in ast.walk(key) if isinstance(y, ast.Name) and y.id in der_syms})
            rep.ob(R, site, "`%s[%s]` is keyed by a state's name" % (t, norm(key)[:40]), not bad,
                   "the key is built from `%s`, a symbol created as der(..): the table is keyed by the names of the states (it is zipped with %s.keys())" % (", ".join(bad), state_table))
            if isinstance(x, ast.Subscript) and isinstance(x.ctx, ast.Store):
                st = x
                while st is not None and not isinstance(st, ast.stmt):
                    st = getattr(st, "_parent", None)
                sib = stmt_list_of(st) or []
                keys = [norm(y.targets[0].slice) for y in sib if isinstance(y, ast.Assign) and isinstance(y.targets[0], ast.Subscript) and is_name(y.targets[0].value, state_table)]
                if keys:
                    rep.ob(R, site, "store into `%s` uses the key of the store into `%s` next to it" % (t, state_table), norm(key) in keys,
                           "`%s[%s]` is filed under another key than `%s[%s]`" % (t, norm(key)[:40], state_table, keys[0][:40]))
    if n < 3:
        raise MechanismMissing(R, "fewer than 3 accesses of the derivative table found")


# -- seeded variants ---------------------------------------------------------
from ._mut import delete_stmt_where, replace_in_func, replace_stmt_where  # noqa: E402


@SPEC.mutant("equation dropped without removing the unknown", MODEL, "R15.1", "loop of eliminable")
def _m1(mod):
    def edit(fn):
        for n in ast.walk(fn):
            if isinstance(n, ast.Delete) and norm(n) == "del alg_states[variable.name()]":
                n.targets = [ast.Name(id="_unused", ctx=ast.Del())]
                return True
        return False

    def pre(fn):
        return True

    ok = replace_stmt_where(mod, "Model._simplify_once", lambda st: isinstance(st, ast.Delete) and norm(st) == "del alg_states[variable.name()]",
                            lambda st: [ast.Pass()])
    return mod if ok else None


@SPEC.mutant("constant assignment kept as unknown", MODEL, "R15.1", "loop of eliminate_constant_assignments")
def _m2(mod):
    def edit(fn):
        for n in ast.walk(fn):
            if isinstance(n, ast.Assign) and norm(n) == "constant = alg_states.pop(variable.name())":
                n.value = ast.parse("alg_states[variable.name()]", mode="eval").body
                return True
        return False

    return mod if replace_in_func(mod, "Model._simplify_once", edit) else None


@SPEC.mutant("alias not deleted", MODEL, "R15.1", "substituted alias removed")
def _m3(mod):
    return mod if delete_stmt_where(mod, "Model._simplify_once", lambda st: isinstance(st, ast.Delete) and norm(st) == "del all_states[alias]") else None


@SPEC.mutant("constant values not substituted in initial equations", MODEL, "R15.2", "replace_constant_values -> initial_equations")
def _m4(mod):
    def edit(fn):
        k = 0
        for n in ast.walk(fn):
            if isinstance(n, ast.If) and norm(n.test) == "options['replace_constant_values']":
                for i, st in enumerate(n.body):
                    if isinstance(st, ast.If) and "initial_equations" in norm(st.test):
                        n.body[i] = ast.Pass()
                        return True
        return False

    return mod if replace_in_func(mod, "Model._simplify_once", edit) else None


@SPEC.mutant("alias pass skips delay arguments", MODEL, "R15.2", "detect_aliases -> delay_arguments")
def _m5(mod):
    def edit(fn):
        for n in ast.walk(fn):
            if isinstance(n, ast.If) and norm(n.test) == "options['detect_aliases']":
                for i, st in enumerate(n.body):
                    if isinstance(st, ast.If) and "delay_arguments" in norm(st.test):
                        n.body[i] = ast.Pass()
                        return True
        return False

    return mod if replace_in_func(mod, "Model._simplify_once", edit) else None


@SPEC.mutant("parameter values: delay arguments skipped (the original defect)", MODEL, "R15.2", "replace_parameter_values -> delay_arguments", needs_fixed=True)
def _m6(mod):
    def edit(fn):
        for n in ast.walk(fn):
            if isinstance(n, ast.If) and norm(n.test) == "options['replace_parameter_values']":
                for i, st in enumerate(n.body):
                    if isinstance(st, ast.If) and "delay_arguments" in norm(st.test):
                        n.body[i] = ast.Pass()
                        return True
        return False

    return mod if replace_in_func(mod, "Model._simplify_once", edit) else None


@SPEC.mutant("_make_alias reports success without registering", MODEL, "R15.1", "_make_alias")
def _m7(mod):
    def edit(fn):
        for n in ast.walk(fn):
            if isinstance(n, ast.FunctionDef) and n.name == "_make_alias":
                for x in ast.walk(n):
                    if isinstance(x, ast.If) and "do_not_eliminate" in norm(x.test) and any(isinstance(s, ast.Pass) for s in x.body):
                        x.body = [ast.Return(value=ast.Constant(value=True))]
                        return True
        return False

    return mod if replace_in_func(mod, "Model._simplify_once", edit) else None


@SPEC.mutant("protection test on signed alias names", MODEL, "R15.3", "do_not_eliminate")
def _m8(mod):
    def edit(fn):
        for n in ast.walk(fn):
            if isinstance(n, ast.Compare) and isinstance(n.ops[0], ast.In) and norm(n.comparators[0]) == "do_not_eliminate" \
                    and "canonical_signed(alg_state.name())" in norm(n.left):
                new = ast.parse("not do_not_eliminate.isdisjoint(self.alias_relation.aliases(alg_state.name()))", mode="eval").body
                n.left, n.ops, n.comparators = new, [ast.Is()], [ast.Constant(value=True)]
                return True
        return False

    return mod if replace_in_func(mod, "Model._simplify_once", edit) else None


@SPEC.mutant("constants not protected in the alias pass", MODEL, "R15.4", "protected set")
def _m_prot(mod):
    def edit(fn):
        for n in ast.walk(fn):
            if isinstance(n, ast.Assign) and isinstance(n.value, ast.Call) and call_name(n.value) == "set" and "list(constants)" in norm(n.value):
                n.value = ast.parse(norm(n.value).replace(" + list(constants)", ""), mode="eval").body
                return True
        return False

    return mod if replace_in_func(mod, "Model._simplify_once", edit) else None


@SPEC.mutant("constant values not resolved among themselves", MODEL, "R15.5", "replace_constant_values")
def _m_closed(mod):
    def edit(fn):
        for blk in ast.walk(fn):
            if isinstance(blk, ast.If) and "replace_constant_values" in norm(blk.test):
                for i, st in enumerate(blk.body):
                    if isinstance(st, ast.For) and any((call_name(c) or "").endswith("substitute") for c in calls(st)) and "SUBSTITUTE_LOOP_LIMIT" in norm(st.iter):
                        del blk.body[i]
                        return True
        return False

    return mod if replace_in_func(mod, "Model._simplify_once", edit) else None


@SPEC.mutant("affine state vectors created per equation list", MODEL, "R15.6", "created once")
def _m_fresh(mod):
    def edit(fn):
        for blk in ast.walk(fn):
            if isinstance(blk, ast.If) and "reduce_affine_expression" in norm(blk.test):
                moved = [st for st in blk.body if isinstance(st, ast.Assign) and (call_name(st.value) or "").endswith("MX.sym")]
                loops = [st for st in blk.body if isinstance(st, ast.For)]
                if moved and loops:
                    blk.body = [st for st in blk.body if st not in moved]
                    loops[0].body = moved + loops[0].body
                    return True
        return False

    return mod if replace_in_func(mod, "Model._simplify_once", edit) else None


@SPEC.mutant("other end of the alias not checked against the name tables", MODEL, "R15.7", "alias registration")
def _m_univ(mod):
    return mod if delete_stmt_where(mod, "Model._simplify_once", lambda st: isinstance(st, ast.If) and norm(st.test).endswith(".name() not in all_states"), simple_only=False) else None


@SPEC.mutant("already-handled test before the sign is stripped", MODEL, "R15.3", "canonical_variables")
def _m_signed_handled(mod):
    def edit(fn):
        for lp in ast.walk(fn):
            if isinstance(lp, ast.For) and len(lp.body) > 2 and isinstance(lp.body[0], ast.If) and isinstance(lp.body[1], ast.If) \
                    and "[0] == '-'" in norm(lp.body[0].test) and "canonical_variables" in norm(lp.body[1].test):
                lp.body[0], lp.body[1] = lp.body[1], lp.body[0]
                return True
        return False

    return mod if replace_in_func(mod, "Model._simplify_once", edit) else None


@SPEC.mutant("second definition of an eliminated variable dropped", MODEL, "R15.1", "eliminable_variable_expression")
def _m_second_def(mod):
    def edit(fn):
        for n in ast.walk(fn):
            if isinstance(n, ast.If) and norm(n.test).endswith(".name() in states") and len(n.orelse) == 1 and isinstance(n.orelse[0], ast.If) \
                    and n.orelse[0].orelse and any(isinstance(x, ast.Continue) for x in n.orelse[0].orelse):
                n.orelse[0].orelse = []
                return True
        return False

    return mod if replace_in_func(mod, "Model._simplify_once", edit) else None


@SPEC.mutant("already related variables aliased again", MODEL, "R15.8", "joins two different classes")
def _m_related(mod):
    def edit(fn):
        for n in ast.walk(fn):
            if isinstance(n, ast.If) and isinstance(n.test, ast.Compare) and isinstance(n.test.ops[0], ast.Eq) and norm(n.test).count("canonical_signed") == 2 \
                    and len(n.body) == 1 and isinstance(n.body[0], ast.Pass):
                n.test = ast.Constant(value=False)
                return True
        return False

    return mod if replace_in_func(mod, "Model._simplify_once", edit) else None


@SPEC.mutant("new values copied over the old ones before the convergence test", MODEL, "R15.9", "two different generations")
def _m_fixpoint(mod):
    def edit(fn):
        for loop in ast.walk(fn):
            if isinstance(loop, ast.For) and "SUBSTITUTE_LOOP_LIMIT" in norm(loop.iter):
                idx = [i for i, st in enumerate(loop.body) if norm(st) == "values = new_values"]
                cmp_ = [i for i, st in enumerate(loop.body) if "is_equal" in norm(st)]
                if idx and cmp_ and idx[0] > cmp_[0]:
                    st = loop.body.pop(idx[0])
                    loop.body.insert(cmp_[0], st)
                    return True
        return False

    return mod if replace_in_func(mod, "Model._simplify_once", edit) else None


@SPEC.mutant("affine inputs hoisted out of the loop that rebinds them", MODEL, "R15.11", "symbol vector on every iteration")
def _m_hoist(mod):
    def edit(fn):
        for n in ast.walk(fn):
            for f in ("body", "orelse"):
                lst = getattr(n, f, None)
                if isinstance(lst, list):
                    for i, st in enumerate(lst):
                        if isinstance(st, ast.For) and "'initial_equations'" in norm(st.iter):
                            moved = []
                            for inner in ast.walk(st):
                                if isinstance(inner, ast.If):
                                    keep = []
                                    for b in inner.body:
                                        if isinstance(b, ast.Assign) and isinstance(b.targets[0], ast.Name) and b.targets[0].id in ("constants", "parameters") and "veccat" in norm(b.value):
                                            moved.append(b)
                                        else:
                                            keep.append(b)
                                    if moved and len(keep) != len(inner.body):
                                        inner.body = keep
                                        lst[i:i] = moved
                                        return True
        return False

    return mod if replace_in_func(mod, "Model._simplify_once", edit) else None


@SPEC.mutant("filter loop left early once no candidate remains", MODEL, "R15.12", "visits every equation")
def _m_break_filter(mod):
    def edit(fn):
        for lp in ast.walk(fn):
            if isinstance(lp, ast.For) and norm(lp.iter) == "self.equations" and any("alg_states.pop(" in norm(b) for b in lp.body):
                lp.body.insert(0, ast.parse("if not alg_states:\n    break").body[0])
                return True
        return False

    return mod if replace_in_func(mod, "Model._simplify_once", edit) else None


@SPEC.mutant("zero derivative of an eliminated state not substituted", MODEL, "R15.13", "followed by its substitution")
def _m_zero_der(mod):
    def edit(fn):
        for n in ast.walk(fn):
            for f in ("body", "orelse"):
                lst = getattr(n, f, None)
                if isinstance(lst, list):
                    for i, st in enumerate(lst):
                        if isinstance(st, ast.Expr) and norm(st).startswith("variables.append(der_states.pop("):
                            lst[i:i + 2] = ast.parse("der_symbol = der_states.pop(variable.name()).symbol\nif not ca.MX(derivative).is_zero():\n    variables.append(der_symbol)\n    values.append(derivative)").body
                            return True
        return False

    return mod if replace_in_func(mod, "Model._simplify_once", edit) else None


@SPEC.mutant("sum-form constant not registered", MODEL, "R15.15", "registration as a constant")
def _m_constant_not_registered(mod):
    def edit(fn):
        for st in ast.walk(fn):
            if isinstance(st, ast.If) and "is_op(ca.OP_SUB)" in norm(st.test) and st.orelse:
                parent_lists = [b for b in ast.walk(fn) for f_ in ("body", "orelse") if isinstance(getattr(b, f_, None), list) and st in getattr(b, f_)]
                for b in parent_lists:
                    for f_ in ("body", "orelse"):
                        lst = getattr(b, f_, None)
                        if isinstance(lst, list) and st in lst:
                            i = lst.index(st)
                            if i + 1 < len(lst) and "self.constants.append" in norm(lst[i + 1]):
                                st.body.append(lst.pop(i + 1))
                                return True
        return False

    return mod if replace_in_func(mod, "Model._simplify_once", edit) else None


@SPEC.mutant("affine state vectors sized by rows", MODEL, "R15.22", "no row count stands for an element count")
def _m_vector_rows(mod):
    def edit(fn):
        for c in ast.walk(fn):
            if isinstance(c, ast.Call) and (call_name(c) or "").endswith("MX.sym") and c.args and "states_vector" in norm(c.args[0]):
                for x in ast.walk(c):
                    if isinstance(x, ast.Attribute) and x.attr == "numel":
                        x.attr = "size1"
                        return True
        return False

    return mod if replace_in_func(mod, "Model._simplify_once", edit) else None


@SPEC.mutant("promoted derivative filed under the derivative's own name", MODEL, "R15.23", "is keyed by a state's name")
def _m_der_key(mod):
    def edit(fn):
        for st in ast.walk(fn):
            if isinstance(st, ast.Assign) and isinstance(st.targets[0], ast.Subscript) and is_name(st.targets[0].value, "der_states") and "Variable(" in norm(st.value):
                st.targets[0].slice = ast.parse("der_sym.name()", mode="eval").body
                return True
        return False

    return mod if replace_in_func(mod, "Model._simplify_once", edit) else None
