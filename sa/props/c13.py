"""C13 — variable metadata reports the declared attributes (constant tables)."""
from __future__ import annotations

import ast
import math

from ..engine import AnalysisError, MechanismMissing, PropertySpec, norm
from ..pyutil import call_name, calls, const_str, dotted, is_name, literal, walk_local

GEN = "src/pymoca/backends/casadi/generator.py"
MODEL = "src/pymoca/backends/casadi/model.py"
API = "src/pymoca/backends/casadi/api.py"
AST = "src/pymoca/ast.py"

SIX = ("value", "start", "min", "max", "nominal", "fixed")

SPEC = PropertySpec(
    "C13",
    "Variable metadata reports the declared attributes",
    decided=(
        "the constant tables the property states: Variable's default attribute values (NaN, 0-as-default-marker, "
        "-inf, +inf, 0, False), the Modelica->Python type map (Boolean->bool, Integer->int, String->str, else float) "
        "and its use when Variables are built, and that the one attribute-column table (CASADI_ATTRIBUTES = the six "
        "names, all of them Symbol attributes) is the iteration source at every site that reads or writes metadata "
        "columns; attributes are copied under their own name."
    ),
    not_decided="evaluation of attribute expressions at parameter values; the affine rebuild of the metadata function.",
)


def _fold(node):
    """constant folding of np.nan / np.inf / -x / _DefaultValue(k)"""
    d = dotted(node)
    if d in ("np.nan", "numpy.nan", "math.nan", "nan"):
        return ("nan",)
    if d in ("np.inf", "numpy.inf", "math.inf", "inf"):
        return math.inf
    if isinstance(node, ast.UnaryOp) and isinstance(node.op, ast.USub):
        v = _fold(node.operand)
        return -v if isinstance(v, (int, float)) else None
    if isinstance(node, ast.Call) and isinstance(node.func, ast.Name) and len(node.args) == 1:
        return ("call", node.func.id, _fold(node.args[0]))
    if isinstance(node, ast.Call) and call_name(node) == "float" and node.args and const_str(node.args[0]) in ("nan", "inf", "-inf"):
        s = const_str(node.args[0])
        return ("nan",) if s == "nan" else float(s)
    return literal(node)


@SPEC.rule("R13.1", "defaults: Variable.__init__ sets value=NaN, start=<int subclass used as default marker>(0), min=-inf, max=+inf, nominal=0, fixed=False")
def r13_1(ctx, rep):
    R = "R13.1"
    fn = ctx.func(MODEL, "Variable.__init__", R)
    got = {}
    for n in walk_local(fn):
        if isinstance(n, ast.Assign) and isinstance(n.targets[0], ast.Attribute) and is_name(n.targets[0].value, "self"):
            got[n.targets[0].attr] = n.value
    # the default marker class
    marker_ok = False
    for st in ctx.module(MODEL, R).body:
        if isinstance(st, ast.ClassDef) and st.name == "_DefaultValue":
            marker_ok = [dotted(b) for b in st.bases] == ["int"] and not any(isinstance(x, ast.FunctionDef) for x in st.body)
    want = {"value": ("nan",), "min": -math.inf, "max": math.inf, "nominal": 0, "fixed": False}
    for k, w in want.items():
        v = _fold(got[k]) if k in got else None
        ok = v == w and type(v) is type(w)
        rep.ob(R, MODEL + ":Variable.__init__", "default " + k, ok, "default of `%s` must be %s; found %s" % (k, w, norm(got[k]) if k in got else "missing"))
    v = _fold(got["start"]) if "start" in got else None
    ok = (v == ("call", "_DefaultValue", 0) and marker_ok) or (v == 0 and type(v) is int)
    rep.ob(R, MODEL + ":Variable.__init__", "default start", ok,
           "default start must be 0 (wrapped in the plain int subclass _DefaultValue so that alias merging can tell 'unset'); found %s"
           % (norm(got["start"]) if "start" in got else "missing"))


@SPEC.rule("R13.2", "type map: get_python_type maps Boolean->bool, Integer->int, String->str, anything else->float, and Variables are built with that type")
def r13_2(ctx, rep):
    R = "R13.2"
    fn = ctx.func(GEN, "Generator.get_python_type", R)
    site = GEN + ":Generator.get_python_type"
    mapping = {}
    node = fn.body[0] if fn.body else None
    default = None
    while isinstance(node, ast.If):
        t = node.test
        if isinstance(t, ast.Compare) and norm(t.left).endswith(".type.name") and isinstance(t.ops[0], ast.Eq) and len(node.body) == 1 \
                and isinstance(node.body[0], ast.Return):
            mapping[const_str(t.comparators[0])] = norm(node.body[0].value)
        if len(node.orelse) == 1 and isinstance(node.orelse[0], ast.If):
            node = node.orelse[0]
        else:
            if len(node.orelse) == 1 and isinstance(node.orelse[0], ast.Return):
                default = norm(node.orelse[0].value)
            break
    for k, w in (("Boolean", "bool"), ("Integer", "int"), ("String", "str")):
        rep.ob(R, site, "type " + k, mapping.get(k) == w, "Modelica %s must map to Python %s; found %s" % (k, w, mapping.get(k)))
    rep.ob(R, site, "type default", default == "float" and set(mapping) == {"Boolean", "Integer", "String"},
           "every other type (Real and derived) maps to float; found default %s, keys %s" % (default, sorted(mapping)))
    f2 = ctx.func(GEN, "Generator._ast_symbols_to_variables", R)
    pt = None
    for n in walk_local(f2):
        if isinstance(n, ast.Assign) and isinstance(n.value, ast.Call) and isinstance(n.value.func, ast.Attribute) and n.value.func.attr == "get_python_type":
            pt = n.targets[0].id
    ok = pt is not None and any((call_name(c) or "") == "Variable" and len(c.args) >= 2 and is_name(c.args[1], pt) for c in calls(f2))
    rep.ob(R, GEN + ":Generator._ast_symbols_to_variables", "Variable(symbol, python_type)", ok,
           "Variables must be constructed with the Python type computed by get_python_type for their own symbol")


@SPEC.rule(
    "R13.3",
    "attribute-column agreement: CASADI_ATTRIBUTES is exactly the six attribute names, a subset of Symbol.ATTRIBUTES, "
    "and the only iteration source for metadata columns in variable_metadata_function, Variable.to_dict/from_dict, "
    "_substitute_metadata, _expand_vectors, api.save_model and api.load_model; the generator copies each Symbol "
    "attribute to the Variable attribute of the same name",
)
def r13_3(ctx, rep):
    R = "R13.3"
    ca_attrs = literal(ctx.module_assign(MODEL, "CASADI_ATTRIBUTES", R))
    sym_attrs = None
    c = ctx.cls(AST, "Symbol", R)
    for st in c.body:
        if isinstance(st, ast.Assign) and is_name(st.targets[0], "ATTRIBUTES"):
            sym_attrs = literal(st.value)
    rep.ob(R, MODEL + ":CASADI_ATTRIBUTES", "the six names", ca_attrs is not None and sorted(ca_attrs) == sorted(SIX) and len(ca_attrs) == 6,
           "CASADI_ATTRIBUTES must be exactly %s; found %s" % (sorted(SIX), ca_attrs))
    rep.ob(R, AST + ":Symbol.ATTRIBUTES", "superset", sym_attrs is not None and ca_attrs is not None and set(ca_attrs) <= set(sym_attrs),
           "every metadata column must be a Symbol attribute (else it can never be declared or modified)")
    sites = [
        (MODEL, "Model.variable_metadata_function"), (MODEL, "Variable.to_dict"), (MODEL, "Variable.from_dict"),
        (MODEL, "Model._substitute_metadata"), (MODEL, "Model._expand_vectors"), (API, "save_model"), (API, "load_model"),
    ]
    for rel, q in sites:
        fn = ctx.func(rel, q, R)
        loops = []
        for n in walk_local(fn):
            if isinstance(n, ast.For):
                it = n.iter
                if is_name(it, "CASADI_ATTRIBUTES") or (isinstance(it, ast.Call) and is_name(it.func, "enumerate") and it.args and is_name(it.args[0], "CASADI_ATTRIBUTES")) \
                        or (isinstance(it, ast.Call) and is_name(it.func, "zip") and any(is_name(a, "CASADI_ATTRIBUTES") for a in it.args)):
                    loops.append(n)
        # no other literal list of attribute names used as a loop source
        rogue = []
        for n in walk_local(fn):
            if isinstance(n, (ast.For, ast.comprehension)):
                lit = literal(n.iter)
                if isinstance(lit, (list, tuple)) and lit and all(isinstance(x, str) for x in lit) and set(lit) & set(SIX) and len(set(lit) & set(SIX)) >= 2:
                    rogue.append(lit)
        rep.ob(R, "%s:%s" % (rel, q), "iterates CASADI_ATTRIBUTES", bool(loops) and not rogue,
               "metadata columns must be enumerated from CASADI_ATTRIBUTES (found %d loop(s) over it, literal lists: %s)" % (len(loops), rogue))
    # generator copies attribute a -> a
    f2 = ctx.func(GEN, "Generator._ast_symbols_to_variables", R)
    ok = False
    for n in walk_local(f2):
        if isinstance(n, ast.For) and norm(n.iter) in ("ast.Symbol.ATTRIBUTES",) and isinstance(n.target, ast.Name):
            a = n.target.id
            gets = [c for c in calls(n) if is_name(c.func, "getattr") and len(c.args) == 2 and is_name(c.args[1], a)]
            made = {st.targets[0].id for st in walk_local(f2) if isinstance(st, ast.Assign) and isinstance(st.targets[0], ast.Name)
                    and isinstance(st.value, ast.Call) and (call_name(st.value) or "") == "Variable"}
            sets = [c for c in calls(n) if is_name(c.func, "setattr") and len(c.args) == 3 and isinstance(c.args[0], ast.Name) and c.args[0].id in made
                    and is_name(c.args[1], a)]
            ok = bool(gets) and bool(sets)
    rep.ob(R, GEN + ":Generator._ast_symbols_to_variables", "attribute copied under its own name", ok,
           "for a in Symbol.ATTRIBUTES: setattr(variable, a, <value of getattr(symbol, a)>)")


@SPEC.rule(
    "R13.4",
    "the affine rebuild of the metadata function is only taken after, for every variable list with parameter-dependent "
    "attributes, the allowed-operation test AND the zero-Hessian test were evaluated: on every path from the "
    "'parameters exist' guard to the end of the loop body the second derivative w.r.t. the parameters is computed and "
    "its being non-zero clears is_affine",
)
def r13_4(ctx, rep):
    affine_rebuild(ctx, rep, "R13.4")


# CasADi operations for which a vanishing symbolic Hessian does NOT imply affinity: piecewise-linear, discontinuous, logical,
# or opaque (a call node hides a body that may be any of those).  Reviewed against casadi's operation list.
NON_SMOOTH_OPS = {
    "OP_CALL", "OP_FABS", "OP_FMIN", "OP_FMAX", "OP_SIGN", "OP_COPYSIGN", "OP_IF_ELSE_ZERO", "OP_FLOOR", "OP_CEIL", "OP_FMOD", "OP_REMAINDER",
    "OP_LT", "OP_LE", "OP_EQ", "OP_NE", "OP_NOT", "OP_AND", "OP_OR", "OP_FIND", "OP_LOW", "OP_NORM1", "OP_NORMINF", "OP_MMIN", "OP_MMAX",
    "OP_GETNONZEROS_PARAM", "OP_BSPLINE", "OP_EINSTEIN", "OP_SOLVE", "OP_MAP",
}


def _metadata_fn(ctx, R):
    """Model.variable_metadata_function with its role-carrying locals renamed to canonical names: `out` (the list handed to
    the final ca.Function), `in_var` (its input), `expr` (what the category loop appends to out), `is_affine` (the flag
    initialised True at the top and cleared to False)"""
    from ..pyutil import renamed_copy
    fn = ctx.func(MODEL, "Model.variable_metadata_function", R)
    roles = {}
    for n in ast.walk(fn):
        if isinstance(n, ast.Call) and (call_name(n) or "").endswith("Function") and len(n.args) >= 3 and isinstance(n.args[0], ast.Constant) \
                and n.args[0].value == "variable_metadata" and isinstance(n.args[2], ast.Name):
            roles[n.args[2].id] = "out"
            if isinstance(n.args[1], ast.List) and len(n.args[1].elts) == 1 and isinstance(n.args[1].elts[0], ast.Name):
                roles[n.args[1].elts[0].id] = "in_var"
    out = next((k for k, v in roles.items() if v == "out"), None)
    for st in fn.body:
        if isinstance(st, ast.Assign) and isinstance(st.targets[0], ast.Name) and isinstance(st.value, ast.Constant) and st.value.value is True:
            roles[st.targets[0].id] = "is_affine"
        if isinstance(st, ast.For):
            for c in ast.walk(st):
                if isinstance(c, ast.Call) and isinstance(c.func, ast.Attribute) and c.func.attr == "append" and is_name(c.func.value, out or "") \
                        and c.args and isinstance(c.args[0], ast.Name):
                    roles[c.args[0].id] = "expr"
    if sorted(set(roles.values())) != ["expr", "in_var", "is_affine", "out"]:
        raise MechanismMissing(R, "variable_metadata_function: output list / input / per-category expression / affine flag not found (%s)" % roles)
    return renamed_copy(fn, {k: v for k, v in roles.items() if k != v})


def affine_rebuild(ctx, rep, R):
    from ..cfg import CFG

    fn = _metadata_fn(ctx, R)
    site = MODEL + ":Model.variable_metadata_function"
    cfg = CFG(fn, R)
    def is_hess(x):
        if x.kind not in ("stmt", "test") or isinstance(x.ast, (ast.FunctionDef, ast.ClassDef)):
            return False
        t = norm(x.ast.value) if (x.kind == "stmt" and isinstance(x.ast, ast.Assign)) else (norm(x.ast) if x.kind == "test" else "")
        return t.count("ca.jacobian(") >= 2 and ".is_zero()" in t

    hess = [x for x in cfg.nodes if is_hess(x)]
    guard = [x for x in cfg.nodes if x.kind == "assume" and x.taken and "len(self.parameters) > 0" in norm(x.ast) and "isinstance(expr, ca.MX)" in norm(x.ast)]
    sink = [x for x in cfg.stmts() if norm(x.ast) == "out.append(expr)"]
    if not hess or not guard or not sink:
        raise MechanismMissing(R, "Hessian test / parameter guard / out.append(expr) not found in variable_metadata_function")
    # paths that have already given up the rebuild need no Hessian
    given_up = {x.id for x in cfg.stmts() if norm(x.ast) == "is_affine = False"}
    given_up |= {x.id for x in cfg.nodes if x.kind == "assume" and ((not x.taken and norm(x.ast) == "is_affine") or (x.taken and norm(x.ast) == "not is_affine"))}
    w = cfg.path(guard[0].id, sink[0].id, avoid={h.id for h in hess} | given_up)
    rep.ob(R, site, "Hessian evaluated on every path", w is None,
           "some path decides about the affine rebuild without computing the second derivative: an attribute such as max = 10 / p "
           "(division is an allowed operation) is then linearised at p = 0 and reported as NaN", path=cfg.describe(w) if w else "")
    # wherever the rebuild is still possible after the test (no `is_affine = False` passed), the Hessian is known to be zero
    from ..cfg import assume_truth
    clears = True
    for h in hess:
        if h.kind == "stmt":
            q = h.ast.targets[0].id if isinstance(h.ast.targets[0], ast.Name) else None
        else:
            zs = [c for c in ast.walk(h.ast) if isinstance(c, ast.Call) and isinstance(c.func, ast.Attribute) and c.func.attr == "is_zero" and "jacobian" in norm(c)]
            q = norm(zs[0]) if zs else None
        if q is None:
            clears = False
            continue
        known_zero = {x.id for x in cfg.nodes if x.kind == "assume" and assume_truth(x, q) is True}
        stops = {x.id for x in cfg.stmts() if norm(x.ast) == "is_affine = False"}
        start = h.id
        w2 = cfg.path(start, sink[0].id, avoid=known_zero | stops)
        clears = clears and w2 is None
    rep.ob(R, site, "non-zero Hessian clears is_affine", clears, "is_affine must become False when the Hessian is not zero")
    # the whitelist in front of the Hessian test: "zero symbolic Hessian => affine" only holds for smooth operations
    wl = None
    for st in ast.walk(fn):
        if isinstance(st, (ast.Set, ast.List, ast.Tuple)) and len(st.elts) >= 4 and all(isinstance(e, ast.Attribute) and e.attr.startswith("OP_") for e in st.elts):
            wl = st
    if wl is None:
        # the same set kept as a module-level constant
        mod = ctx.module(MODEL, R)
        for st in mod.body:
            if isinstance(st, ast.Assign) and isinstance(st.targets[0], ast.Name) and any(
                    isinstance(c, ast.Call) and isinstance(c.func, ast.Attribute) and c.func.attr in ("issubset", "issuperset") and any(is_name(a, st.targets[0].id) for a in c.args)
                    for c in ast.walk(fn)):
                for x in ast.walk(st.value):
                    if isinstance(x, (ast.Set, ast.List, ast.Tuple)) and len(x.elts) >= 4 and all(isinstance(e, ast.Attribute) and e.attr.startswith("OP_") for e in x.elts):
                        wl = x
    if wl is None:
        raise MechanismMissing(R, "whitelist of allowed operations (a set of ca.OP_* codes) not found in variable_metadata_function")
    ops = sorted({e.attr for e in wl.elts})
    bad = [o for o in ops if o in NON_SMOOTH_OPS]
    rep.ob(R, site, "whitelisted operations are smooth", not bad,
           "the operation whitelist admits %s: for a piecewise-linear or opaque operation the symbolic Hessian is zero although the expression is "
           "not affine, so the attribute is rebuilt as A*p + b linearised at p = 0 and reports wrong values (e.g. a user function "
           "max(u, 0) kept as a call with inline_functions=False)" % bad)
    # rebuild only under is_affine
    ok = any(isinstance(st, ast.If) and "is_affine" in norm(st.test) and "len(self.parameters) > 0" in norm(st.test) and any("Af" in norm(x) for x in st.body) for st in ast.walk(fn))
    rep.ob(R, site, "rebuild guarded by is_affine", ok, "the A*p + b rebuild must be guarded by is_affine")


@SPEC.rule(
    "R13.5",
    "element correspondence under vector expansion (shared with C18 R18.4): the attribute element given to the scalar "
    "named by a multi-index is the array attribute indexed with that same multi-index",
)
def r13_5(ctx, rep):
    from .c18 import element_correspondence

    element_correspondence(ctx, rep, "R13.5")


@SPEC.rule(
    "R13.8",
    "tests that guard an attribute substitution are made: every CasADi predicate (is_constant, is_regular, is_symbolic, ...) whose answer "
    "is used in model.py is called — `value.is_regular` without parentheses is a bound method and always true, so parameters without a "
    "value (NaN) are inlined into the attribute expressions that mention them and the metadata no longer depends on what is passed in",
)
def r13_8(ctx, rep):
    from ._literal import no_uncalled_predicates
    no_uncalled_predicates(ctx, rep, "R13.8", MODEL, "the CasADi model")
    no_uncalled_predicates(ctx, rep, "R13.8", GEN, "the CasADi generator")
    no_uncalled_predicates(ctx, rep, "R13.8", API, "the CasADi API")


@SPEC.rule(
    "R13.9",
    "modified attribute expressions are resolved where they were written: every modification argument that tree.py builds from an "
    "existing one (also the nested `c(y(max = 3*p+1))` form for a type derived from a built-in) carries that argument's scope — otherwise "
    "`p` is looked up in the component's class and the attribute reported for c.y.max refers to c.p",
)
def r13_9(ctx, rep):
    from ..engine import run_as
    from .c08 import r08_2
    run_as(r08_2, "R13.9", ctx, rep)


@SPEC.rule(
    "R13.10",
    "attribute values are coerced with the variable's own type only: in Generator._ast_symbols_to_variables every re-binding of the attribute "
    "value between its evaluation and setattr(variable, <attribute>, <value>) is a call of the local bound from get_python_type() — a fixed "
    "float()/int()/bool() turns `Integer n(max = 2*5)` into a variable whose max is 10.0",
)
def r13_10(ctx, rep):
    R = "R13.10"
    fn = ctx.func(GEN, "Generator._ast_symbols_to_variables", R)
    site = GEN + ":Generator._ast_symbols_to_variables"
    ptype = {st.targets[0].id for st in walk_local(fn) if isinstance(st, ast.Assign) and isinstance(st.targets[0], ast.Name) and isinstance(st.value, ast.Call)
             and (call_name(st.value) or "").endswith("get_python_type")}
    if not ptype:
        raise MechanismMissing(R, "no local bound from get_python_type() in _ast_symbols_to_variables")
    n = 0
    for c in calls(fn):
        if is_name(c.func, "setattr") and len(c.args) == 3 and isinstance(c.args[2], ast.Name):
            v = c.args[2].id
            loop = getattr(c, "_parent", None)
            while loop is not None and not isinstance(loop, ast.For):
                loop = getattr(loop, "_parent", None)
            if loop is None:
                continue
            for st in ast.walk(loop):
                if isinstance(st, ast.Assign) and any(is_name(t, v) for t in st.targets):
                    val = st.value
                    if isinstance(val, ast.Call) and (call_name(val) or "").endswith("get_mx"):
                        continue  # the evaluation itself
                    n += 1
                    ok = isinstance(val, ast.Call) and isinstance(val.func, ast.Name) and val.func.id in ptype
                    rep.ob(R, site, "coercion `%s` uses the variable's python type" % norm(st)[:50], ok,
                           "`%s` converts the attribute with a fixed type: Integer and Boolean variables get float attributes (or the reverse), and the metadata "
                           "no longer has the declared type" % norm(st)[:60])
    if n < 2:
        raise MechanismMissing(R, "fewer than 2 coercions of attribute values found")


@SPEC.rule(
    "R13.11",
    "the affine shortcut is decided on all categories: the test that guards the affinity analysis in variable_metadata_function (the one that can "
    "clear the is-affine flag) reads nothing that the category loop binds per category other than the category's own expression — a per-category "
    "`skip the analysis` switch leaves the flag set for a list whose attributes are not affine in the parameters, and the rebuilt function then "
    "reports A(0)*p + b(0) for them",
)
def r13_11(ctx, rep):
    R = "R13.11"
    fn = _metadata_fn(ctx, R)
    site = MODEL + ":Model.variable_metadata_function"
    loops = [lp for lp in fn.body if isinstance(lp, ast.For) and any(isinstance(x, ast.Assign) and is_name(x.targets[0], "is_affine") for x in ast.walk(lp))]
    if not loops:
        raise MechanismMissing(R, "category loop that clears the is-affine flag not found")
    lp = loops[0]
    per_cat = {x.id for x in ast.walk(lp.target) if isinstance(x, ast.Name)}
    # what the loop iterates over to collect the attribute values (the category's variable list) is the one legitimate per-category name
    iterated = {norm(x.iter) for x in ast.walk(lp) if isinstance(x, ast.For) and x is not lp}
    extra = sorted(per_cat - {n for n in per_cat if n in iterated})
    bad = []
    for t in ast.walk(lp):
        if isinstance(t, ast.If) and any(isinstance(x, ast.Assign) and is_name(x.targets[0], "is_affine") for x in ast.walk(t)):
            used = {x.id for x in ast.walk(t.test) if isinstance(x, ast.Name)}
            if used & set(extra):
                bad.append("`%s` reads %s" % (norm(t.test)[:70], sorted(used & set(extra))))
    rep.ob(R, site, "the affinity analysis is not switched per category", not bad,
           "; ".join(bad[:2]) + " — for the categories switched off the flag stays True whatever their attribute expressions look like")


@SPEC.rule(
    "R13.12",
    "affine means affine everywhere: what decides `this attribute expression is affine in the parameters` in variable_metadata_function is a "
    "structural test on the symbolic second derivative (`ca.jacobian(ca.jacobian(expr, p), p).is_zero()` / ca.hessian) — not that derivative "
    "evaluated at one parameter vector (l*w*h has a Hessian that vanishes at p = 0 and nowhere else)",
)
def r13_12(ctx, rep):
    from ..pyutil import inlined
    R = "R13.12"
    fn = _metadata_fn(ctx, R)
    site = MODEL + ":Model.variable_metadata_function"
    n = 0
    for t in ast.walk(fn):
        if isinstance(t, ast.If) and any(isinstance(x, ast.Assign) and is_name(x.targets[0], "is_affine") and isinstance(x.value, ast.Constant) and x.value.value is False
                                         for b in t.body for x in ast.walk(b)):
            test = inlined(t.test, fn.body)
            for c in ast.walk(test):
                if isinstance(c, ast.Call) and isinstance(c.func, ast.Attribute) and c.func.attr in ("is_zero", "is_constant", "nnz"):
                    recv = c.func.value
                    n += 1
                    inner = [x for x in ast.walk(recv) if isinstance(x, ast.Call)]
                    last = [(call_name(x) or "").split(".")[-1] for x in inner]
                    evaluated = any(isinstance(x.func, ast.Call) for x in inner) or any(l in ("Function", "call", "evalf", "DM") for l in last)
                    symbolic = any(l in ("jacobian", "hessian") for l in last) and not evaluated
                    rep.ob(R, site, "zero test #%d is asked of the symbolic derivative" % n, symbolic,
                           "the affinity test looks at `%s`: a derivative evaluated at a point (a ca.Function applied to numbers) says nothing about "
                           "the other points, and a product of three parameters passes as affine" % norm(recv)[:80])
    if n < 1:
        raise MechanismMissing(R, "the structural zero test behind `is_affine = False` was not found")


@SPEC.rule(
    "R13.13",
    "no coefficient is rounded away: every ca.sparsify in casadi/model.py is called with the expression alone — a tolerance (`ca.sparsify(A, "
    "1e-10)`) removes a small but real dependence on a parameter (8.854e-12 * area) from the rebuilt metadata function",
)
def r13_13(ctx, rep):
    R = "R13.13"
    mod = ctx.module(MODEL, R)
    cs = [c for c in ast.walk(mod) if isinstance(c, ast.Call) and (call_name(c) or "").split(".")[-1] == "sparsify"]
    if len(cs) < 2:
        raise MechanismMissing(R, "fewer than 2 sparsify calls found in casadi/model.py")
    for k, c in enumerate(cs):
        rep.ob(R, MODEL, "sparsify #%d takes no tolerance" % (k + 1), len(c.args) == 1 and not c.keywords,
               "`%s` (line %d): entries below the tolerance are dropped, not just structural zeros" % (norm(c)[:60], c.lineno))


@SPEC.rule(
    "R13.14",
    "cached variables read their own rows of the metadata matrices (R19.6 evaluated for this property): load_model advances the row offset by "
    "every variable's element count on every iteration — a variable skipped because `it has no symbolic metadata` shifts every later "
    "variable's min / max / nominal onto an earlier variable's rows",
)
def r13_14(ctx, rep):
    from ..engine import run_as
    from .c19 import r19_6
    run_as(r19_6, "R13.14", ctx, rep)


@SPEC.rule(
    "R13.15",
    "a literal matrix attribute keeps CasADi's element order: variable_metadata_function casts attribute values with ca.DM(<value>) itself and "
    "does not flatten, ravel or reshape them with numpy on the way — the rows of the metadata function follow the column-major order of "
    "veccat(<symbols>), numpy flattens row-major, and start = {{1,2,3},{4,5,6}} would be reported for the wrong elements",
)
def r13_15(ctx, rep):
    R = "R13.15"
    fn = _metadata_fn(ctx, R)
    site = MODEL + ":Model.variable_metadata_function"
    probe = ast.parse("def f(value):\n    return ca.DM(np.asarray(value, dtype=float).ravel())\n").body[0]

    def reorders(f):
        return ["line %d: %s" % (c.lineno, norm(c)[:60]) for c in ast.walk(f) if isinstance(c, ast.Call) and (
            (isinstance(c.func, ast.Attribute) and c.func.attr in ("ravel", "flatten", "reshape", "transpose", "tolist") and not (call_name(c) or "").startswith("ca."))
            or (call_name(c) or "") in ("np.ravel", "np.reshape", "np.transpose", "numpy.ravel"))]

    if not reorders(probe):
        raise AnalysisError(R, "self-test of the reordering detector failed")
    casts = [c for c in ast.walk(fn) if isinstance(c, ast.Call) and call_name(c) == "ca.DM"]
    if not casts:
        raise MechanismMissing(R, "the ca.DM(<attribute value>) cast was not found in variable_metadata_function")
    hits = reorders(fn)
    rep.ob(R, site, "attribute values are not re-ordered by numpy before they are stacked", not hits, "; ".join(hits[:3]))


@SPEC.rule(
    "R13.16",
    "a substituted attribute keeps the variable's type: in Model._substitute_metadata a fixed conversion (`float(value)`) is applied only where "
    "the value is known not to be regular (inf has no Integer representation); every regular value is converted with the variable's own "
    "python_type — `min` and `max` of an Integer variable included",
)
def r13_16(ctx, rep):
    from ..cfg import CFG, assume_truth, must_facts
    R = "R13.16"
    fn = ctx.func(MODEL, "Model._substitute_metadata", R)
    site = MODEL + ":Model._substitute_metadata"
    cfg = CFG(fn, R)
    fixed, own = [], []
    for x in cfg.stmts():
        a = x.ast
        if isinstance(a, ast.Assign) and isinstance(a.targets[0], ast.Name) and isinstance(a.value, ast.Call):
            v = a.targets[0].id
            if isinstance(a.value.func, ast.Name) and a.value.func.id in ("float", "int", "bool") and len(a.value.args) == 1 and is_name(a.value.args[0], v):
                fixed.append((x, v))
            if norm(a.value.func).endswith(".python_type"):
                own.append(x)
    if not fixed or not own:
        raise MechanismMissing(R, "the conversions of substituted attribute values (python_type(...) / float(...)) were not found")
    for x, v in fixed:
        def transfer(node, facts, v=v):
            if node.kind == "assume":
                t = assume_truth(node, "%s.is_regular()" % v)
                if t is False:
                    return facts | {"irregular"}
                if t is True:
                    return facts - {"irregular"}
            return facts
        IN = must_facts(cfg, transfer)
        rep.ob(R, site, "`%s` only for values that are not regular" % norm(x.ast), "irregular" in (IN.get(x.id) or frozenset()),
               "the fixed conversion is reached by regular values as well: an Integer variable's substituted attribute becomes a float")


@SPEC.rule(
    "R13.17",
    "a variable occupies as many metadata rows as it has scalar elements: nowhere in casadi/api.py is a row count alone (`size1()`, `rows()`, "
    "`shape[0]`) used as the width of a variable in a stacked vector or matrix — the metadata function has numel() rows per variable, and a "
    "loader that advances by size1() hands `Real w[2,3](each max = p)` two of its six values and shifts every later variable's attributes "
    "(zero-count lint with a positive self-test)",
)
def r13_17(ctx, rep):
    from ._literal import _selftest_row_counts, row_counts_used_as_widths
    R = "R13.17"
    if not _selftest_row_counts():
        raise AnalysisError(R, "self-test of the row-count lint failed")
    mod = ctx.module(API, R)
    fns = [f for f in mod.body if isinstance(f, ast.FunctionDef)]
    if len(fns) < 4:
        raise MechanismMissing(R, "casadi/api.py has fewer than 4 functions")
    for f in fns:
        hits = row_counts_used_as_widths(f)
        rep.ob(R, API + ":" + f.name, "no row count stands for an element count", not hits,
               "%s: the width of a variable is numel(); with rows only, a two-dimensional variable gets too few slots and everything after it is shifted"
               % "; ".join("`%s`" % t for _l, t in hits[:3]))


# -- seeded variants ---------------------------------------------------------
@SPEC.rule(
    "R13.7",
    "one block of rows per variable, one column per attribute, no gaps: in variable_metadata_function every iteration over the "
    "attributes appends to the column list of that attribute (indexed by the enumerate counter), every iteration over a category's "
    "variables runs the attribute loop, and every category appends its matrix to the result — a variable or attribute skipped "
    "`because it has nothing interesting` shifts every later row against the row offsets load_model computes",
)
def r13_7(ctx, rep):
    metadata_rows_total(ctx, rep, "R13.7")


def metadata_rows_total(ctx, rep, R):
    from ..cfg import CFG, iteration_skips
    fn = _metadata_fn(ctx, R) if "_metadata_fn" in globals() else ctx.func(MODEL, "Model.variable_metadata_function", R)
    site = MODEL + ":Model.variable_metadata_function"
    cfg = CFG(fn, R)
    loops = [lp for lp in walk_local(fn) if isinstance(lp, ast.For)]
    attr_loops = [lp for lp in loops if "CASADI_ATTRIBUTES" in norm(lp.iter) and isinstance(lp.iter, ast.Call) and call_name(lp.iter) in ("enumerate", "zip")]
    if not attr_loops:
        raise MechanismMissing(R, "loop over enumerate(CASADI_ATTRIBUTES) / zip(<columns>, CASADI_ATTRIBUTES) not found in variable_metadata_function")
    al = attr_loops[0]
    counter = colvar = None
    if call_name(al.iter) == "enumerate":
        counter = al.target.elts[0].id if isinstance(al.target, ast.Tuple) and isinstance(al.target.elts[0], ast.Name) else None
    elif isinstance(al.target, ast.Tuple) and len(al.target.elts) == len(al.iter.args):
        # zip(<columns>, CASADI_ATTRIBUTES): the column itself is the loop variable paired with a list that has one entry per attribute
        for t, a in zip(al.target.elts, al.iter.args):
            if isinstance(t, ast.Name) and isinstance(a, ast.Name) and a.id != "CASADI_ATTRIBUTES":
                made = [st for st in ast.walk(fn) if isinstance(st, ast.Assign) and is_name(st.targets[0], a.id) and isinstance(st.value, ast.ListComp)
                        and "CASADI_ATTRIBUTES" in norm(st.value.generators[0].iter)]
                if made:
                    colvar = t.id
    counter = counter or colvar

    def col_append(x):
        if colvar is not None:
            return x.kind == "stmt" and any(isinstance(c.func, ast.Attribute) and c.func.attr == "append" and is_name(c.func.value, colvar) for c in calls(x.ast))
        return x.kind == "stmt" and any(isinstance(c.func, ast.Attribute) and c.func.attr == "append" and isinstance(c.func.value, ast.Subscript)
                                        and is_name(c.func.value.slice, counter) for c in calls(x.ast))

    w = iteration_skips(cfg, al, col_append)
    rep.ob(R, site, "every attribute of every variable is appended to its own column", counter is not None and w is None,
           "an iteration over the attributes can end without `<columns>[%s].append(...)`: the column is one row short and every later "
           "variable's value of that attribute moves up" % counter, path=cfg.describe(w) if w else "")
    var_loops = [lp for lp in loops if al in list(ast.walk(lp)) and lp is not al]
    if len(var_loops) < 2:
        raise MechanismMissing(R, "the loops over the categories and over a category's variables were not found around the attribute loop")
    inner, outer = var_loops[-1], var_loops[0]
    it_al = [x.id for x in cfg.nodes if x.kind == "iter" and x.ast is al]
    w = iteration_skips(cfg, inner, lambda x: x.id in it_al)
    rep.ob(R, site, "every variable of a category gets its rows", w is None,
           "an iteration over the variables can end without entering the attribute loop: that variable has no rows, load_model's offsets "
           "(advanced by every variable's element count) point into the next variable's rows", path=cfg.describe(w) if w else "")
    w = iteration_skips(cfg, outer, lambda x: x.kind == "stmt" and any(isinstance(c.func, ast.Attribute) and c.func.attr == "append" and isinstance(c.func.value, ast.Name)
                                                                          for c in calls(x.ast)) and not col_append(x))
    rep.ob(R, site, "every category contributes its matrix", w is None,
           "an iteration over the categories can end without appending the category's matrix: the result list no longer lines up with the "
           "category names it is zipped with", path=cfg.describe(w) if w else "")


@SPEC.rule(
    "R13.6",
    "attribute values are not recycled by their printed text: model.py holds no dict/set keyed by str(value) — two start values "
    "that print alike (1.0000001 and 1.0000002 both print as 1) would share the first one's node and the metadata row would "
    "carry a value the source never stated",
)
def r13_6(ctx, rep):
    from ._memo import no_text_keyed_tables
    no_text_keyed_tables(ctx, rep, "R13.6", MODEL, "the CasADi model (metadata functions included)", 20)


from ._mut import replace_in_func  # noqa: E402


@SPEC.mutant("constant metadata nodes recycled by printed text", MODEL, "R13.6", "keyed by the printed form")
def _m_textrecycle(mod):
    def edit(fn):
        fn.body.insert(0, ast.parse("_consts = {}").body[0])
        for n in ast.walk(fn):
            if isinstance(n, ast.Assign) and norm(n.value) == "ca.MX(value)":
                n.value = ast.parse("_consts.setdefault(repr(value), ca.MX(value))", mode="eval").body
                return True
        return False

    return mod if replace_in_func(mod, "Model.variable_metadata_function", edit) or replace_in_func(mod, "Model.simplify", edit) else None


@SPEC.mutant("default nominal = 1", MODEL, "R13.1", "nominal")
def _m1(mod):
    def edit(fn):
        for n in ast.walk(fn):
            if isinstance(n, ast.Assign) and norm(n.targets[0]) == "self.nominal":
                n.value = ast.Constant(value=1)
                return True
        return False

    return mod if replace_in_func(mod, "Variable.__init__", edit) else None


@SPEC.mutant("Integer maps to float", GEN, "R13.2", "Integer")
def _m2(mod):
    def edit(fn):
        for n in ast.walk(fn):
            if isinstance(n, ast.Return) and norm(n.value) == "int":
                n.value = ast.Name(id="float", ctx=ast.Load())
                return True
        return False

    return mod if replace_in_func(mod, "Generator.get_python_type", edit) else None


@SPEC.mutant("load_model iterates a literal subset", API, "R13.3", "load_model")
def _m3(mod):
    def edit(fn):
        for n in ast.walk(fn):
            if isinstance(n, ast.For) and isinstance(n.iter, ast.Call) and is_name(n.iter.func, "enumerate") and is_name(n.iter.args[0], "CASADI_ATTRIBUTES"):
                n.iter.args[0] = ast.parse("('value', 'min', 'max', 'start', 'fixed')", mode="eval").body
                return True
        return False

    return mod if replace_in_func(mod, "load_model", edit) else None


@SPEC.mutant("fixed dropped from CASADI_ATTRIBUTES", MODEL, "R13.3", "six names")
def _m4(mod):
    for st in mod.body:
        if isinstance(st, ast.Assign) and is_name(st.targets[0], "CASADI_ATTRIBUTES"):
            st.value.elts = [e for e in st.value.elts if const_str(e) != "fixed"]
            return mod
    return None


@SPEC.mutant("default max = 0", MODEL, "R13.1", "max")
def _m5(mod):
    def edit(fn):
        for n in ast.walk(fn):
            if isinstance(n, ast.Assign) and norm(n.targets[0]) == "self.max":
                n.value = ast.Constant(value=0)
                return True
        return False

    return mod if replace_in_func(mod, "Variable.__init__", edit) else None


@SPEC.mutant("Hessian test only when a product occurs", MODEL, "R13.4", "Hessian")
def _m6(mod):
    def edit(fn):
        for node in ast.walk(fn):
            for fld in ("body", "orelse"):
                b = getattr(node, fld, None)
                if isinstance(b, list):
                    for i, st in enumerate(b):
                        if isinstance(st, ast.Assign) and norm(st.value).count("ca.jacobian(") >= 2:
                            b[i] = ast.If(test=ast.parse("ca.OP_MUL in f_ops", mode="eval").body, body=[st],
                                          orelse=[ast.parse("zero_hessian = True").body[0]])
                            return True
        return False

    return mod if replace_in_func(mod, "Model.variable_metadata_function", edit) else None


@SPEC.mutant("variables without symbolic attributes get no rows", MODEL, "R13.7", "gets its rows")
def _m_skip_rows(mod):
    def edit(fn):
        for lp in ast.walk(fn):
            if isinstance(lp, ast.For) and norm(lp.iter) == "variable_list":
                lp.body.insert(0, ast.parse("if not any(isinstance(getattr(variable, a), ca.MX) for a in CASADI_ATTRIBUTES):\n    continue").body[0])
                return True
        return False

    return mod if replace_in_func(mod, "Model.variable_metadata_function", edit) else None


@SPEC.mutant("scalar DM attribute unpacked with float()", GEN, "R13.10", "uses the variable's python type")
def _m_float_coerce(mod):
    def edit(fn):
        for st in ast.walk(fn):
            if isinstance(st, ast.If) and "isinstance(v, ca.DM)" in norm(st.test):
                for b in st.body:
                    if isinstance(b, ast.Assign) and norm(b.value) == "python_type(v)":
                        b.value = ast.parse("float(v)", mode="eval").body
                        return True
        return False

    return mod if replace_in_func(mod, "Generator._ast_symbols_to_variables", edit) else None


@SPEC.mutant("affinity analysis skipped for parameters and constants", MODEL, "R13.11", "not switched per category")
def _m_skip_affinity(mod):
    def edit(fn):
        for lp in fn.body:
            if isinstance(lp, ast.For) and isinstance(lp.iter, ast.List) and len(lp.iter.elts) == 5:
                lp.target = ast.Tuple(elts=[lp.target, ast.Name(id="_analyse", ctx=ast.Store())], ctx=ast.Store())
                lp.iter.elts = [ast.Tuple(elts=[e, ast.Constant(value=(i < 3))], ctx=ast.Load()) for i, e in enumerate(lp.iter.elts)]
                for t in ast.walk(lp):
                    if isinstance(t, ast.If) and "len(self.parameters) > 0" in norm(t.test) and "isinstance(expr" in norm(t.test):
                        t.test = ast.BoolOp(op=ast.And(), values=[ast.Name(id="_analyse", ctx=ast.Load()), t.test])
                        return True
        return False

    return mod if replace_in_func(mod, "Model.variable_metadata_function", edit) else None


@SPEC.mutant("sparsify with a tolerance", MODEL, "R13.13", "takes no tolerance")
def _m_sparsify_tol(mod):
    def edit(fn):
        for c in ast.walk(fn):
            if isinstance(c, ast.Call) and norm(c.func) == "ca.sparsify" and len(c.args) == 1:
                c.args.append(ast.Constant(value=1e-10))
                return True
        return False

    return mod if replace_in_func(mod, "Model.variable_metadata_function", edit) else None


@SPEC.mutant("Hessian evaluated at the origin", MODEL, "R13.12", "symbolic derivative")
def _m_hessian_at_zero(mod):
    def edit(fn):
        for c in ast.walk(fn):
            if isinstance(c, ast.Call) and isinstance(c.func, ast.Attribute) and c.func.attr == "is_zero" and "jacobian" in norm(c.func.value):
                c.func.value = ast.parse("ca.Function('H', [in_var], [%s])(0)" % norm(c.func.value), mode="eval").body
                return True
        return False

    return mod if replace_in_func(mod, "Model.variable_metadata_function", edit) else None


@SPEC.mutant("cached metadata rows advance by size1()", API, "R13.17", "no row count stands for an element count")
def _m_rows_size1(mod):
    def edit(fn):
        for c in ast.walk(fn):
            if isinstance(c, ast.Call) and isinstance(c.func, ast.Attribute) and c.func.attr == "numel" and isinstance(getattr(c, "_parent", None), ast.BinOp):
                c.func.attr = "size1"
                return True
        for c in ast.walk(fn):
            if isinstance(c, ast.Call) and is_name(c.func, "slice"):
                for x in ast.walk(c):
                    if isinstance(x, ast.Attribute) and x.attr == "numel":
                        x.attr = "size1"
                        return True
        return False

    return mod if replace_in_func(mod, "load_model", edit) else None
