"""Registry of per-property rule sets (one module per claimed property)."""
import importlib

_IDS = [
    "C01", "C02", "C03", "C04", "C05", "C06", "C07", "C08", "C09", "C10", "C11", "C12", "C13",
    "C15", "C16", "C17", "C18", "C19", "C20", "C21", "C22", "C23", "C24", "C25", "C26", "C27",
]


def get(pid):
    if pid not in _IDS:
        return None
    try:
        mod = importlib.import_module("sa.props." + pid.lower())
    except ModuleNotFoundError as e:
        if e.name == "sa.props." + pid.lower():
            return None
        raise
    return mod.SPEC


def all_ids():
    return list(_IDS)
