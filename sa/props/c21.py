"""C21 — an interrupted or in-progress cache write never breaks later loads."""
from __future__ import annotations

import ast
import pickle

from ..cfg import CFG
from ..engine import AnalysisError, MechanismMissing, PropertySpec, norm
from ..pyutil import call_name, calls, const_str, is_name, walk_local
from ._api import API, api_fn
from .c01 import covers, handler_classes

SPEC = PropertySpec(
    "C21",
    "An interrupted or in-progress cache write never breaks later loads",
    decided=(
        "one of two sufficient structural disciplines holds: (A) atomic publish — the final cache name is never "
        "opened for writing, it is produced by os.replace/os.rename of a completely written temporary; or (B) total "
        "loader — the handlers around the cache's pickle.load cover what an empty, truncated or half-written pickle "
        "raises (EOFError, pickle.UnpicklingError) and convert it to InvalidCacheError, which transfer_model turns into "
        "a recompilation."
    ),
    not_decided="byte-level crash enumeration (fault-injection family); concurrent readers of a codegen'd shared library.",
)
SPEC.assumptions += ["an empty or truncated pickle raises EOFError or pickle.UnpicklingError from pickle.load"]

NEED = [EOFError, pickle.UnpicklingError]


def _atomic(ctx, R):
    fn = api_fn(ctx, "save_model", R)
    final_vars = {s.targets[0].id for s in walk_local(fn) if isinstance(s, ast.Assign) and isinstance(s.targets[0], ast.Name)
                  and ".pymoca_cache" in norm(s.value)}
    opens_final = []
    for c in calls(fn):
        if is_name(c.func, "open") and c.args and isinstance(c.args[0], ast.Name) and c.args[0].id in final_vars:
            mode = const_str(c.args[1]) if len(c.args) > 1 else "r"
            if mode and ("w" in mode or "a" in mode or "+" in mode):
                opens_final.append(norm(c))
    replaces = [c for c in calls(fn) if call_name(c) in ("os.replace", "os.rename", "shutil.move") and len(c.args) == 2
                and isinstance(c.args[1], ast.Name) and c.args[1].id in final_vars]
    return (not opens_final) and bool(replaces), opens_final, bool(final_vars)


@SPEC.rule(
    "R21.1",
    "atomic publish OR total loader: either save_model never opens the final cache path for writing and publishes it "
    "with os.replace, or load_model's handlers around pickle.load cover EOFError and pickle.UnpicklingError and raise "
    "InvalidCacheError",
)
def r21_1(ctx, rep):
    R = "R21.1"
    atomic, opens_final, found = _atomic(ctx, R)
    if not found:
        raise MechanismMissing(R, "cache file path (… + '.pymoca_cache') not found in save_model")
    fn = api_fn(ctx, "load_model", R)
    cfg = CFG(fn, R)
    loads = [x for x in cfg.stmts() if any(call_name(c) == "pickle.load" for c in calls(x.ast))]
    if not loads:
        raise MechanismMissing(R, "pickle.load not found in load_model")
    total = True
    missing_all = []
    for ln in loads:
        hs = [cfg.nodes[s] for s in cfg.succ[ln.id] if cfg.nodes[s].kind == "handler"]
        for exc in NEED:
            hit = None
            for h in hs:
                cl, _u = handler_classes(h.ast)
                if covers(cl, exc):
                    hit = h
                    break
            if hit is None:
                total = False
                missing_all.append(exc.__name__)
                continue
            # the handler must end in InvalidCacheError on every path (it may re-raise other errors of a broader class)
            body_raises = any(isinstance(x, ast.Raise) and x.exc is not None and "InvalidCacheError" in norm(x.exc) for s in hit.ast.body for x in ast.walk(s))
            leaves_normally = cfg.exit in cfg.reachable(hit.id, avoid={ln.id}) and not _only_raises(hit.ast.body)
            if not body_raises or leaves_normally:
                total = False
                missing_all.append(exc.__name__ + " (caught but not converted to InvalidCacheError)")
    rep.ob(R, API + ":save_model/load_model", "atomic publish or total loader", atomic or total,
           "save_model writes the final file in place (%s) and load_model does not convert %s into InvalidCacheError: an empty or "
           "half-written cache file makes every later transfer_model raise instead of recompiling" % (opens_final, missing_all))
    rep.extra["R21.1_discipline"] = {"atomic_publish": atomic, "total_loader": total}
    # advisory
    sv = api_fn(ctx, "save_model", R)
    for w in ast.walk(sv):
        if isinstance(w, ast.With) and any("open(" in norm(i.context_expr) for i in w.items):
            heavy = [norm(c)[:50] for s in w.body for c in calls(s) if call_name(c) in ("ca.depends_on", "ca.symvar")]
            if heavy:
                rep.note("R21.1 (advisory) dependency analysis runs while the cache file is open for writing: %s" % heavy[:2])


def _closure(ctx, R, root):
    """module-level functions of api.py reachable from `root` through direct calls by name"""
    mod = ctx.module(API)
    fns = {n.name: n for n in mod.body if isinstance(n, (ast.FunctionDef, ast.AsyncFunctionDef))}
    seen, todo = [], [root]
    while todo:
        f = todo.pop()
        if f in seen or f not in fns:
            continue
        seen.append(f)
        for c in ast.walk(fns[f]):
            if isinstance(c, ast.Call) and isinstance(c.func, ast.Name) and c.func.id in fns:
                todo.append(c.func.id)
    return [fns[f] for f in seen]


@SPEC.rule(
    "R21.3",
    "the writer tolerates what a killed writer leaves behind: every file that save_model (or a helper it calls) opens "
    "for writing is opened in a truncating mode ('w'/'wb'); exclusive creation ('x', os.O_EXCL) makes every later save "
    "fail with FileExistsError on a left-over file, and append/update modes ('a', '+') keep the torn bytes",
)
def r21_3(ctx, rep):
    R = "R21.3"
    fns = _closure(ctx, R, "save_model")
    if not fns:
        raise AnalysisError(R, "save_model not found")
    n = 0
    for fn in fns:
        for c in ast.walk(fn):
            if not isinstance(c, ast.Call):
                continue
            name = call_name(c) or ""
            mode = None
            if name == "open" or name.endswith(".open") and name != "os.open":
                margs = [a for a in c.args[1:2]] if name == "open" else [a for a in c.args[0:1]]
                mode_node = margs[0] if margs else next((k.value for k in c.keywords if k.arg == "mode"), None)
                mode = const_str(mode_node) if mode_node is not None else "r"
                if mode is None:
                    rep.ob(R, API + ":" + fn.name, "open mode of `%s`" % norm(c)[:60], False, "the open mode is not a literal; cannot show that the file is truncated")
                    continue
                if not any(ch in mode for ch in "wax+"):
                    continue
                n += 1
                rep.ob(R, API + ":" + fn.name, "open mode of `%s`" % norm(c)[:60], "w" in mode and "+" not in mode,
                       "mode %r: %s" % (mode, "an exclusive create fails with FileExistsError on the file a killed writer left behind, and "
                                        "transfer_model does not handle it — one interrupted write breaks every later transfer_model" if "x" in mode
                                        else "the file keeps bytes of an earlier, possibly interrupted, write"))
            elif name == "os.open":
                flags = norm(c.args[1]) if len(c.args) > 1 else ""
                n += 1
                rep.ob(R, API + ":" + fn.name, "os.open flags `%s`" % flags[:50], "O_EXCL" not in flags and ("O_TRUNC" in flags or "O_RDONLY" in flags),
                       "os.open with O_EXCL / without O_TRUNC does not tolerate a left-over file")
    if n < 1:
        raise MechanismMissing(R, "no file opened for writing found under save_model")
    rep.extra["R21.3_functions"] = [f.name for f in fns]


def _only_raises(body) -> bool:
    last = body[-1] if body else None
    if isinstance(last, ast.Raise):
        return True
    if isinstance(last, ast.If):
        return _only_raises(last.body) and _only_raises(last.orelse)
    return False


@SPEC.rule("R21.2", "the conversion target reaches the recompile: InvalidCacheError is in the except tuple around load_model in transfer_model, whose handler compiles and saves")
def r21_2(ctx, rep):
    R = "R21.2"
    fn = api_fn(ctx, "transfer_model", R)
    ok = False
    for t in ast.walk(fn):
        if isinstance(t, ast.Try) and any(call_name(c) == "load_model" for s in t.body for c in calls(s)):
            for h in t.handlers:
                names = [norm(e) for e in (h.type.elts if isinstance(h.type, ast.Tuple) else [h.type])] if h.type is not None else ["BaseException"]
                if ("InvalidCacheError" in names or "Exception" in names or "BaseException" in names) \
                        and any(call_name(c) == "_compile_model" for s in h.body for c in calls(s)) \
                        and any(call_name(c) == "save_model" for s in h.body for c in calls(s)):
                    ok = True
    rep.ob(R, API + ":transfer_model", "InvalidCacheError -> recompile + save", ok, "a rejected cache file must be replaced by a fresh compile")


@SPEC.rule(
    "R21.4",
    "nothing touches the cache file outside the guarded load: in load_model the handle of the opened cache file is used only as the "
    "argument of the pickle.load whose handlers convert to InvalidCacheError — a seek/read/peek placed before the try (a `cheap "
    "truncation test`) meets the empty file of a writer that has opened but not yet written, raises OSError / struct.error there, and "
    "transfer_model's fallback does not catch it",
)
def r21_4(ctx, rep):
    R = "R21.4"
    fn = api_fn(ctx, "load_model", R)
    site = API + ":load_model"
    n = 0
    for w in walk_local(fn):
        if not isinstance(w, ast.With):
            continue
        for it in w.items:
            if not (isinstance(it.context_expr, ast.Call) and is_name(it.context_expr.func, "open") and it.optional_vars is not None and isinstance(it.optional_vars, ast.Name)):
                continue
            mode = const_str(it.context_expr.args[1]) if len(it.context_expr.args) > 1 else "r"
            if not mode or "b" not in mode or "w" in mode:
                continue
            n += 1
            f = it.optional_vars.id
            bad = []
            for x in ast.walk(w):
                if isinstance(x, ast.Name) and x.id == f and isinstance(x.ctx, ast.Load):
                    # climb to the enclosing statement; it must be inside a Try body whose handlers convert EOFError / UnpicklingError
                    p_, prev, guarded, stmt = getattr(x, "_parent", None), x, False, None
                    while p_ is not None and p_ is not w:
                        if isinstance(p_, ast.stmt) and stmt is None:
                            stmt = p_
                        if isinstance(p_, ast.Try) and prev in p_.body:
                            names = set()
                            for h in p_.handlers:
                                cl, _u = handler_classes(h)
                                if all(covers(cl, e) for e in NEED) or any(covers(cl, e) for e in NEED):
                                    names.add(1)
                            guarded = guarded or bool(names)
                        prev, p_ = p_, getattr(p_, "_parent", None)
                    # a rebinding of the name (f = ca.external(...)) is not a use of the file
                    if stmt is not None and not guarded and not (isinstance(stmt, ast.Assign) and any(is_name(t, f) for t in stmt.targets) and not any(
                            isinstance(y, ast.Name) and y.id == f and isinstance(y.ctx, ast.Load) for y in ast.walk(stmt.value))):
                        # uses after the name was rebound to something else are not uses of the file either
                        rebound = [st for st in ast.walk(w) if isinstance(st, ast.Assign) and any(is_name(t, f) for t in st.targets)]
                        if rebound and min(r.lineno for r in rebound) <= x.lineno:
                            continue
                        bad.append("line %d: %s" % (x.lineno, norm(stmt)[:60]))
            rep.ob(R, site, "the cache file handle `%s` is read only inside the guarded load" % f, not bad,
                   "; ".join(bad[:3]) + " — this statement runs outside the try that turns a torn file into InvalidCacheError")
    if n < 1:
        raise MechanismMissing(R, "load_model no longer opens the cache file with `with open(..., 'rb') as f`")


@SPEC.rule(
    "R21.5",
    "if the cache is published by renaming a scratch file, every writer has a scratch file of its own: the source of the os.replace in "
    "save_model comes from tempfile (mkstemp / NamedTemporaryFile) or carries the process id / a uuid — a scratch name that is a pure "
    "function of the final name is shared by two transfer_model calls that both miss the cache, and the slower one's rename raises "
    "FileNotFoundError from inside transfer_model's fallback branch",
)
def r21_5(ctx, rep):
    from ..pyutil import inlined
    R = "R21.5"
    fn = api_fn(ctx, "save_model", R)
    site = API + ":save_model"
    reps = [c for c in calls(fn) if call_name(c) in ("os.replace", "os.rename", "shutil.move") and len(c.args) == 2]
    if not reps:
        rep.note("R21.5 save_model writes the cache file in place (no rename publish): the total-loader discipline of R21.1 applies, nothing to decide here")
        rep.ob(R, site, "no shared scratch file (in-place write)", True, "")
        return
    body = [st for st in ast.walk(fn) if isinstance(st, ast.stmt)]
    for c in reps:
        src = inlined(c.args[0], body)
        txt = norm(src)
        unique = any(k in txt for k in ("mkstemp", "NamedTemporaryFile", "mkdtemp", "getpid", "uuid", "token_hex", "urandom", "gettempprefix"))
        # a with-target of NamedTemporaryFile: <tmp>.name
        for w in ast.walk(fn):
            if isinstance(w, ast.With):
                for it in w.items:
                    if "NamedTemporaryFile" in norm(it.context_expr) or "mkstemp" in norm(it.context_expr):
                        if it.optional_vars is not None and norm(it.optional_vars) in txt:
                            unique = True
        rep.ob(R, site, "scratch file of `%s` is private to the writer" % norm(c)[:50], unique,
               "the scratch path `%s` depends on the final name only: two concurrent writers share it, the second rename finds it gone" % txt[:80])


@SPEC.rule(
    "R21.6",
    "the cache file is one pickle record, so `complete` and `loads` are the same thing: no path through save_model executes pickle.dump on the "
    "cache file twice (or in a loop), and no path through load_model executes pickle.load twice — a file of several records that is cut at a "
    "record boundary unpickles without error, and a reader that takes `end of file` for `no more records` serves the fragment",
)
def r21_6(ctx, rep):
    R = "R21.6"
    for fname, op in (("save_model", "pickle.dump"), ("load_model", "pickle.load")):
        fn = api_fn(ctx, fname, R)
        site = API + ":" + fname
        cfg = CFG(fn, R)
        def runs(x):
            if x.ast is None:
                return False
            if x.kind == "iter":
                return any(call_name(c) == op for c in calls(x.ast.iter))
            if x.kind in ("stmt", "test") and not isinstance(x.ast, (ast.With, ast.Try, ast.If, ast.For, ast.While, ast.FunctionDef)):
                return any(call_name(c) == op for c in calls(x.ast))
            return False

        nodes = [x for x in cfg.nodes if runs(x)]
        if not nodes:
            raise MechanismMissing(R, "%s not found in %s" % (op, fname))
        again = None
        for a in nodes:
            for b in nodes:
                if any(b.id in cfg.reachable(s_) or b.id == s_ for s_ in cfg.succ[a.id]):
                    again = (a, b)
        rep.ob(R, site, "%s runs at most once per call" % op, again is None,
               "after `%s` (line %s) another %s can run (line %s): the cache file then holds, or is read as, more than one record, and truncation "
               "at the boundary between them is not detectable" % ((norm(again[0].ast)[:40], again[0].ast.lineno, op, again[1].ast.lineno) if again else ("", "", op, "")))


@SPEC.rule(
    "R21.7",
    "the cache file is written last: nothing it refers to is produced after it — no call of _codegen_model (which writes the shared libraries "
    "the file names) is reachable in save_model once pickle.dump has run; a writer killed in between leaves a complete, fresh cache file "
    "that points at libraries which do not exist (or at those of an earlier model)",
)
def r21_7(ctx, rep):
    R = "R21.7"
    fn = api_fn(ctx, "save_model", R)
    site = API + ":save_model"
    cfg = CFG(fn, R)
    dumps = [x for x in cfg.stmts() if any(call_name(c) == "pickle.dump" for c in calls(x.ast))]
    gens = [x for x in cfg.nodes if x.ast is not None and x.kind in ("stmt", "test", "iter") and not isinstance(x.ast, (ast.If, ast.For, ast.While, ast.With, ast.Try))
            and any((call_name(c) or "").endswith("_codegen_model") for c in calls(x.ast))]
    if not dumps or not gens:
        raise MechanismMissing(R, "pickle.dump / the call of _codegen_model not found in save_model")
    late = [(d, g) for d in dumps for g in gens if g.id in cfg.reachable(d.id)]
    rep.ob(R, site, "libraries are built before the cache file is written", not late,
           "`%s` (line %s) can run after the cache file has been written" % ((norm(late[0][1].ast)[:60], late[0][1].ast.lineno) if late else ("", "")))


@SPEC.rule(
    "R21.8",
    "writing and reading the cache changes nothing process-wide: casadi/api.py calls no signal.signal / signal.pthread_sigmask / os.chdir / "
    "os.umask / sys.setrecursionlimit / locale.setlocale — `hold Ctrl-C back while dumping` raises ValueError in every thread but the main "
    "one, after the cache file was opened for writing: the empty file stays and the error escapes transfer_model's recompile fallback",
)
def r21_8(ctx, rep):
    R = "R21.8"
    GLOBAL_CALLS = ("signal.signal", "signal.pthread_sigmask", "signal.setitimer", "signal.alarm", "os.chdir", "os.umask", "sys.setrecursionlimit",
                    "locale.setlocale", "sys.setswitchinterval", "os.setuid", "os.nice")
    probe = ast.parse("def f():\n    signal.signal(signal.SIGINT, signal.SIG_IGN)\n")
    if not [c for c in ast.walk(probe) if isinstance(c, ast.Call) and call_name(c) in GLOBAL_CALLS]:
        raise AnalysisError(R, "self-test of the process-wide-call detector failed")
    mod = ctx.module(API, R)
    fns = [f for f in ast.walk(mod) if isinstance(f, ast.FunctionDef)]
    hits = ["%s line %d: %s" % (f.name, c.lineno, norm(c)[:50]) for f in fns for c in calls(f) if call_name(c) in GLOBAL_CALLS]
    if len(fns) < 8:
        raise MechanismMissing(R, "fewer than 8 functions scanned in casadi/api.py")
    rep.ob(R, API, "no process-wide state is changed by the cache code", not hits, "; ".join(hits[:3]))


@SPEC.rule(
    "R21.9",
    "a library a killed writer left behind is never taken for a finished one: _codegen_model builds the library on every call (R19.9's rule "
    "evaluated for this property) — `it is newer than the sources` is also true of a half-linked file",
)
def r21_9(ctx, rep):
    from .c19 import codegen_always_builds
    codegen_always_builds(ctx, rep, "R21.9")


@SPEC.rule(
    "R21.10",
    "an interrupted write leaves nothing locked: casadi/api.py takes no lock with a bare `.acquire()` — a lock is held through `with`, or "
    "released in the `finally` of the try that follows the acquire; a lock still held after an exception in save_model makes the next "
    "transfer_model of the same process wait forever instead of recompiling",
)
def r21_10(ctx, rep):
    R = "R21.10"

    def bare_acquires(fn):
        out = []
        for holder in ast.walk(fn):
            for f_ in ("body", "orelse", "finalbody"):
                lst = getattr(holder, f_, None)
                if not isinstance(lst, list):
                    continue
                for i, st in enumerate(lst):
                    c = st.value if isinstance(st, ast.Expr) else None
                    if isinstance(c, ast.Call) and isinstance(c.func, ast.Attribute) and c.func.attr == "acquire":
                        obj = norm(c.func.value)
                        nxt = lst[i + 1] if i + 1 < len(lst) else None
                        guarded = isinstance(nxt, ast.Try) and any(isinstance(x, ast.Call) and isinstance(x.func, ast.Attribute) and x.func.attr == "release"
                                                                   and norm(x.func.value) == obj for fb in nxt.finalbody for x in ast.walk(fb))
                        if not guarded:
                            out.append("line %d: %s" % (st.lineno, norm(st)[:50]))
        return out

    probe = ast.parse("def f(l):\n    l.acquire()\n    g()\n    l.release()\n").body[0]
    ok_probe = ast.parse("def f(l):\n    l.acquire()\n    try:\n        g()\n    finally:\n        l.release()\n").body[0]
    if not bare_acquires(probe) or bare_acquires(ok_probe):
        raise AnalysisError(R, "self-test of the bare-acquire detector failed")
    mod = ctx.module(API, R)
    fns = [f for f in ast.walk(mod) if isinstance(f, ast.FunctionDef)]
    if len(fns) < 8:
        raise MechanismMissing(R, "fewer than 8 functions scanned in casadi/api.py")
    hits = ["%s %s" % (f.name, h) for f in fns for h in bare_acquires(f)]
    rep.ob(R, API, "no lock is acquired without a finally that releases it", not hits, "; ".join(hits[:3]))


# -- seeded variants ---------------------------------------------------------
from ._mut import replace_in_func  # noqa: E402


@SPEC.mutant("loader handles RuntimeError only", API, "R21.1", "", needs_fixed=True)
def _m1(mod):
    def edit(fn):
        for n in ast.walk(fn):
            if isinstance(n, ast.Try) and any(call_name(c) == "pickle.load" for s in n.body for c in calls(s)):
                n.handlers = [h for h in n.handlers if h.type is not None and norm(h.type) == "RuntimeError"]
                return bool(n.handlers)
        return False

    return mod if replace_in_func(mod, "load_model", edit) else None


@SPEC.mutant("truncated cache swallowed instead of converted", API, "R21.1", "", needs_fixed=True)
def _m2(mod):
    def edit(fn):
        for n in ast.walk(fn):
            if isinstance(n, ast.Try) and any(call_name(c) == "pickle.load" for s in n.body for c in calls(s)):
                for h in n.handlers:
                    if h.type is not None and "EOFError" in norm(h.type):
                        h.body = [ast.parse("db = {}").body[0]]
                        return True
        return False

    return mod if replace_in_func(mod, "load_model", edit) else None


@SPEC.mutant("recompile handler dropped for InvalidCacheError", API, "R21.2", "")
def _m3(mod):
    def edit(fn):
        for n in ast.walk(fn):
            if isinstance(n, ast.ExceptHandler) and n.type is not None and "InvalidCacheError" in norm(n.type):
                n.type = ast.Name(id="FileNotFoundError", ctx=ast.Load())
                return True
        return False

    return mod if replace_in_func(mod, "transfer_model", edit) else None


@SPEC.mutant("cache file created exclusively", API, "R21.3", "open mode")
def _m_excl(mod):
    def edit(fn):
        for c in ast.walk(fn):
            if isinstance(c, ast.Call) and is_name(c.func, "open") and len(c.args) > 1 and const_str(c.args[1]) == "wb":
                c.args[1] = ast.Constant(value="xb")
                return True
        return False

    return mod if replace_in_func(mod, "save_model", edit) else None


@SPEC.mutant("truncation sniff before the guarded load", API, "R21.4", "read only inside the guarded load")
def _m_sniff(mod):
    def edit(fn):
        for w in ast.walk(fn):
            if isinstance(w, ast.With) and any("'rb'" in norm(i.context_expr) for i in w.items):
                w.body.insert(0, ast.parse("f.seek(-1, os.SEEK_END)").body[0])
                w.body.insert(1, ast.parse("f.seek(0)").body[0])
                return True
        return False

    return mod if replace_in_func(mod, "load_model", edit) else None


@SPEC.mutant("header written as a record of its own", API, "R21.6", "pickle.dump runs at most once")
def _m_two_records(mod):
    def edit(fn):
        for w in ast.walk(fn):
            if isinstance(w, ast.With):
                for i, st in enumerate(w.body):
                    if isinstance(st, ast.Expr) and "pickle.dump" in norm(st):
                        w.body.insert(i, ast.parse(norm(st)).body[0])
                        return True
        return False

    return mod if replace_in_func(mod, "save_model", edit) else None


@SPEC.mutant("libraries built after the cache file", API, "R21.7", "built before")
def _m_codegen_late(mod):
    def edit(fn):
        fn.body.append(ast.parse("if compiler_options['codegen']:\n    _codegen_model(model_folder, model.dae_residual_function, model_name + '_dae_residual')").body[0])
        return True

    return mod if replace_in_func(mod, "save_model", edit) else None
