"""C24 — SymPy backend emits code with the flat model's meaning."""
from __future__ import annotations

import ast
import re
import string

from .. import genparser
from ..engine import AnalysisError, MechanismMissing, PropertySpec, norm
from ..grammar import parse_grammar
from ..pyutil import call_name, calls, const_str, inlined, is_name, literal, walk_local

SYM = "src/pymoca/backends/sympy/generator.py"
G4 = "src/pymoca/Modelica.g4"
CLS = "SympyGenerator"

SPEC = PropertySpec(
    "C24",
    "SymPy backend emits code with the flat model's meaning",
    decided=(
        "the infix/prefix printer encloses every operand placeholder in parentheses (so the printed text groups like "
        "the tree); the prefix dispatch that builds the symbol lists gives every symbol at least one list for every "
        "prefix the grammar allows; reference and declaration sites mangle names with the same statements."
    ),
    not_decided="injectivity of the mangling (a.b vs a__b); numeric meaning of the generated module.",
)


def _format_calls(fn):
    """(template, {field: value expr}, call) for `<literal>.format(**kw)` calls."""
    out = []
    for c in calls(fn):
        if isinstance(c.func, ast.Attribute) and c.func.attr == "format" and const_str(c.func.value) is not None:
            kw = {k.arg: k.value for k in c.keywords if k.arg}
            out.append((const_str(c.func.value), kw, c))
    return out


def _locals_spelled_out(v):
    """`"{a.b:s}({c:s})".format(**locals())` as the f-string it is: every field is an expression over the locals"""
    if (isinstance(v, ast.Call) and isinstance(v.func, ast.Attribute) and v.func.attr == "format" and const_str(v.func.value) is not None
            and not v.args and len(v.keywords) == 1 and v.keywords[0].arg is None and norm(v.keywords[0].value) == "locals()"):
        values = []
        for lit, field, _spec, _conv in string.Formatter().parse(const_str(v.func.value)):
            if lit:
                values.append(ast.Constant(value=lit))
            if field:
                try:
                    values.append(ast.FormattedValue(value=ast.parse(field, mode="eval").body, conversion=-1, format_spec=None))
                except SyntaxError:
                    return v
        return ast.JoinedStr(values=values)
    return v


def _is_operator_field(v) -> bool:
    """the expression is the node's operator: `<x>.operator[.name]`, str() of it, or a translation of it that chooses between it and literals"""
    while isinstance(v, ast.Call) and is_name(v.func, "str") and len(v.args) == 1:
        v = v.args[0]
    if isinstance(v, ast.IfExp):
        alts = [v.body, v.orelse]
        return all(_is_operator_field(a) or const_str(a) is not None for a in alts) and any(_is_operator_field(a) for a in alts)
    while isinstance(v, ast.Attribute):
        if v.attr == "operator":
            return True
        v = v.value
    return False


def _is_operand(v) -> bool:
    return any(isinstance(x, ast.Subscript) and norm(x.value) == "self.src" for x in ast.walk(v))


@SPEC.rule(
    "R24.1",
    "operands parenthesised: in every format template of SympyGenerator that places an operand next to an infix/prefix "
    "operator (binary, unary, equation residual) each operand placeholder is enclosed in parentheses",
)
def r24_1(ctx, rep):
    R = "R24.1"
    n = 0
    for hname in ("exitExpression", "exitEquation"):
        fn = ctx.func(SYM, "%s.%s" % (CLS, hname), R)
        site = "%s:%s.%s" % (SYM, CLS, hname)
        # every string-building expression of the handler (str.format, f-string, %, +), with one-shot temporaries resolved so that
        # `left = self.src[..]; f"({left}) ..."` and `"({left}) ...".format(left=self.src[..])` are the same template
        seen = set()
        for st in walk_local(fn):
            if not isinstance(st, ast.Assign):
                continue
            v = st.value
            if not (isinstance(v, ast.JoinedStr) or (isinstance(v, ast.BinOp) and isinstance(v.op, (ast.Add, ast.Mod)))
                    or (isinstance(v, ast.Call) and isinstance(v.func, ast.Attribute) and v.func.attr == "format")):
                continue
            pieces = _template_pieces(_locals_spelled_out(v))
            if pieces is None:
                continue
            pieces = [p_ if isinstance(p_, str) else inlined(p_, fn.body) for p_ in pieces]

            def _chosen_operator(p_):
                """a local that every branch binds to the operator or to a literal translation of it (`python_op = "**"` / `python_op = op`)"""
                if not isinstance(p_, ast.Name):
                    return False
                vals = [inlined(a.value, fn.body, keep={p_.id}) for a in ast.walk(fn) if isinstance(a, ast.Assign) and any(is_name(t, p_.id) for t in a.targets)]
                return len(vals) >= 2 and all(_is_operator_field(x) or const_str(x) is not None for x in vals) and any(_is_operator_field(x) for x in vals)

            pieces = [p_ if isinstance(p_, str) or not _chosen_operator(p_) else ast.Attribute(value=ast.Name(id="tree", ctx=ast.Load()), attr="operator", ctx=ast.Load())
                      for p_ in pieces]
            tmpl = "".join(p_ if isinstance(p_, str) else "{%s}" % norm(p_) for p_ in pieces)
            if tmpl in seen:
                continue
            seen.add(tmpl)
            # a filled-in expression is the operator (the node's operator, possibly translated: `op if op != "^" else "**"`) or an operand
            operands = [i for i, p_ in enumerate(pieces) if not isinstance(p_, str) and not _is_operator_field(p_)]
            has_op_field = any(not isinstance(p_, str) and _is_operator_field(p_) for p_ in pieces)
            infix_literal = any(isinstance(p_, str) and re.search(r"[-+*/]", p_) for p_ in pieces)
            if not operands or not (has_op_field or infix_literal):
                continue
            for i in operands:
                n += 1
                before = pieces[i - 1] if i > 0 and isinstance(pieces[i - 1], str) else ""
                after = pieces[i + 1] if i + 1 < len(pieces) and isinstance(pieces[i + 1], str) else ""
                ok = before.rstrip().endswith("(") and after.lstrip().startswith(")")
                shape = "".join(p_ if isinstance(p_, str) else "{}" for p_ in pieces)
                rep.ob(R, site, "template %r operand #%d" % (shape, 1 + sum(1 for p_ in pieces[:i] if not isinstance(p_, str))), ok,
                       "operand `%s` is printed next to an operator without parentheses: the text `a + b` substituted into "
                       "`{left} * {right}` changes the grouping of the expression" % norm(pieces[i])[:60])
    if n < 4:
        raise MechanismMissing(R, "fewer than 4 operand placeholders found in the infix templates")


def _grammar_prefixes(ctx, R):
    rules = parse_grammar(ctx.read(G4, R))
    from ..grammar import contexts

    c = contexts(rules).get("Type_prefixContext")
    if not c:
        raise AnalysisError(R, "type_prefix rule not found in grammar")
    return set(c["lits"])


@SPEC.rule(
    "R24.2",
    "total classification: the prefix dispatch of SympyGenerator.exitClass puts every symbol in at least one list: it "
    "has a catch-all, or it names every prefix the grammar's type_prefix allows (plus the internal 'state')",
)
def r24_2(ctx, rep):
    R = "R24.2"
    fn = _with_dict_keys_spelled_out(ctx.func(SYM, CLS + ".exitClass", R))
    site = "%s:%s.exitClass" % (SYM, CLS)
    chain_lits, has_else = None, False
    for lp in walk_local(fn):
        if isinstance(lp, ast.For) and norm(lp.iter).endswith(".prefixes") and isinstance(lp.target, ast.Name):
            v = lp.target.id
            node = [s for s in lp.body if isinstance(s, ast.If)]
            if not node:
                continue
            node = node[0]
            lits = []
            while True:
                t = node.test
                if isinstance(t, ast.Compare) and is_name(t.left, v) and isinstance(t.ops[0], ast.Eq):
                    lits.append(const_str(t.comparators[0]))
                elif isinstance(t, ast.Compare) and is_name(t.left, v) and isinstance(t.ops[0], ast.In) and isinstance(literal(t.comparators[0]), (set, list, tuple)):
                    # table dispatch: `if prefix in {keys of the table}: table[prefix].append(s)`
                    if any(isinstance(x, ast.Subscript) and is_name(x.slice, v) for b in node.body for x in ast.walk(b)):
                        lits.extend(sorted(literal(t.comparators[0])))
                if len(node.orelse) == 1 and isinstance(node.orelse[0], ast.If):
                    node = node.orelse[0]
                else:
                    has_else = bool(node.orelse)
                    break
            chain_lits = lits
    if chain_lits is None:
        raise MechanismMissing(R, "prefix dispatch not found in SympyGenerator.exitClass")
    allowed = _grammar_prefixes(ctx, R) | {"state"}
    # the test in front of the dispatch ("no classifying prefix -> variables"), evaluated for a symbol with one prefix
    top = None
    for lp in walk_local(fn):
        if isinstance(lp, ast.For) and isinstance(lp.iter, ast.Name) and isinstance(lp.target, ast.Name):
            for st in lp.body:
                if not isinstance(st, ast.If):
                    continue
                for plain, disp, in_body in ((st.body, st.orelse, True), (st.orelse, st.body, False)):
                    if any(isinstance(x, ast.For) and norm(x.iter).endswith(".prefixes") for x in disp) and any("variables" in norm(x) for x in plain):
                        top = ((st.test, in_body), lp.target.id)
    for pfx in sorted(allowed):
        to_variables = top is not None and _no_class_test(top[0], top[1], [pfx]) is True
        rep.ob(R, site, "prefix %s" % pfx, has_else or pfx in chain_lits or to_variables,
               "a symbol whose only prefix is `%s` reaches no list: the generated module uses a name it never defines" % pfx)
    ok = top is not None and _no_class_test(top[0], top[1], []) is True
    rep.ob(R, site, "no prefixes -> variables", ok, "a symbol without prefixes must be listed as a variable")
    # and a classifying prefix must not be swallowed by that test
    for pfx in chain_lits:
        if top is not None and _no_class_test(top[0], top[1], [pfx]) is not False:
            rep.ob(R, site, "prefix %s dispatched" % pfx, False, "a symbol with prefix `%s` is sent to the variables list instead of its own list" % pfx)


def _with_dict_keys_spelled_out(fn):
    """a copy of fn in which the key set of a local dispatch table — a name bound once to a dict display with string keys — is written out:
    `set(T)`, `T.keys()`, `list(T)` and `x in T` become the literal set of its keys, so `if p in T: T[p].append(s)` reads like the if/elif
    chain it replaces"""
    from ..pyutil import ast_copy
    fn = ast_copy(fn)
    tables = {}
    counts = {}
    for st in ast.walk(fn):
        if isinstance(st, ast.Assign) and len(st.targets) == 1 and isinstance(st.targets[0], ast.Name):
            counts[st.targets[0].id] = counts.get(st.targets[0].id, 0) + 1
            if isinstance(st.value, ast.Dict) and st.value.keys and all(isinstance(k, ast.Constant) and isinstance(k.value, str) for k in st.value.keys):
                tables[st.targets[0].id] = [k.value for k in st.value.keys]
    tables = {k: v for k, v in tables.items() if counts.get(k) == 1}
    if not tables:
        return fn

    def keyset(name):
        return ast.Set(elts=[ast.Constant(value=k) for k in tables[name]])

    class T(ast.NodeTransformer):
        def visit_Call(self, n):
            self.generic_visit(n)
            if isinstance(n.func, ast.Name) and n.func.id in ("set", "list", "tuple", "frozenset", "sorted") and len(n.args) == 1 and isinstance(n.args[0], ast.Name) \
                    and n.args[0].id in tables:
                return keyset(n.args[0].id)
            if isinstance(n.func, ast.Attribute) and n.func.attr == "keys" and isinstance(n.func.value, ast.Name) and n.func.value.id in tables and not n.args:
                return keyset(n.func.value.id)
            return n

        def visit_Compare(self, n):
            self.generic_visit(n)
            if len(n.ops) == 1 and isinstance(n.ops[0], (ast.In, ast.NotIn)) and isinstance(n.comparators[0], ast.Name) and n.comparators[0].id in tables:
                n.comparators = [keyset(n.comparators[0].id)]
            return n

    return ast.fix_missing_locations(T().visit(fn))


def _truth(test, var, prefixes):
    """truth value of a test over `<var>.prefixes` for a symbol whose prefixes are `prefixes` (None = unknown form)"""
    pv = var + ".prefixes"
    if isinstance(test, ast.UnaryOp) and isinstance(test.op, ast.Not):
        r = _truth(test.operand, var, prefixes)
        return None if r is None else not r
    t = norm(test)
    if t == "len(%s) == 0" % pv:
        return len(prefixes) == 0
    if t in (pv, "len(%s) > 0" % pv, "len(%s) != 0" % pv, "len(%s)" % pv):
        return len(prefixes) > 0
    if isinstance(test, ast.BinOp) and isinstance(test.op, ast.BitAnd):
        for x, y in ((test.left, test.right), (test.right, test.left)):
            lit = literal(x)
            if isinstance(lit, (set, list, tuple)) and norm(y) == "set(%s)" % pv:
                return bool(set(lit) & set(prefixes))
    if isinstance(test, ast.Call) and is_name(test.func, "any") and test.args and isinstance(test.args[0], ast.GeneratorExp):
        g = test.args[0]
        lit = literal(g.generators[0].iter)
        if isinstance(lit, (set, list, tuple)) and norm(g.elt) == "%s in %s" % (g.generators[0].target.id, pv):
            return bool(set(lit) & set(prefixes))
    if isinstance(test, ast.Call) and isinstance(test.func, ast.Attribute) and test.func.attr == "isdisjoint" and norm(test.func.value) == "set(%s)" % pv:
        lit = literal(test.args[0])
        if isinstance(lit, (set, list, tuple)):
            return not (set(lit) & set(prefixes))
    return None


def _no_class_test(top, var, prefixes):
    """does the test in front of the dispatch send a symbol with these prefixes to the plain-variables branch?
    `top` = (test, True if the variables branch is the if-body, False if it is the else-branch)"""
    test, in_body = top
    r = _truth(test, var, prefixes)
    return None if r is None else (r if in_body else not r)


@SPEC.rule(
    "R24.3",
    "same mangling at both name sites: exitComponentRef and exitSymbol replace the separator and escape reserved names "
    "with AST-equal statements (the reference handler may additionally map `time`)",
)
def r24_3(ctx, rep):
    R = "R24.3"
    from ..pyutil import renamed_copy

    def canon(fn):
        """the handler with the local that holds the mangled name called `name` and its node parameter called `tree`"""
        roles = {}
        for s_ in fn.body:
            if isinstance(s_, ast.Assign) and isinstance(s_.targets[0], ast.Name) and isinstance(s_.value, ast.Call) and isinstance(s_.value.func, ast.Attribute) \
                    and s_.value.func.attr == "replace":
                roles[s_.targets[0].id] = "name"
        if len(fn.args.args) > 1:
            roles[fn.args.args[1].arg] = "tree"
        return renamed_copy(fn, {k: v for k, v in roles.items() if k != v})

    a = canon(ctx.func(SYM, CLS + ".exitComponentRef", R))
    b = canon(ctx.func(SYM, CLS + ".exitSymbol", R))

    def parts(fn):
        rep_st, loop = None, None
        for s in fn.body:
            if isinstance(s, ast.Assign) and isinstance(s.value, ast.Call) and isinstance(s.value.func, ast.Attribute) and s.value.func.attr == "replace":
                rep_st = norm(s)
            if isinstance(s, ast.While):
                loop = norm(s)
        return rep_st, loop

    pa, pb = parts(a), parts(b)
    site = "%s:%s.exitComponentRef/exitSymbol" % (SYM, CLS)
    rep.ob(R, site, "separator replacement", pa[0] is not None and pa[0] == pb[0],
           "a reference and its declaration must replace '.' the same way, else the generated code uses a name it never defines")
    rep.ob(R, site, "reserved-name escape", pa[1] is not None and pa[1] == pb[1],
           "a reference and its declaration must escape Python builtins the same way")
    for fn, nm in ((a, "exitComponentRef"), (b, "exitSymbol")):
        ok = any(isinstance(s, ast.Assign) and norm(s.targets[0]) == "self.src[tree]" and is_name(s.value, "name") for s in fn.body)
        rep.ob(R, "%s:%s.%s" % (SYM, CLS, nm), "stores the mangled name", ok, "self.src[tree] must be the mangled name")


@SPEC.rule(
    "R24.4",
    "literal values are rendered losslessly: exitPrimary turn a node's .value into text only through str()/repr()/plain "
    "placeholders — no format specification with a precision or numeric presentation type, no round()/int(), neither in "
    "the handler nor in a helper it calls",
)
def r24_4(ctx, rep):
    from ._literal import literal_rule

    literal_rule(ctx, rep, "R24.4", SYM, "SympyGenerator", ['exitPrimary'],
                 "a float literal of an equation is printed through a lossy conversion, so the generated residual differs numerically from lhs - rhs")


@SPEC.rule(
    "R24.5",
    "the reserved-name table protects what the generated module needs: BUILTINS is built from the `builtins` MODULE "
    "(`dir(__builtins__)` lists dict methods in an imported module, protecting nothing), contains Python's keywords "
    "(keyword.kwlist) and every name the module template itself imports or binds (self, sympy, mech, OdeModel, sin, ...): "
    "a Modelica variable with one of those names would otherwise shadow it or make the module invalid Python",
)
def r24_5(ctx, rep):
    import re
    R = "R24.5"
    v = ctx.module_assign(SYM, "BUILTINS", R)
    site = SYM + ":BUILTINS"
    parts = []

    def flat(e):
        if isinstance(e, ast.BinOp) and isinstance(e.op, ast.Add):
            flat(e.left)
            flat(e.right)
        else:
            parts.append(e)

    flat(v)
    texts = [norm(p_) for p_ in parts]
    rep.ob(R, site, "builtins from the builtins module", "dir(builtins)" in texts and not any("__builtins__" in t for t in texts),
           "BUILTINS = %s: `__builtins__` is a dict in an imported module, so abs, min, max, sum, ... are not protected" % norm(v)[:80])
    rep.ob(R, site, "python keywords reserved", any(t in ("keyword.kwlist", "list(keyword.kwlist)") for t in texts),
           "a variable named lambda / def / pass / is makes the generated module a SyntaxError; keyword.kwlist must be part of the table")
    lit = set()
    for p_ in parts:
        l = literal(p_)
        if isinstance(l, (list, tuple, set)):
            lit |= set(l)
    # names bound by the module template
    fn = ctx.func(SYM, "SympyGenerator.exitTree", R)
    need = {"self"}
    for c in ast.walk(fn):
        if isinstance(c, ast.Constant) and isinstance(c.value, str) and "import" in c.value:
            for line in c.value.splitlines():
                line = line.strip()
                m = re.match(r"^import\s+([\w.]+)(?:\s+as\s+(\w+))?$", line)
                if m:
                    need.add(m.group(2) or m.group(1).split(".")[0])
                m = re.match(r"^from\s+[\w.]+\s+import\s+(.+)$", line)
                if m and not line.startswith("from __future__"):
                    for nm in m.group(1).split(","):
                        nm = nm.strip().split(" as ")[-1].strip()
                        if nm.isidentifier():
                            need.add(nm)
    if len(need) < 4:
        raise MechanismMissing(R, "import lines of the generated module template not found in exitTree")
    import builtins as _b
    missing = sorted(n for n in need if n not in lit and not hasattr(_b, n))
    rep.ob(R, site, "names bound by the module template are reserved", not missing,
           "the generated module binds %s itself; a Modelica variable of that name is emitted unchanged and shadows it (missing from BUILTINS: %s)" % (sorted(need), missing))


@SPEC.rule(
    "R24.6",
    "classification lists are consulted only when complete: in SympyGenerator.exitClass a membership test `s in <list>` / `s not "
    "in <list>` on one of the classification lists (states, inputs, outputs, ...) never sits inside a loop that still appends to "
    "that list — the 'state' prefix comes last in a symbol's prefixes, so a test made while the symbol's prefixes are being "
    "dispatched does not yet see it as a state and lists an output state among the plain variables as well",
)
def r24_6(ctx, rep):
    R = "R24.6"
    fn = ctx.func(SYM, CLS + ".exitClass", R)
    site = "%s:%s.exitClass" % (SYM, CLS)
    lists = {st.targets[0].id for st in fn.body if isinstance(st, ast.Assign) and isinstance(st.targets[0], ast.Name) and isinstance(st.value, ast.List) and not st.value.elts}
    if len(lists) < 5:
        raise MechanismMissing(R, "classification lists of exitClass not found")

    def fills(loop, name):
        for x in ast.walk(loop):
            if isinstance(x, ast.AugAssign) and is_name(x.target, name):
                return True
            if isinstance(x, ast.Call) and isinstance(x.func, ast.Attribute) and x.func.attr in ("append", "extend", "insert") and is_name(x.func.value, name):
                return True
        return False

    n = 0
    for c in ast.walk(fn):
        if isinstance(c, ast.Compare) and len(c.ops) == 1 and isinstance(c.ops[0], (ast.In, ast.NotIn)) and isinstance(c.comparators[0], ast.Name) \
                and c.comparators[0].id in lists:
            n += 1
            lst = c.comparators[0].id
            p_ = getattr(c, "_parent", None)
            inside = None
            while p_ is not None and p_ is not fn:
                if isinstance(p_, (ast.For, ast.While)) and fills(p_, lst):
                    inside = p_
                p_ = getattr(p_, "_parent", None)
            rep.ob(R, site, "membership test `%s` on a complete list" % norm(c), inside is None,
                   "`%s` is evaluated inside the loop that is still filling `%s`: whether the symbol is found depends on the order of its "
                   "prefixes (a differentiated output is not yet among the states when its 'output' prefix is dispatched)" % (norm(c), lst))
    if n < 1:
        raise MechanismMissing(R, "the completion step `if s not in states` for outputs was not found")


@SPEC.rule(
    "R24.7",
    "the tables of names the generator consults (reserved names, prefixes) are what they look like: no element of a list/tuple/set of "
    "names in sympy/generator.py is spelled as two adjacent string literals (a lost comma un-reserves both names)",
)
def r24_7(ctx, rep):
    from ._literal import no_implicit_concat
    no_implicit_concat(ctx, rep, "R24.7", SYM, "reserved names, prefixes")



def _template_pieces(v):
    """a string-building expression as a list of literal pieces (str) and filled-in expressions (ast): "...".format(...),
    f-strings, "..." % (...), and + concatenations of those; None when it is something else"""
    if isinstance(v, ast.Constant) and isinstance(v.value, str):
        return [v.value]
    if isinstance(v, ast.JoinedStr):
        out = []
        for x in v.values:
            out.append(x.value if isinstance(x, ast.Constant) else x.value)
        return out
    if isinstance(v, ast.BinOp) and isinstance(v.op, ast.Add):
        a, b = _template_pieces(v.left), _template_pieces(v.right)
        return None if a is None or b is None else a + b
    if isinstance(v, ast.Call) and isinstance(v.func, ast.Attribute) and v.func.attr == "format" and isinstance(v.func.value, ast.Constant) and isinstance(v.func.value.value, str):
        kw = {k.arg: k.value for k in v.keywords}
        out, auto = [], 0
        for lit, field, _spec, _conv in string.Formatter().parse(v.func.value.value):
            if lit:
                out.append(lit)
            if field is None:
                continue
            if field == "":
                e = v.args[auto] if auto < len(v.args) else None
                auto += 1
            elif field.isdigit():
                e = v.args[int(field)] if int(field) < len(v.args) else None
            elif field in kw:
                e = kw.get(field)
            else:
                # {tree.operator.name}: attribute / item access on a keyword argument
                e = None
                try:
                    fe = ast.parse(field, mode="eval").body
                    base = fe
                    while isinstance(base, (ast.Attribute, ast.Subscript)):
                        base = base.value
                    if isinstance(base, ast.Name) and base.id in kw:
                        class _Sub(ast.NodeTransformer):
                            def visit_Name(self, n, _b=base.id):
                                return kw[_b] if n.id == _b else n
                        e = _Sub().visit(fe)
                except SyntaxError:
                    e = None
            if e is None:
                return None
            out.append(e)
        return out
    if isinstance(v, ast.BinOp) and isinstance(v.op, ast.Mod) and isinstance(v.left, ast.Constant) and isinstance(v.left.value, str):
        args = list(v.right.elts) if isinstance(v.right, ast.Tuple) else [v.right]
        parts = re.split(r"%[sdr]", v.left.value)
        if len(parts) != len(args) + 1:
            return None
        out = []
        for i, p_ in enumerate(parts):
            if p_:
                out.append(p_)
            if i < len(args):
                out.append(args[i])
        return out
    if isinstance(v, (ast.Subscript, ast.Name, ast.Attribute, ast.Call)):
        return [v]
    return None


@SPEC.rule(
    "R24.8",
    "every equation is rendered as lhs minus rhs: each value SympyGenerator.exitEquation stores for the equation reads the rendered "
    "left and right sides and joins them as `(<left>) - (<right>)`, left first, on every path — no special form for `0 = expr`, "
    "`x = 0` or anything else (the roots would be the same, the residual's sign would not, and the linearisation's Jacobian with it)",
)
def r24_8(ctx, rep):
    R = "R24.8"
    fn = ctx.methods(SYM, "SympyGenerator", R).get("exitEquation")
    if fn is None:
        raise MechanismMissing(R, "SympyGenerator.exitEquation not found")
    site = SYM + ":SympyGenerator.exitEquation"
    stores = [st for st in walk_local(fn) if isinstance(st, ast.Assign) and isinstance(st.targets[0], ast.Subscript) and norm(st.targets[0].value) == "self.src"]
    if not stores:
        raise MechanismMissing(R, "exitEquation stores nothing in self.src")
    arg = fn.args.args[1].arg
    for st in stores:
        v = st.value
        reads = [norm(x) for x in ast.walk(v) if isinstance(x, ast.Subscript) and norm(x.value) == "self.src"]
        pieces = _template_pieces(v)
        tmpl = None
        shape = False
        if pieces is not None:
            tmpl = "".join(p_ if isinstance(p_, str) else "@" for p_ in pieces)
            filled = [norm(p_) for p_ in pieces if not isinstance(p_, str)]
            shape = tmpl.replace(" ", "") in ("(@)-(@)", "@-(@)") and filled == ["self.src[%s.left]" % arg, "self.src[%s.right]" % arg]
        rep.ob(R, site, "`%s` is (left) - (right)" % norm(st)[:70], shape,
               "the stored text is not `(<rendered left side>) - (<rendered right side>)` (template %r, operands %s): this equation's residual "
               "is not lhs - rhs" % (tmpl, reads))
    from ..cfg import CFG
    cfg = CFG(fn, R)
    nodes = {x.id for x in cfg.stmts() if x.ast in stores}
    bad = cfg.must_pass(cfg.entry, cfg.exit, nodes)
    rep.ob(R, site, "every equation gets a residual", bad is None, "exitEquation can return without storing the equation's text", path=cfg.describe(bad) if bad else "")


FREE_TEXT_FIELDS = ("comment", "annotation", "description")


@SPEC.rule(
    "R24.10",
    "no free text of the model reaches the generated source: the templates of sympy/generator.py interpolate rendered sub-expressions, "
    "mangled names and literal values only — never a node's comment / annotation (a description string may contain line breaks, quotes "
    "or a `#`, and what follows the first line break of a `# ...` comment is code)",
)
def r24_10(ctx, rep):
    R = "R24.10"
    mod = ctx.module(SYM, R)
    n = 0
    hits = []
    for c in ast.walk(mod):
        if isinstance(c, ast.Constant) and isinstance(c.value, str) and ("{{" in c.value or "{%" in c.value):
            n += 1
            for m_ in re.finditer(r"\{\{(.*?)\}\}|\{%(.*?)%\}", c.value, flags=re.S):
                seg = m_.group(1) or m_.group(2) or ""
                for f in FREE_TEXT_FIELDS:
                    if re.search(r"\.%s\b" % f, seg):
                        hits.append("{{%s}}" % seg.strip()[:50])
    # the same through str.format in the handlers
    for fn in ctx.methods(SYM, "SympyGenerator", R).values():
        for x in ast.walk(fn):
            if isinstance(x, ast.Attribute) and x.attr in FREE_TEXT_FIELDS and isinstance(x.ctx, ast.Load):
                hits.append("%s: %s" % (fn.name, norm(x)))
    if n < 2:
        raise MechanismMissing(R, "fewer than 2 templates found in sympy/generator.py")
    rep.ob(R, SYM, "templates and handlers interpolate no free text", not hits,
           "%s — a multi-line (or quote-carrying) description turns the generated module into invalid Python" % "; ".join(hits[:3]))


@SPEC.rule(
    "R24.11",
    "the module is generated from the tree as it is now: no function of sympy/generator.py writes a module-level container, is wrapped in "
    "a caching decorator or keeps a mutable default — a memo per tree object and model name returns the old source after the tree was "
    "edited in place, and the lists and equations no longer match the flat model",
)
def r24_11(ctx, rep):
    from .c25 import module_state_free
    module_state_free(ctx, rep, "R24.11", SYM, "the SymPy generator module")


@SPEC.rule(
    "R24.12",
    "every list entry and equation is rendered from the node it belongs to: no function of the SymPy generator reads a for-loop's variable after that loop has ended (the value the last iteration left behind)",
)
def r24_12(ctx, rep):
    from ._literal import no_stale_loop_variables
    no_stale_loop_variables(ctx, rep, "R24.12", SYM, "the SymPy generator")


@SPEC.rule(
    "R24.13",
    "a unary sign is rendered, every time: in the unary +/- branch of SympyGenerator.exitExpression every text stored for the node contains the "
    "node's own operator in front of the rendered operand — no cancelling of `two signs in a row` on the text level (- (+x) is not x)",
)
def r24_13(ctx, rep):
    R = "R24.13"
    fn = ctx.methods(SYM, "SympyGenerator", R).get("exitExpression")
    if fn is None:
        raise MechanismMissing(R, "SympyGenerator.exitExpression not found")
    site = SYM + ":SympyGenerator.exitExpression"
    def _is_operator(v):
        while isinstance(v, ast.Call) and is_name(v.func, "str") and len(v.args) == 1:
            v = v.args[0]
        return isinstance(v, ast.Attribute) and v.attr == "operator"

    ops = {st.targets[0].id for st in walk_local(fn) if isinstance(st, ast.Assign) and isinstance(st.targets[0], ast.Name)
           and _is_operator(st.value)}
    # the names whose value is what the handler stores for the node (`self.src[tree] = src`)
    stored = {st.value.id for st in walk_local(fn) if isinstance(st, ast.Assign) and isinstance(st.targets[0], ast.Subscript)
              and norm(st.targets[0].value) == "self.src" and isinstance(st.value, ast.Name)}
    branches = [b for b in ast.walk(fn) if isinstance(b, ast.If) and "== 1" in norm(b.test) and "'-'" in norm(b.test)]
    if not branches or not ops:
        raise MechanismMissing(R, "unary +/- branch (or the local holding the operator) not found")
    n = 0
    for b in branches:
        for st in [x for s_ in b.body for x in ast.walk(s_)]:
            if not isinstance(st, ast.Assign):
                continue
            t0 = st.targets[0]
            is_store = (isinstance(t0, ast.Name) and t0.id in stored) or (isinstance(t0, ast.Subscript) and norm(t0.value) == "self.src")
            value = inlined(st.value, b.body, keep=ops | stored)
            if is_store and any(isinstance(y, ast.Subscript) and norm(y.value) == "self.src" for y in ast.walk(value)):
                n += 1
                pieces = _template_pieces(value) or []
                exprs = [norm(p_) for p_ in pieces if not isinstance(p_, str)]
                has_op = any(e in ops or any(e.startswith(o + " ") or e == o for o in ops) for e in exprs)
                rep.ob(R, site, "`%s` carries the node's sign" % norm(st)[:60], has_op and len(exprs) >= 2,
                       "the text stored for a unary +/- node is `%s`: the sign of this node is not in it" % norm(st.value)[:60])
    if n < 1:
        raise MechanismMissing(R, "no rendering of the unary operand found in the unary branch")


@SPEC.rule(
    "R24.14",
    "the equation list is the class's equation list: the template of SympyGenerator.exitClass fills `self.eqs` by iterating `tree.equations` and "
    "printing `render.src[<that equation>]` — a list collected while walking also holds the initial equations (the walker visits them first) "
    "and the equations of nested constructs",
)
def r24_14(ctx, rep):
    R = "R24.14"
    mod = ctx.module(SYM, R)
    site = SYM + ":SympyGenerator.exitClass (template)"
    hit = None
    for c in ast.walk(mod):
        if isinstance(c, ast.Constant) and isinstance(c.value, str) and "self.eqs" in c.value and "{%" in c.value:
            m_ = re.search(r"self\.eqs\s*=\s*\[(.*?)\]\s*\n", c.value, flags=re.S)
            if m_:
                hit = m_.group(1)
    if hit is None:
        raise MechanismMissing(R, "the `self.eqs = [...]` block was not found in the module template")
    loop = re.search(r"\{%-?\s*for\s+(\w+)\s+in\s+([\w\.]+)\s*-?%\}", hit)
    ok = bool(loop) and loop.group(2) == "tree.equations" and re.search(r"\{\{\s*render\.src\[\s*%s\s*\]\s*\}\}" % (loop.group(1) if loop else "x"), hit) is not None
    rep.ob(R, site, "self.eqs lists the rendered tree.equations", ok,
           "the block is `%s`: the generated model's equations are not (only) the class's equations in their order" % " ".join(hit.split())[:120])


@SPEC.rule(
    "R24.15",
    "only the built-in time is the independent variable: the test in SympyGenerator.exitComponentRef that maps a reference to `self.t` compares "
    "the whole name with 'time' — no endswith / startswith / `in`: a component's own variable `c.time` (mangled `c__time`) is a model variable",
)
def r24_15(ctx, rep):
    R = "R24.15"
    fn = ctx.func(SYM, CLS + ".exitComponentRef", R)
    site = "%s:%s.exitComponentRef" % (SYM, CLS)
    n = 0
    for st in ast.walk(fn):
        if isinstance(st, ast.If) and any(isinstance(c, ast.Constant) and isinstance(c.value, str) and "time" in c.value for c in ast.walk(st.test)):
            n += 1
            t = st.test
            exact = isinstance(t, ast.Compare) and len(t.ops) == 1 and isinstance(t.ops[0], (ast.Eq, ast.NotEq)) and (
                const_str(t.comparators[0]) == "time" or const_str(t.left) == "time")
            rep.ob(R, site, "the time test compares the whole name", exact, "the test is `%s`" % norm(t)[:80])
    if n < 1:
        raise MechanismMissing(R, "the mapping of `time` to the independent variable was not found in exitComponentRef")


# -- seeded variants ---------------------------------------------------------
from ._mut import replace_in_func  # noqa: E402


@SPEC.mutant("parentheses removed from binary template", SYM, "R24.1", "left", needs_fixed=True)
def _m1(mod):
    def edit(fn):
        for n in ast.walk(fn):
            if isinstance(n, ast.Constant) and isinstance(n.value, str) and "{left" in n.value and "(" in n.value:
                n.value = n.value.replace("(", "").replace(")", "")
                return True
        return False

    return mod if replace_in_func(mod, "SympyGenerator.exitExpression", edit) else None


@SPEC.mutant("separator differs at declaration", SYM, "R24.3", "separator")
def _m2(mod):
    def edit(fn):
        for n in ast.walk(fn):
            if isinstance(n, ast.Constant) and n.value == "__":
                n.value = "_"
                return True
        return False

    return mod if replace_in_func(mod, "SympyGenerator.exitSymbol", edit) else None


@SPEC.mutant("parameter branch dropped from dispatch", SYM, "R24.2", "prefix parameter")
def _m3(mod):
    def edit(fn):
        for n in ast.walk(fn):
            if isinstance(n, ast.If) and norm(n.test) == "prefix == 'constant'":
                n.orelse = n.orelse[0].orelse
                return True
        return False

    return mod if replace_in_func(mod, "SympyGenerator.exitClass", edit) else None


@SPEC.mutant("float literals printed with {:g}", SYM, "R24.4", "lossless")
def _m_lit(mod):
    def edit(fn):
        for n in ast.walk(fn):
            if isinstance(n, ast.Call) and is_name(n.func, "str") and n.args and isinstance(n.args[0], ast.Attribute) and n.args[0].attr == "value":
                n.func = ast.Attribute(value=ast.Constant(value="{:g}"), attr="format", ctx=ast.Load())
                return True
        return False

    return mod if replace_in_func(mod, "SympyGenerator.exitPrimary", edit) else None


@SPEC.mutant("reserved names from dir(__builtins__)", SYM, "R24.5", "builtins")
def _m_builtins(mod):
    for st in mod.body:
        if isinstance(st, ast.Assign) and is_name(st.targets[0], "BUILTINS"):
            for n in ast.walk(st.value):
                if isinstance(n, ast.Call) and is_name(n.func, "dir") and n.args and is_name(n.args[0], "builtins"):
                    n.args[0] = ast.Name(id="__builtins__", ctx=ast.Load())
                    return mod
    return None


@SPEC.mutant("output completion folded into the dispatch loop", SYM, "R24.6", "membership test")
def _m_fold(mod):
    def edit(fn):
        for n in ast.walk(fn):
            if isinstance(n, ast.If) and isinstance(n.test, ast.Compare) and is_name(n.test.left, "prefix") and literal(n.test.comparators[0]) == "output":
                n.body.append(ast.parse("if s not in states:\n    variables += [s]").body[0])
                return True
        return False

    return mod if replace_in_func(mod, CLS + ".exitClass", edit) else None


@SPEC.mutant("`0 = expr` rendered as the bare right-hand side", SYM, "R24.8", "(left) - (right)")
def _m_zero_lhs(mod):
    def edit(fn):
        fn.body.insert(0, ast.parse("if isinstance(tree.left, ast.Primary) and tree.left.value == 0:\n    self.src[tree] = '({right:s})'.format(right=self.src[tree.right])\n    return").body[0])
        return True

    return mod if replace_in_func(mod, "SympyGenerator.exitEquation", edit) else None


@SPEC.mutant("equation descriptions emitted as trailing comments", SYM, "R24.10", "no free text")
def _m_comment(mod):
    for c in ast.walk(mod):
        if isinstance(c, ast.Constant) and isinstance(c.value, str) and "{{ render.src[eq] }}," in c.value:
            c.value = c.value.replace("{{ render.src[eq] }},", "{{ render.src[eq] }},  # {{ eq.comment }}")
            return mod
    return None


@SPEC.mutant("two unary signs in a row cancelled", SYM, "R24.13", "carries the node's sign")
def _m_cancel_signs(mod):
    def edit(fn):
        for b in ast.walk(fn):
            if isinstance(b, ast.If) and "== 1" in norm(b.test) and "'-'" in norm(b.test):
                old = b.body
                b.body = ast.parse("if isinstance(tree.operands[0], ast.Expression) and len(tree.operands[0].operands) == 1:\n    src = self.src[tree.operands[0].operands[0]]\nelse:\n    pass").body
                b.body[0].orelse = old
                return True
        return False

    return mod if replace_in_func(mod, "SympyGenerator.exitExpression", edit) else None
