"""Shared rule: no table keyed by the printed form of an expression.

CasADi prints constants with six significant digits and prints different sparsity patterns / different nodes with the same
text; a dict, set or membership test keyed by str(x) / repr(x) / a formatted string of an expression therefore identifies
values that differ.  The rule fires on the *use as a key* (subscript, .get/.setdefault/.pop first argument, `in` test against a
container, dict-comprehension key), not on printing as such.
"""
import ast

from ..pyutil import call_name, norm

KEY_METHODS = ("get", "setdefault", "pop", "add", "discard", "remove", "__contains__", "__getitem__", "__setitem__")


def _printed(e, local_defs, depth=3):
    """`e` is the printed form of something: str(x), repr(x), format(x), '%s' % x, an f-string with a field, x.__str__()"""
    if isinstance(e, ast.Call):
        cn = (call_name(e) or "").split(".")[-1]
        if cn in ("str", "repr", "format", "__str__", "__repr__") and (e.args or isinstance(e.func, ast.Attribute)):
            # str.format on a literal: "…{}…".format(x)
            return True
    if isinstance(e, ast.JoinedStr):
        return any(isinstance(v, ast.FormattedValue) for v in e.values)
    if isinstance(e, ast.BinOp) and isinstance(e.op, ast.Mod) and isinstance(e.left, ast.Constant) and isinstance(e.left.value, str):
        return True
    if isinstance(e, ast.Tuple):
        return any(_printed(x, local_defs, depth) for x in e.elts)
    if isinstance(e, ast.Name) and depth and e.id in local_defs:
        vals = local_defs[e.id]
        return bool(vals) and all(_printed(v, local_defs, depth - 1) for v in vals)
    return False


def _name_like(e):
    """printed forms that are names by construction: str(<...>.name()), str(<component reference>), f"{name}[...]" are identifiers,
    not values — the rule is about expressions, so a key built from .name() / .name / a ComponentRef is left alone"""
    s = norm(e)
    return any(k in s for k in (".name()", ".name", "component_ref", "ComponentRef", "_name", "name"))


def text_keyed_tables(fn):
    """[(lineno, description)] of uses of a printed expression as a key inside function `fn` (nested functions included)"""
    local_defs = {}
    for n in ast.walk(fn):
        if isinstance(n, ast.Assign) and len(n.targets) == 1 and isinstance(n.targets[0], ast.Name):
            local_defs.setdefault(n.targets[0].id, []).append(n.value)
    out = []

    def key(e, how, node):
        if _printed(e, local_defs) and not _name_like(_resolve(e, local_defs)):
            out.append((node.lineno, "%s keyed by %s" % (how, norm(_resolve(e, local_defs))[:60])))

    for n in ast.walk(fn):
        if isinstance(n, ast.Subscript) and not isinstance(n.slice, ast.Slice):
            key(n.slice, "subscript of " + norm(n.value)[:30], n)
        elif isinstance(n, ast.Call) and isinstance(n.func, ast.Attribute) and n.func.attr in KEY_METHODS and n.args:
            key(n.args[0], "." + n.func.attr + "() of " + norm(n.func.value)[:30], n)
        elif isinstance(n, ast.Compare) and len(n.ops) == 1 and isinstance(n.ops[0], (ast.In, ast.NotIn)):
            # membership of a printed value in a container (not substring tests on a string: the right side is then a string)
            r = n.comparators[0]
            if not _printed(r, local_defs) and not (isinstance(r, ast.Constant) and isinstance(r.value, str)):
                key(n.left, "membership in " + norm(r)[:30], n)
        elif isinstance(n, ast.DictComp):
            key(n.key, "dict comprehension", n)
        elif isinstance(n, ast.Dict):
            for k in n.keys:
                if k is not None:
                    key(k, "dict literal", n)
    return out


def _resolve(e, local_defs):
    if isinstance(e, ast.Name) and e.id in local_defs and local_defs[e.id]:
        return local_defs[e.id][0]
    return e


def no_text_keyed_tables(ctx, rep, R, rel, what, min_functions=1):
    mod = ctx.module(rel, R)
    fns = [n for n in ast.walk(mod) if isinstance(n, (ast.FunctionDef, ast.AsyncFunctionDef))]
    top = []
    nested = set()
    for f in fns:
        for g in ast.walk(f):
            if g is not f and isinstance(g, (ast.FunctionDef, ast.AsyncFunctionDef)):
                nested.add(id(g))
    hits = []
    for f in fns:
        if id(f) in nested:
            continue
        top.append(f)
        for ln, d in text_keyed_tables(f):
            hits.append("%s (line %d): %s" % (f.name, ln, d))
    if len(top) < min_functions:
        from ..engine import MechanismMissing
        raise MechanismMissing(R, "only %d function(s) scanned in %s, expected at least %d" % (len(top), rel, min_functions))
    rep.ob(R, rel, "no table keyed by the printed form of an expression in " + what, not hits,
           "%s — the printed form is not an identity: CasADi prints constants with six significant digits and prints distinct nodes "
           "alike, so two different values share one entry and the second is silently replaced by the first" % "; ".join(hits[:6]))
