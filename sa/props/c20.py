"""C20 — the model cache is never used when stale."""
from __future__ import annotations

import ast

from ..cfg import CFG
from ..engine import AnalysisError, MechanismMissing, PropertySpec, norm
from ..pyutil import call_name, calls, const_str, is_name, literal, subscript_key, walk_local
from ._api import API, db_accesses, api_fn

SPEC = PropertySpec(
    "C20",
    "The model cache is never used when stale",
    decided=(
        "check-before-use for each invalidation dimension: on every path of load_model to the first use of a payload "
        "entry there is (unless mtime_check is off) a source-newer-than-cache comparison in the right direction, the "
        "version comparison and the options comparison (excluding at most library_folders), each raising "
        "InvalidCacheError; the staleness scan and the compile scan enumerate the same files; transfer_model catches "
        "the signal and recompiles and saves with the same options object; options are normalised before both."
    ),
    not_decided="file-system timestamp granularity; equality of the recompiled model (that is C19).",
)

META_KEYS = {"version", "options", "library_os"}


def _raises_invalid(block) -> bool:
    for s in block:
        for x in ast.walk(s):
            if isinstance(x, ast.Raise) and x.exc is not None and "InvalidCacheError" in norm(x.exc):
                return True
    return False


@SPEC.rule(
    "R20.1",
    "invalidation before use: in load_model every path from entry to a payload read (db[...] other than "
    "version/options/library_os) passes the version test and the options test, both raising InvalidCacheError; the "
    "mtime scan precedes unpickling, compares getmtime(<source>) > getmtime(<cache file>) and raises; the options "
    "comparison excludes at most library_folders",
)
def r20_1(ctx, rep):
    cache_validity(ctx, rep, "R20.1")


def cache_validity(ctx, rep, R):
    fn = api_fn(ctx, "load_model", R)
    site = API + ":load_model"
    cfg = CFG(fn, R)
    acc, unk = db_accesses(fn)
    payload_nodes = set()
    for k, m, n in acc:
        if m == "r" and k not in META_KEYS:
            st = n
            while st is not None and not isinstance(st, ast.stmt):
                st = getattr(st, "_parent", None)
            for cn in cfg.nodes:
                if cn.ast is not None and any(x is n for x in ast.walk(cn.ast)) and cn.kind in ("stmt", "test", "iter"):
                    payload_nodes.add(cn.id)
    if len(payload_nodes) < 5:
        raise MechanismMissing(R, "fewer than 5 payload reads found in load_model")

    def guard_tests(pred):
        out = set()
        for x in cfg.nodes:
            if x.kind == "test" and pred(x.ast):
                # its true branch must raise InvalidCacheError
                for st in ast.walk(fn):
                    if isinstance(st, ast.If) and st.test is x.ast and _raises_invalid(st.body):
                        out.add(x.id)
        return out

    version = guard_tests(lambda t: isinstance(t, ast.Compare) and isinstance(t.ops[0], ast.NotEq) and "db['version']" in norm(t).replace('"', "'") and "__version__" in norm(t))
    # options: old_opts != new_opts
    def is_opts(t):
        return isinstance(t, ast.Compare) and isinstance(t.ops[0], ast.NotEq) and isinstance(t.left, ast.Name) and isinstance(t.comparators[0], ast.Name)
    options = guard_tests(is_opts)
    for name, tests in (("version", version), ("options", options)):
        bad = None
        for p in sorted(payload_nodes):
            w = cfg.must_pass(cfg.entry, p, tests)
            if w is not None:
                bad = w
                break
        rep.ob(R, site, "%s checked before payload" % name, bool(tests) and bad is None,
               "a cache written for another %s must be rejected (InvalidCacheError) before any of its content is used" % name,
               path=cfg.describe(bad) if bad else "")
    # the two sides of the options comparison
    sides = {}
    excl = None
    for s in walk_local(fn):
        if isinstance(s, ast.Assign) and isinstance(s.value, ast.DictComp) and isinstance(s.targets[0], ast.Name):
            g = s.value.generators[0]
            # the pairs are compared as they are: `{k: v for k, v in <options>.items() if <filter on k>}`
            plain = isinstance(g.target, ast.Tuple) and len(g.target.elts) == 2 and all(isinstance(e, ast.Name) for e in g.target.elts) \
                and is_name(s.value.key, g.target.elts[0].id) and is_name(s.value.value, g.target.elts[1].id) \
                and not any(isinstance(x, ast.Name) and x.id == g.target.elts[1].id for f in g.ifs for x in ast.walk(f))
            sides[s.targets[0].id] = (norm(g.iter), norm(g.ifs[0]) if g.ifs else "", plain)
    # the filter of both comprehensions is `<key> not in <literal list>`: that list names the options that are NOT compared
    excl_names = set()
    for s in walk_local(fn):
        if isinstance(s, ast.Assign) and isinstance(s.value, ast.DictComp) and s.value.generators[0].ifs:
            t = s.value.generators[0].ifs[0]
            if isinstance(t, ast.Compare) and isinstance(t.ops[0], ast.NotIn) and isinstance(t.comparators[0], ast.Name):
                excl_names.add(t.comparators[0].id)
            elif isinstance(t, ast.Compare) and isinstance(t.ops[0], ast.NotIn):
                excl = literal(t.comparators[0])
    for s in walk_local(fn):
        if isinstance(s, ast.Assign) and isinstance(s.targets[0], ast.Name) and s.targets[0].id in excl_names:
            excl = literal(s.value)
    cmp_ok = vals_ok = False
    for x in cfg.nodes:
        if x.id in options:
            a, b = x.ast.left.id, x.ast.comparators[0].id
            if a in sides and b in sides:
                srcs = {sides[a][0], sides[b][0]}
                cmp_ok = srcs == {"db['options'].items()", "compiler_options.items()"} and sides[a][1] == sides[b][1]
                vals_ok = sides[a][2] and sides[b][2]
    rep.ob(R, site, "options comparison sides", cmp_ok, "the stored options (db['options']) must be compared with the current merged options under the same filter")
    rep.ob(R, site, "option values compared unchanged", cmp_ok and vals_ok,
           "each side of the comparison must be the (name, value) pairs themselves; a side that maps values through a function, keeps only the "
           "names, or filters on the value makes two different settings of a non-boolean option (eliminable_variable_expression) look equal "
           "and a cache compiled for the other setting is served")
    rep.ob(R, site, "excluded option keys", excl is not None and set(excl) <= {"library_folders"},
           "only library_folders may be ignored when comparing options; found %s" % (excl,))
    # mtime
    loads = [x for x in cfg.nodes if x.kind in ("stmt", "with") and any(call_name(c) == "pickle.load" for c in (calls(x.ast) if x.kind == "stmt" else []))]
    cache_vars = {s.targets[0].id for s in walk_local(fn) if isinstance(s, ast.Assign) and isinstance(s.targets[0], ast.Name)
                  and "getmtime(db_file)" in norm(s.value)}
    mt = [x for x in cfg.nodes if x.kind == "test" and isinstance(x.ast, ast.Compare) and "getmtime" in norm(_resolved(x.ast, fn, cache_vars))]
    gate = [x for x in cfg.nodes if x.kind == "test" and subscript_key(x.ast) == "mtime_check"]
    ok_dir = False
    for x in mt:
        t = x.ast
        rt = _resolved(t, fn, cache_vars)
        l, r, o = norm(rt.left), norm(rt.comparators[0]), t.ops[0]
        if isinstance(o, (ast.Gt, ast.GtE)) and "getmtime(" in l and r in cache_vars:
            ok_dir = True
        if isinstance(o, (ast.Lt, ast.LtE)) and "getmtime(" in r and l in cache_vars:
            ok_dir = True
        for st in ast.walk(fn):
            if isinstance(st, ast.If) and st.test is t and not _raises_invalid(st.body):
                ok_dir = False
    rep.ob(R, site, "mtime direction", ok_dir, "a source file NEWER than the cache must invalidate it: getmtime(source) > getmtime(cache) -> raise InvalidCacheError")
    ok = bool(gate) and bool(loads) and all(gate[0].id in cfg.dominators()[l.id] for l in loads)
    rep.ob(R, site, "mtime scan before unpickling", ok and bool(mt), "the staleness scan (under mtime_check) must come before the cache is read")


def _resolved(e, fn, keep=()):
    """e with explanatory one-shot locals (`mtime = os.path.getmtime(path)`) replaced by their values"""
    from ..pyutil import inlined
    return inlined(e, fn.body, keep=set(keep))


@SPEC.rule("R20.2", "same file set: the staleness scan of load_model and the compile scan of _compile_model use the same folder list, os.walk arguments and file pattern")
def r20_2(ctx, rep):
    R = "R20.2"

    def scan(fn):
        # compared by role, not by the names of the loop variables: the folder list with locals resolved, the walk call with the folder loop's
        # variable as `@folder`, the filter call with the walk's file list as `@files`
        from ..pyutil import ast_copy
        folder = walk = pat = None

        def renamed(e, mapping):
            e = ast_copy(e)
            for x in ast.walk(e):
                if isinstance(x, ast.Name) and x.id in mapping:
                    x.id = mapping[x.id]
            return norm(e)

        files_var = None
        for lp in ast.walk(fn):
            if isinstance(lp, ast.For):
                it = norm(lp.iter)
                if it.startswith("os.walk("):
                    outer = getattr(lp, "_parent", None)
                    while outer is not None and not isinstance(outer, ast.For):
                        outer = getattr(outer, "_parent", None)
                    fvar = outer.target.id if outer is not None and isinstance(outer.target, ast.Name) else None
                    walk = renamed(lp.iter, {fvar: "@folder"} if fvar else {})
                    if outer is not None:
                        folder = norm(_resolved(outer.iter, fn)).replace("compiler_options", "OPT")
                    if isinstance(lp.target, ast.Tuple) and len(lp.target.elts) == 3 and isinstance(lp.target.elts[2], ast.Name):
                        files_var = lp.target.elts[2].id
        for lp in ast.walk(fn):
            if isinstance(lp, ast.For) and norm(lp.iter).startswith("fnmatch.filter("):
                pat = renamed(lp.iter, {files_var: "@files"} if files_var else {})
        return folder, walk, pat

    a = scan(api_fn(ctx, "load_model", R))
    b = scan(api_fn(ctx, "_compile_model", R))
    if None in a or None in b:
        raise MechanismMissing(R, "file scans not found (load_model %s, _compile_model %s)" % (a, b))
    for i, what in enumerate(("folder list", "os.walk arguments", "file pattern")):
        rep.ob(R, API + ":load_model/_compile_model", what, a[i] == b[i],
               "the staleness check looks at `%s` but the compiler reads `%s`: a file the compiler uses can change without invalidating the cache" % (a[i], b[i]))


@SPEC.rule(
    "R20.3",
    "recompile reachable: transfer_model wraps load_model in a try whose handler catches InvalidCacheError and "
    "FileNotFoundError and compiles and saves with the same options object it tried to load with",
)
def r20_3(ctx, rep):
    R = "R20.3"
    fn = api_fn(ctx, "transfer_model", R)
    site = API + ":transfer_model"
    found = False
    for t in ast.walk(fn):
        if isinstance(t, ast.Try) and any(call_name(c) == "load_model" for s in t.body for c in calls(s)):
            found = True
            lc = [c for s in t.body for c in calls(s) if call_name(c) == "load_model"][0]
            names = set()
            for h in t.handlers:
                if h.type is not None:
                    for e in (h.type.elts if isinstance(h.type, ast.Tuple) else [h.type]):
                        names.add(norm(e))
            rep.ob(R, site, "handler catches the invalidation signal", {"InvalidCacheError", "FileNotFoundError"} <= names or "Exception" in names,
                   "InvalidCacheError (stale) and FileNotFoundError (no cache yet) must lead to recompilation; handler catches %s" % sorted(names))
            ok = False
            for h in t.handlers:
                cc = [c for s in h.body for c in calls(s) if call_name(c) == "_compile_model"]
                sc = [c for s in h.body for c in calls(s) if call_name(c) == "save_model"]
                if cc and sc:
                    ok = [norm(a) for a in cc[0].args] == [norm(a) for a in lc.args] and norm(sc[0].args[-1]) == norm(lc.args[-1]) \
                        and [norm(a) for a in sc[0].args[:2]] == [norm(a) for a in lc.args[:2]]
            rep.ob(R, site, "recompile and save with the same options", ok,
                   "the handler must call _compile_model and save_model with the folder, name and options object used for load_model")
    if not found:
        raise MechanismMissing(R, "try around load_model not found in transfer_model")


@SPEC.rule("R20.4", "option normalisation (forcing expand_mx for the pickle cache, disabling cache under codegen) dominates the load attempt; save_model stores the current version and the merged options")
def r20_4(ctx, rep):
    R = "R20.4"
    fn = api_fn(ctx, "transfer_model", R)
    cfg = CFG(fn, R)
    loads = [x for x in cfg.stmts() if any(call_name(c) == "load_model" for c in calls(x.ast))]
    forcing = [x for x in cfg.stmts() if isinstance(x.ast, ast.Assign) and any(subscript_key(t) == "expand_mx" for t in x.ast.targets)]
    ok = bool(loads) and bool(forcing)
    for f in forcing:
        for l in loads:
            if f.id in cfg.reachable(l.id) and l.id not in cfg.reachable(f.id):
                ok = False
    rep.ob(R, API + ":transfer_model", "expand_mx forced before load", ok,
           "options must be normalised before load_model compares them with the stored ones (else every load of a pickle cache misses or a stale one matches)")
    sv = api_fn(ctx, "save_model", R)
    t = [norm(s) for s in ast.walk(sv) if isinstance(s, ast.Assign)]
    # ... as item stores, or as entries of the display the mapping is written as
    stored = {}
    for s_ in ast.walk(sv):
        if isinstance(s_, ast.Assign) and isinstance(s_.targets[0], ast.Subscript) and is_name(s_.targets[0].value, "db") and isinstance(s_.targets[0].slice, ast.Constant):
            stored[s_.targets[0].slice.value] = norm(s_.value)
        if isinstance(s_, ast.Assign) and is_name(s_.targets[0], "db") and isinstance(s_.value, ast.Dict):
            for kk, vv in zip(s_.value.keys, s_.value.values):
                if isinstance(kk, ast.Constant):
                    stored[kk.value] = norm(vv)
    rep.ob(R, API + ":save_model", "version and options stored", stored.get("version") == "__version__" and stored.get("options") == "compiler_options"
           and any(x.startswith("compiler_options = _merge_default_options(compiler_options)") for x in t),
           "the cache must record pymoca's version and the merged options it was compiled with")
    ld = api_fn(ctx, "load_model", R)
    t = [norm(s) for s in ast.walk(ld) if isinstance(s, ast.Assign)]
    rep.ob(R, API + ":load_model", "options merged before comparison", any(x.startswith("compiler_options = _merge_default_options(compiler_options)") for x in t),
           "load_model must merge defaults into the given options the same way save_model does")


def compile_walk_total(ctx, rep, R):
    """every *.mo file the walk of _compile_model finds is read, parsed and merged — on every iteration of the innermost loop"""
    from ..cfg import iteration_skips
    fn = api_fn(ctx, "_compile_model", R)
    site = API + ":_compile_model"
    loops = [lp for lp in walk_local(fn) if isinstance(lp, ast.For) and not any(isinstance(x, ast.For) for st in lp.body for x in ast.walk(st))
             and any(isinstance(c.func, ast.Attribute) and c.func.attr == "parse" for st in lp.body for c in calls(st))]
    if len(loops) != 1:
        raise MechanismMissing(R, "the innermost loop of _compile_model that parses the files was not found")
    lp = loops[0]
    cfg = CFG(fn, R)
    rep.ob(R, site, "the loop runs over all *.mo files of the directory", "'*.mo'" in norm(lp.iter) or '"*.mo"' in norm(lp.iter) or ".mo" in norm(lp.iter),
           "the innermost loop iterates `%s`" % norm(lp.iter)[:80])
    w = iteration_skips(cfg, lp, lambda x: x.kind in ("stmt", "with") and not isinstance(x.ast, (ast.With, ast.If)) and any(isinstance(c.func, ast.Attribute) and c.func.attr == "parse" for c in calls(x.ast)))
    rep.ob(R, site, "each Modelica file found is parsed", w is None,
           "an iteration over the files found can end without parsing the file: two directories (the model folder and a library, two packages) "
           "may hold files of the same name, and each of them defines classes of its own", path=cfg.describe(w) if w else "")
    w = iteration_skips(cfg, lp, lambda x: x.kind == "stmt" and ((isinstance(x.ast, ast.Assign) and any(isinstance(c.func, ast.Attribute) and c.func.attr == "parse" for c in calls(x.ast)))
                                                                  or any(isinstance(c.func, ast.Attribute) and c.func.attr == "extend" for c in calls(x.ast))))
    rep.ob(R, site, "each parsed file becomes part of the tree", w is None,
           "an iteration can end with the parsed file neither becoming the tree nor being merged into it", path=cfg.describe(w) if w else "")
    # the levels above: every folder is walked, every directory the walk visits has its files looked at, and the walk is not pruned
    from ..cfg import enclosing_loops
    for outer, nxt in zip(enclosing_loops(fn, lp), enclosing_loops(fn, lp)[1:] + [lp]):
        w = iteration_skips(cfg, outer, lambda x, nxt=nxt: x.kind == "iter" and x.ast is nxt)
        rep.ob(R, site, "every element of `for %s in ...` gets to the files below it" % norm(outer.target)[:30], w is None,
               "an iteration of the loop over `%s` can end before the loop over the files of that directory is reached: the Modelica files there "
               "take no part in the compile (a sub-package kept in a plain directory, a library folder skipped)" % norm(outer.iter)[:60],
               path=cfg.describe(w) if w else "")
    walks = [o for o in enclosing_loops(fn, lp) if isinstance(o.iter, ast.Call) and (call_name(o.iter) or "").endswith("walk")]
    for o in walks:
        files_var = o.target.elts[2].id if isinstance(o.target, ast.Tuple) and len(o.target.elts) == 3 and isinstance(o.target.elts[2], ast.Name) else None
        reads_files = files_var is not None and any(isinstance(x, ast.Name) and x.id == files_var for x in ast.walk(lp.iter))
        rep.ob(R, site, "the files parsed are the files the walk found", reads_files,
               "the innermost loop iterates `%s`, not the walk's own file list `%s`: a second search by a pattern built from the directory's "
               "name (glob) reads `[`, `*`, `?` in that name as wildcards and finds nothing there" % (norm(lp.iter)[:60], files_var))
    for o in walks:
        dirvar = o.target.elts[1].id if isinstance(o.target, ast.Tuple) and len(o.target.elts) == 3 and isinstance(o.target.elts[1], ast.Name) else None
        uses = [x for st in o.body for x in ast.walk(st) if isinstance(x, ast.Name) and x.id == dirvar] if dirvar else []
        rep.ob(R, site, "the directory walk is not pruned", dirvar is not None and not uses,
               "the list of sub-directories os.walk hands out (`%s`) is used in the loop body (line %s): editing it prunes the walk, and the files "
               "below the pruned directories are never parsed" % (dirvar, uses[0].lineno if uses else "?"))


@SPEC.rule(
    "R20.8",
    "the staleness scan looks at every source file: in load_model every folder is walked, every directory of the walk has its *.mo files "
    "looked at, and every such file gets to the modification-time comparison (no skip by base name, `seen before`, directory kind ...); "
    "the walk is not pruned",
)
def r20_8(ctx, rep):
    from ..cfg import enclosing_loops, loop_nest_skips
    R = "R20.8"
    fn = api_fn(ctx, "load_model", R)
    site = API + ":load_model"
    cfg = CFG(fn, R)

    cache_vars = {s_.targets[0].id for s_ in walk_local(fn) if isinstance(s_, ast.Assign) and isinstance(s_.targets[0], ast.Name)
                  and "getmtime(db_file)" in norm(s_.value)}

    def is_mtime_test(e):
        return isinstance(e, ast.Compare) and "getmtime" in norm(_resolved(e, fn, cache_vars))

    def has_mtime_test(lp):
        return any(is_mtime_test(x) for st in lp.body for x in ast.walk(st))

    inner = [lp for lp in walk_local(fn) if isinstance(lp, ast.For) and has_mtime_test(lp)
             and not any(isinstance(x, ast.For) and has_mtime_test(x) for st in lp.body for x in ast.walk(st))]
    if len(inner) != 1:
        raise MechanismMissing(R, "the loop of load_model that compares modification times was not found")
    lp = inner[0]
    res = loop_nest_skips(cfg, fn, lp, lambda x: x.kind == "test" and is_mtime_test(x.ast))
    rep.ob(R, site, "every source file reaches the modification-time comparison", res is None,
           "an iteration of `for %s in %s` can end without the file's (or the files below it's) modification time being compared with the cache's: "
           "an edit of such a file goes unnoticed and the stale cache is served" % ((norm(res[0].target)[:30], norm(res[0].iter)[:50]) if res else ("", "")),
           path=cfg.describe(res[1]) if res else "")
    for o in enclosing_loops(fn, lp):
        if isinstance(o.iter, ast.Call) and (call_name(o.iter) or "").endswith("walk"):
            dirvar = o.target.elts[1].id if isinstance(o.target, ast.Tuple) and len(o.target.elts) == 3 and isinstance(o.target.elts[1], ast.Name) else None
            uses = [x for st in o.body for x in ast.walk(st) if isinstance(x, ast.Name) and x.id == dirvar] if dirvar else []
            rep.ob(R, site, "the directory walk is not pruned", dirvar is not None and not uses,
                   "the list of sub-directories os.walk hands out (`%s`) is used in the loop body: editing it prunes the walk" % dirvar)


@SPEC.rule(
    "R20.5",
    "a fresh compile compiles everything: _codegen_model builds the library from the function it is given on every call (no "
    "`library on disk is newer` shortcut), so what is stored after an edit is the edited model",
)
def r20_5(ctx, rep):
    from .c19 import codegen_always_builds
    codegen_always_builds(ctx, rep, "R20.5")


@SPEC.rule(
    "R20.6",
    "a fresh compile reads the current sources, all of them: every *.mo file found by the walk over the model folder and the library "
    "folders is parsed and merged (no skip by base name or by `seen before`), so an added file takes part whatever it is called",
)
def r20_6(ctx, rep):
    compile_walk_total(ctx, rep, "R20.6")


@SPEC.rule(
    "R20.7",
    "the cache file is the only memory: no function of casadi/api.py writes a module-level container, is wrapped in a caching "
    "decorator or keeps a mutable default — an in-process memo of loaded models (by folder and name) would answer the second "
    "transfer_model of a process without looking at modification times, options or version",
)
def r20_7(ctx, rep):
    from ..props.c25 import module_state_free
    module_state_free(ctx, rep, "R20.7", API, "the CasADi API (transfer_model, load_model, save_model and their helpers)")


# -- seeded variants ---------------------------------------------------------
from ._mut import delete_stmt_where, replace_in_func  # noqa: E402


def _del_if(testpart):
    def m(mod):
        def edit(fn):
            for node in ast.walk(fn):
                for fld in ("body", "orelse"):
                    b = getattr(node, fld, None)
                    if isinstance(b, list):
                        for i, st in enumerate(b):
                            if isinstance(st, ast.If) and testpart in norm(st.test):
                                b[i] = ast.Pass()
                                return True
            return False

        return mod if replace_in_func(mod, "load_model", edit) else None

    return m


SPEC.mutant("version comparison deleted", API, "R20.1", "version")(_del_if("db['version']"))
SPEC.mutant("options comparison deleted", API, "R20.1", "options")(_del_if("old_opts != new_opts"))


@SPEC.mutant("mtime comparison reversed", API, "R20.1", "mtime direction")
def _m3(mod):
    def edit(fn):
        for n in ast.walk(fn):
            if isinstance(n, ast.Compare) and "getmtime(filename)" in norm(n):
                n.ops = [ast.Lt()]
                return True
        return False

    return mod if replace_in_func(mod, "load_model", edit) else None


@SPEC.mutant("staleness scan uses another pattern", API, "R20.2", "file pattern")
def _m4(mod):
    def edit(fn):
        for n in ast.walk(fn):
            if isinstance(n, ast.Constant) and n.value == "*.mo":
                n.value = "*.mop"
                return True
        return False

    return mod if replace_in_func(mod, "load_model", edit) else None


@SPEC.mutant("InvalidCacheError not caught", API, "R20.3", "handler")
def _m5(mod):
    def edit(fn):
        for n in ast.walk(fn):
            if isinstance(n, ast.ExceptHandler) and n.type is not None and "InvalidCacheError" in norm(n.type):
                n.type = ast.Name(id="FileNotFoundError", ctx=ast.Load())
                return True
        return False

    return mod if replace_in_func(mod, "transfer_model", edit) else None


@SPEC.mutant("verbose excluded from the options comparison", API, "R20.1", "excluded")
def _m6(mod):
    def edit(fn):
        for n in ast.walk(fn):
            if isinstance(n, ast.Assign) and is_name(n.targets[0], "exclude_options"):
                n.value.elts.append(ast.Constant(value="detect_aliases"))
                return True
        return False

    return mod if replace_in_func(mod, "load_model", edit) else None


@SPEC.mutant("staleness scan ignores library folders", API, "R20.2", "folder list")
def _m7(mod):
    def edit(fn):
        for n in ast.walk(fn):
            if isinstance(n, ast.For) and "library_folders" in norm(n.iter):
                n.iter = ast.parse("[model_folder]", mode="eval").body
                return True
        return False

    return mod if replace_in_func(mod, "load_model", edit) else None


@SPEC.mutant("files whose base name was seen before are not parsed", API, "R20.6", "is parsed")
def _m_seen_items(mod):
    def edit(fn):
        for n in ast.walk(fn):
            if isinstance(n, ast.For) and "fnmatch.filter" in norm(n.iter):
                n.body.insert(0, ast.parse("if item in _seen:\n    continue").body[0])
                n.body.insert(1, ast.parse("_seen.add(item)").body[0])
                fn.body.insert(1, ast.parse("_seen = set()").body[0])
                return True
        return False

    return mod if replace_in_func(mod, "_compile_model", edit) else None


@SPEC.mutant("loaded models memoised per process", API, "R20.7", "no state kept")
def _m_process_memo(mod):
    for i, st in enumerate(mod.body):
        if isinstance(st, ast.FunctionDef) and st.name == "transfer_model":
            mod.body.insert(i, ast.parse("_models = {}").body[0])
            st.body.insert(1 if isinstance(st.body[0], ast.Expr) else 0, ast.parse(
                "if (model_folder, model_name) in _models:\n    return _models[(model_folder, model_name)]").body[0])
            st.body.insert(2, ast.parse("_models.setdefault((model_folder, model_name), None)").body[0])
            return mod
    return None


@SPEC.mutant("staleness scan skips base names seen before", API, "R20.8", "reaches the modification-time comparison")
def _m_mtime_dedupe(mod):
    def edit(fn):
        for lp in ast.walk(fn):
            if isinstance(lp, ast.For) and "fnmatch.filter" in norm(lp.iter) and any("getmtime" in norm(x) for x in lp.body):
                lp.body.insert(0, ast.parse("if item in _seen:\n    continue\n").body[0])
                lp.body.insert(1, ast.parse("_seen.add(item)").body[0])
                fn.body.insert(0, ast.parse("_seen = set()").body[0])
                return True
        return False

    return mod if replace_in_func(mod, "load_model", edit) else None


@SPEC.mutant("compile walk prunes directories without package.mo", API, "R20.6", "not pruned")
def _m_walk_pruned(mod):
    def edit(fn):
        for lp in ast.walk(fn):
            if isinstance(lp, ast.For) and isinstance(lp.iter, ast.Call) and norm(lp.iter.func) == "os.walk" and isinstance(lp.target, ast.Tuple):
                lp.target.elts[1] = ast.Name(id="_dirs", ctx=ast.Store())
                lp.body.insert(0, ast.parse("if 'package.mo' not in files:\n    _dirs[:] = []\n").body[0])
                return True
        return False

    return mod if replace_in_func(mod, "_compile_model", edit) else None
