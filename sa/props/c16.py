"""C16 — alias elimination merges variable metadata soundly (coverage and cross-over clauses only)."""
from __future__ import annotations

import ast

from ..cfg import CFG
from ..engine import AnalysisError, MechanismMissing, PropertySpec, norm
from ..pyutil import call_name, calls, is_name, walk_local
from ._simplify import MODEL, option_blocks, simplify_fn

SPEC = PropertySpec(
    "C16",
    "Alias elimination merges variable metadata soundly",
    decided=(
        "three structural clauses every correct merge needs, whatever formula it uses: (1) coverage — for each of min, max, "
        "nominal, fixed and start an accumulator is initialised from the canonical variable before the loop over its "
        "aliases, updated from the alias's variable inside it, and written back to the canonical variable after it; (2) "
        "cross-over — the min accumulator reads the alias's min un-negated and the alias's max negated, the max accumulator "
        "the other way round, and an alias's start is multiplied by the sign; (3) the sign itself is derived from the leading "
        "'-' of the alias name before the alias's variable is looked up, and an alias that was handled in an earlier pass is "
        "skipped before anything is merged."
    ),
    not_decided=(
        "that the combining operators are max/min/largest/any in the right places beyond what the clauses pin down, and the "
        "start-conflict logic (value-level: needs CasADi semantics of fmax/fmin on symbolic bounds)."
    ),
)

ATTRS = ("min", "max", "nominal", "fixed", "start")
SITE = MODEL + ":Model._simplify_once"


def _merge_loops(ctx, R):
    """(outer loop over (canonical, aliases), inner loop over alias, name of the canonical's Variable, name of the alias's Variable)"""
    # explanatory temporaries for an attribute read (`alias_start = alias_state.start`) are resolved first: the rules ask where an alias's
    # attribute is read, not under which name
    key = "c16:simplify_once_resolved"
    if key not in ctx.cache:
        from ..pyutil import inline_simple_locals
        ctx.cache[key] = inline_simple_locals(simplify_fn(ctx, R))
    fn = ctx.cache[key]
    blk = option_blocks(fn).get("detect_aliases")
    if blk is None:
        raise MechanismMissing(R, "detect_aliases block not found")
    for outer in ast.walk(blk):
        if isinstance(outer, ast.For) and norm(outer.iter) == "self.alias_relation" and isinstance(outer.target, ast.Tuple):
            inner = [lp for lp in ast.walk(outer) if isinstance(lp, ast.For) and is_name(lp.iter, "aliases") and is_name(lp.target, "alias")]
            if not inner:
                continue
            cst = ast_ = None
            for st in ast.walk(outer):
                if isinstance(st, ast.Assign) and isinstance(st.targets[0], ast.Name) and isinstance(st.value, ast.Subscript) and is_name(st.value.value, "all_states"):
                    if is_name(st.value.slice, "canonical"):
                        cst = st.targets[0].id
                    elif is_name(st.value.slice, "alias"):
                        ast_ = st.targets[0].id
            if cst and ast_:
                return outer, inner[0], cst, ast_
    raise MechanismMissing(R, "merge loops (for canonical, aliases in relation / for alias in aliases) with their state lookups not found")


def _accumulators(outer, inner, cst):
    """attribute -> accumulator local: bound from <canonical state>.<attr> before the inner loop (tuple assignments included)"""
    acc = {}
    for st in outer.body:
        if st is inner:
            break
        if isinstance(st, ast.Assign):
            tg, val = st.targets[0], st.value
            pairs = list(zip(tg.elts, val.elts)) if isinstance(tg, ast.Tuple) and isinstance(val, ast.Tuple) and len(tg.elts) == len(val.elts) else [(tg, val)]
            for t, v in pairs:
                if isinstance(t, ast.Name) and isinstance(v, ast.Attribute) and is_name(v.value, cst) and v.attr in ATTRS:
                    acc[v.attr] = t.id
    return acc


@SPEC.rule(
    "R16.1",
    "coverage: each of min, max, nominal, fixed, start has an accumulator that is read from the canonical variable before the "
    "alias loop, updated inside the loop by a statement that reads the same attribute family of the alias's variable, and "
    "stored back to the canonical variable after the loop",
)
def r16_1(ctx, rep):
    R = "R16.1"
    outer, inner, cst, ast_ = _merge_loops(ctx, R)
    acc = _accumulators(outer, inner, cst)
    after = outer.body[outer.body.index(inner) + 1:]
    for a in ATTRS:
        v = acc.get(a)
        rep.ob(R, SITE, "accumulator for %s initialised from the canonical variable" % a, v is not None,
               "no local is bound from %s.%s before the alias loop: the canonical variable's own %s would not take part in the merge" % (cst, a, a))
        if v is None:
            continue
        family = {"min": ("min", "max"), "max": ("min", "max")}.get(a, (a,))
        upd = [st for st in ast.walk(inner) if isinstance(st, (ast.Assign, ast.AugAssign))
               and any(is_name(t, v) for t in (st.targets if isinstance(st, ast.Assign) else [st.target]))
               and any(isinstance(x, ast.Attribute) and is_name(x.value, ast_) and x.attr in family for x in ast.walk(st.value))]
        rep.ob(R, SITE, "%s updated from each alias" % a, bool(upd),
               "inside the alias loop `%s` is never recomputed from %s.%s: an alias's %s is ignored" % (v, ast_, "/".join(family), a))
        back = [st for st in after if isinstance(st, ast.Assign) and norm(st.targets[0]) == "%s.%s" % (cst, a) and is_name(st.value, v)]
        rep.ob(R, SITE, "%s written back to the canonical variable" % a, bool(back),
               "after the alias loop `%s.%s = %s` is missing: the merged %s is computed and dropped" % (cst, a, v, a))


def _negated_reads(expr, var, attr):
    """(plain, negated) occurrences of <var>.<attr> in expr — negated = operand of unary minus or factor of a product with `sign`/-1"""
    plain = neg = 0

    def walk(e, negd):
        nonlocal plain, neg
        if isinstance(e, ast.UnaryOp) and isinstance(e.op, ast.USub):
            walk(e.operand, not negd)
            return
        if isinstance(e, ast.BinOp) and isinstance(e.op, ast.Mult) and any(is_name(s, "sign") or (isinstance(s, ast.Constant) and s.value == -1) or
                                                                          (isinstance(s, ast.UnaryOp) and isinstance(s.op, ast.USub) and isinstance(s.operand, ast.Constant) and s.operand.value == 1)
                                                                          for s in (e.left, e.right)):
            for s in (e.left, e.right):
                walk(s, not negd)
            return
        if isinstance(e, ast.Attribute) and is_name(e.value, var) and e.attr == attr:
            if negd:
                neg += 1
            else:
                plain += 1
            return
        for c in ast.iter_child_nodes(e):
            walk(c, negd)

    walk(expr, False)
    return plain, neg


@SPEC.rule(
    "R16.2",
    "cross-over for negative aliases: the statement(s) updating the min accumulator read the alias's min un-negated and its "
    "max negated; those updating the max accumulator read its max un-negated and its min negated; an alias's start enters the "
    "start accumulator multiplied by the sign; nominal and fixed enter un-signed",
)
def r16_2(ctx, rep):
    R = "R16.2"
    outer, inner, cst, ast_ = _merge_loops(ctx, R)
    acc = _accumulators(outer, inner, cst)
    for a, other in (("min", "max"), ("max", "min")):
        v = acc.get(a)
        if v is None:
            continue
        ups = [st.value for st in ast.walk(inner) if isinstance(st, (ast.Assign, ast.AugAssign))
               and any(is_name(t, v) for t in (st.targets if isinstance(st, ast.Assign) else [st.target]))]
        own_plain = sum(_negated_reads(u, ast_, a)[0] for u in ups)
        own_neg = sum(_negated_reads(u, ast_, a)[1] for u in ups)
        oth_plain = sum(_negated_reads(u, ast_, other)[0] for u in ups)
        oth_neg = sum(_negated_reads(u, ast_, other)[1] for u in ups)
        rep.ob(R, SITE, "%s accumulator: own bound plain, opposite bound negated" % a,
               own_plain >= 1 and own_neg == 0 and oth_neg >= 1 and oth_plain == 0,
               "for x = -y the %s of x is -(%s of y): the update of `%s` must read %s.%s as it is and %s.%s negated "
               "(found %s plain %d / negated %d, %s plain %d / negated %d)" % (a, other, v, ast_, a, ast_, other, a, own_plain, own_neg, other, oth_plain, oth_neg))
    # magnitudes and flags carry no sign: a nominal is a scale (largest wins), fixed is a flag
    for a in ("nominal", "fixed"):
        v = acc.get(a)
        if v is None:
            continue
        ups = [st.value for st in ast.walk(inner) if isinstance(st, (ast.Assign, ast.AugAssign))
               and any(is_name(t, v) for t in (st.targets if isinstance(st, ast.Assign) else [st.target]))]
        plain = sum(_negated_reads(u, ast_, a)[0] for u in ups)
        neg = sum(_negated_reads(u, ast_, a)[1] for u in ups)
        rep.ob(R, SITE, "%s of an alias enters unsigned" % a, plain >= 1 and neg == 0,
               "the %s of a negative alias must be used as it is (it is a %s, not a signed quantity): multiplied by the sign it can never win "
               "the merge (found %d plain / %d sign-adjusted reads)" % (a, "scale" if a == "nominal" else "flag", plain, neg))
    v = acc.get("start")
    if v is not None:
        ups = [st.value for st in ast.walk(inner) if isinstance(st, ast.Assign) and any(is_name(t, v) for t in st.targets)]
        plain = sum(_negated_reads(u, ast_, "start")[0] for u in ups)
        neg = sum(_negated_reads(u, ast_, "start")[1] for u in ups)
        rep.ob(R, SITE, "start taken from an alias is sign-adjusted", neg >= 1 and plain == 0,
               "the start value of a negative alias must be negated when it becomes the canonical variable's start (found %d un-adjusted, %d adjusted reads)" % (plain, neg))


@SPEC.rule(
    "R16.3",
    "order inside the alias loop: the sign is split off the alias name (and the name stripped) before the alias's variable is "
    "looked up, the already-handled test comes before any accumulator update, and the alias's variable is deleted from the name "
    "universe on every path that merged it",
)
def r16_3(ctx, rep):
    R = "R16.3"
    outer, inner, cst, ast_ = _merge_loops(ctx, R)
    cfg = CFG(ast.Module(body=[inner], type_ignores=[]), R)
    it = [x for x in cfg.nodes if x.kind == "iter" and x.ast is inner][0]
    look = [x for x in cfg.stmts() if isinstance(x.ast, ast.Assign) and is_name(x.ast.targets[0], ast_)]
    strip = [x for x in cfg.stmts() if isinstance(x.ast, ast.Assign) and is_name(x.ast.targets[0], "alias") and isinstance(x.ast.value, ast.Subscript)
             and isinstance(x.ast.value.slice, ast.Slice)]
    signs = [x for x in cfg.stmts() if isinstance(x.ast, ast.Assign) and is_name(x.ast.targets[0], "sign")]
    if not look or not signs:
        raise MechanismMissing(R, "lookup of the alias's variable / assignment of `sign` not found in the alias loop")
    # the lookup must not be reachable from the loop head without passing a sign assignment (one per branch of the '-' test)
    w = cfg.path(it.id, look[0].id, avoid={s.id for s in signs})
    rep.ob(R, SITE, "sign split off before the lookup", bool(strip) and w is None,
           "the alias's variable is looked up on a path that has not set `sign` / stripped the leading '-': a negative alias is then looked up "
           "under its signed name", path=cfg.describe(w) if w else "")
    # ... and so does every other use of the alias's name (the `handled in an earlier pass` test asks the old relation about it: "-B" is never
    # a canonical variable, B may be)
    split_nodes = {id(x.ast) for x in strip} | {id(x.ast) for x in signs}
    for x in cfg.nodes:
        if x.ast is None or x.kind not in ("stmt", "test") or id(x.ast) in split_nodes or x.ast is inner:
            continue
        reads = [y for y in ast.walk(x.ast) if isinstance(y, ast.Name) and y.id == "alias" and isinstance(y.ctx, ast.Load)]
        if not reads:
            continue
        if x.kind == "test" and any(isinstance(y, ast.Subscript) and is_name(y.value, "alias") and norm(y.slice) == "0" for y in ast.walk(x.ast)) \
                and len(reads) == 1:
            continue  # the sign test itself
        w = cfg.path(it.id, x.id, avoid={s_.id for s_ in signs})
        rep.ob(R, SITE, "sign split off before `%s`" % norm(x.ast)[:50], w is None,
               "the alias's name is used here on a path that has not yet split off its sign: for a negative alias the question is asked about "
               "`-name`, which no table of names contains", path=cfg.describe(w) if w else "")
    acc = _accumulators(outer, inner, cst)
    updates = {x.id for x in cfg.stmts() if isinstance(x.ast, (ast.Assign, ast.AugAssign)) and any(
        isinstance(t, ast.Name) and t.id in acc.values() for t in (x.ast.targets if isinstance(x.ast, ast.Assign) else [x.ast.target]))}
    conts = [x for x in cfg.stmts() if isinstance(x.ast, ast.Continue)]
    early = [c for c in conts if cfg.path(it.id, c.id, avoid=updates) is not None]
    rep.ob(R, SITE, "already-handled aliases skipped before merging", bool(early),
           "the `continue` for aliases handled in an earlier pass must be reachable without passing any accumulator update")
    dels = {x.id for x in cfg.stmts() if isinstance(x.ast, ast.Delete) and any(isinstance(t, ast.Subscript) and is_name(t.value, "all_states") for t in x.ast.targets)}
    bad = None
    for l in look:
        w = cfg.path(l.id, it.id, avoid=dels)
        if w is not None:
            bad = w
    rep.ob(R, SITE, "merged alias removed from the name universe", bool(dels) and bad is None,
           "after an alias's metadata was merged its variable must be deleted from all_states on every path (it stays in the model otherwise)",
           path=cfg.describe(bad) if bad else "")


@SPEC.rule(
    "R16.4",
    "an alias's bounds, nominal and fixed flag are merged whatever their values: where an update of the min / max / nominal / "
    "fixed accumulator is guarded by a test on the alias's own attributes, the guard looks at every attribute the update reads — "
    "for x = -y the new minimum comes from y's max, so a guard that skips the update `when y.min is unbounded` drops a finite "
    "-y.max and the canonical variable ends up with a wider range than the intersection",
)
def r16_4(ctx, rep):
    from ..pyutil import inlined
    R = "R16.4"
    outer, inner, cst, ast_ = _merge_loops(ctx, R)
    acc = _accumulators(outer, inner, cst)
    cfg = CFG(ast.Module(body=[inner], type_ignores=[]), R)
    body = [st for st in ast.walk(inner) if isinstance(st, ast.stmt)]

    def alias_attrs(e):
        e = inlined(e, body, keep={ast_, cst} | set(acc.values()))
        return {x.attr for x in ast.walk(e) if isinstance(x, ast.Attribute) and is_name(x.value, ast_) and x.attr in ATTRS}

    n = 0
    for a in ("min", "max", "nominal", "fixed"):
        v = acc.get(a)
        if v is None:
            continue
        for x in cfg.stmts():
            if not (isinstance(x.ast, (ast.Assign, ast.AugAssign)) and any(is_name(t, v) for t in (x.ast.targets if isinstance(x.ast, ast.Assign) else [x.ast.target]))):
                continue
            reads = alias_attrs(x.ast.value)
            if not reads:
                continue
            n += 1
            guards = [g for g in cfg.dominated_by(x.id, lambda y: y.kind == "assume") if alias_attrs(g.ast)]
            partial = [g for g in guards if reads - alias_attrs(g.ast)]
            rep.ob(R, SITE, "%s update `%s` is not skipped on part of what it reads" % (a, norm(x.ast)[:50]), not partial,
                   "the update reads %s.{%s} but runs only when `%s` holds, a test that looks at %s.{%s} alone: for one of the two signs the bound that "
                   "would have tightened the range is never looked at" % (ast_, ", ".join(sorted(reads)), partial[0].text()[:80] if partial else "",
                                                                         ast_, ", ".join(sorted(alias_attrs(partial[0].ast))) if partial else ""))
    if n < 4:
        raise MechanismMissing(R, "expected updates of the min, max, nominal and fixed accumulators from the alias's attributes, found %d" % n)


@SPEC.rule(
    "R16.5",
    "an own start is kept: every statement in the alias loop that overwrites the start accumulator is dominated by a branch on which "
    "`isinstance(<start>, _DefaultValue)` is known to hold — the canonical variable (or an alias merged earlier) had no explicit start; "
    "reaching the assignment from `the alias has an equal start` or from a conflict test that did not fire replaces an explicit start "
    "(for a negative alias: by its negation)",
)
def r16_5(ctx, rep):
    from ..cfg import assume_truth
    R = "R16.5"
    outer, inner, cst, ast_ = _merge_loops(ctx, R)
    acc = _accumulators(outer, inner, cst)
    v = acc.get("start")
    if v is None:
        raise MechanismMissing(R, "start accumulator not found")
    cfg = CFG(ast.Module(body=[inner], type_ignores=[]), R)
    ups = [x for x in cfg.stmts() if isinstance(x.ast, (ast.Assign, ast.AugAssign)) and any(is_name(t, v) for t in (x.ast.targets if isinstance(x.ast, ast.Assign) else [x.ast.target]))]
    if not ups:
        raise MechanismMissing(R, "the start accumulator is never updated in the alias loop")
    for x in ups:
        doms = cfg.dominated_by(x.id, lambda y: y.kind == "assume")
        ok = any(assume_truth(g, "isinstance(%s, _DefaultValue)" % v) is True for g in doms)
        rep.ob(R, SITE, "`%s` only when no explicit start is held" % norm(x.ast)[:60], ok,
               "the assignment is reachable while `%s` already is an explicit start value (no dominating branch establishes "
               "isinstance(%s, _DefaultValue)): a start written on the canonical variable is overwritten by an alias's" % (v, v))


@SPEC.rule(
    "R16.6",
    "every merged alias goes through the whole merge: from the lookup of the alias's variable every path to the end of the iteration passes "
    "an update of the min, max, nominal and fixed accumulators (or a test on that very attribute of the alias, which R16.4 judges) — a "
    "`continue` taken because the start values agree, or any other early exit after the alias has been accepted, drops its bounds, nominal "
    "and fixed flag",
)
def r16_6(ctx, rep):
    from ..pyutil import inlined
    R = "R16.6"
    outer, inner, cst, ast_ = _merge_loops(ctx, R)
    acc = _accumulators(outer, inner, cst)
    cfg = CFG(ast.Module(body=[inner], type_ignores=[]), R)
    it = [x for x in cfg.nodes if x.kind == "iter" and x.ast is inner][0]
    look = [x for x in cfg.stmts() if isinstance(x.ast, ast.Assign) and is_name(x.ast.targets[0], ast_)]
    if not look:
        raise MechanismMissing(R, "lookup of the alias's variable not found")
    body = [st for st in ast.walk(inner) if isinstance(st, ast.stmt)]
    fam = {"min": ("min", "max"), "max": ("min", "max"), "nominal": ("nominal",), "fixed": ("fixed",)}
    for a in ("min", "max", "nominal", "fixed"):
        v = acc.get(a)
        if v is None:
            continue
        ups = {x.id for x in cfg.stmts() if isinstance(x.ast, (ast.Assign, ast.AugAssign)) and any(is_name(t, v) for t in (x.ast.targets if isinstance(x.ast, ast.Assign) else [x.ast.target]))}
        own_tests = {x.id for x in cfg.nodes if x.kind == "assume" and any(
            isinstance(y, ast.Attribute) and is_name(y.value, ast_) and y.attr in fam[a] for y in ast.walk(inlined(x.ast, body, keep={ast_, cst} | set(acc.values()))))}
        w = cfg.path(look[0].id, it.id, avoid=ups | own_tests)
        rep.ob(R, SITE, "every merged alias reaches the %s update" % a, w is None,
               "after the alias's variable has been looked up an iteration can end without touching the %s accumulator and without a test on the alias's own "
               "%s: that alias's %s is lost" % (a, "/".join(fam[a]), a), path=cfg.describe(w) if w else "")


@SPEC.rule(
    "R16.7",
    "`no start declared` survives vector expansion: the merge keeps an own start and otherwise takes the alias's — which it tells apart by "
    "the marker class of the default start value. _expand_vectors hands attribute values that are not arrays to the scalar elements as "
    "the objects they are (a conversion to a plain number makes every element's default look like an explicit start of 0)",
)
def r16_7(ctx, rep):
    from .c18 import scalar_attributes_verbatim
    scalar_attributes_verbatim(ctx, rep, "R16.7")


# -- seeded variants ---------------------------------------------------------
from ._mut import delete_stmt_where, replace_in_func  # noqa: E402


@SPEC.mutant("nominal of aliases ignored", MODEL, "R16.1", "nominal updated")
def _m1(mod):
    return mod if delete_stmt_where(mod, "Model._simplify_once", lambda st: isinstance(st, ast.Assign) and norm(st).startswith("nominal = ca.fmax(nominal, alias_state.nominal")) else None


@SPEC.mutant("fixed not written back", MODEL, "R16.1", "fixed written back")
def _m2(mod):
    return mod if delete_stmt_where(mod, "Model._simplify_once", lambda st: norm(st) == "canonical_state.fixed = fixed") else None


@SPEC.mutant("negative alias bounds not swapped", MODEL, "R16.2", "min accumulator")
def _m3(mod):
    def edit(fn):
        for n in ast.walk(fn):
            if isinstance(n, ast.Assign) and norm(n.targets[0]) == "m" and isinstance(n.value, ast.Call) and "alias_state.max" in norm(n.value):
                for x in ast.walk(n.value):
                    if isinstance(x, ast.IfExp):
                        x.orelse = ast.parse("-alias_state.min", mode="eval").body
                        return True
        return False

    return mod if replace_in_func(mod, "Model._simplify_once", edit) else None


@SPEC.mutant("start of a negative alias not negated", MODEL, "R16.2", "start taken")
def _m4(mod):
    def edit(fn):
        for n in ast.walk(fn):
            if isinstance(n, ast.Assign) and norm(n) == "start = sign * alias_state.start":
                n.value = ast.parse("alias_state.start", mode="eval").body
                return True
        return False

    return mod if replace_in_func(mod, "Model._simplify_once", edit) else None


@SPEC.mutant("nominal of a negative alias sign-adjusted", MODEL, "R16.2", "nominal of an alias")
def _m5(mod):
    def edit(fn):
        for n in ast.walk(fn):
            if isinstance(n, ast.Assign) and norm(n).startswith("nominal = ca.fmax(nominal, alias_state.nominal"):
                n.value = ast.parse("ca.fmax(nominal, sign * alias_state.nominal)", mode="eval").body
                return True
        return False

    return mod if replace_in_func(mod, "Model._simplify_once", edit) else None


@SPEC.mutant("minimum update skipped when the alias has no lower bound", MODEL, "R16.4", "not skipped on part")
def _m_skip_unbounded(mod):
    def edit(fn):
        for n in ast.walk(fn):
            for f in ("body", "orelse"):
                lst = getattr(n, f, None)
                if isinstance(lst, list):
                    for i, st in enumerate(lst):
                        if isinstance(st, ast.Assign) and norm(st).startswith("m = ca.fmax(m, alias_state.min if sign == 1"):
                            lst[i] = ast.If(test=ast.parse("np.isfinite(alias_state.min)", mode="eval").body, body=[st], orelse=[])
                            return True
        return False

    return mod if replace_in_func(mod, "Model._simplify_once", edit) else None


@SPEC.mutant("equal-start branch falls through to the assignment", MODEL, "R16.5", "only when no explicit start")
def _m_start_fallthrough(mod):
    def edit(fn):
        for n in ast.walk(fn):
            if isinstance(n, ast.If) and norm(n.test) == "isinstance(start, _DefaultValue)" and n.orelse:
                n.test = ast.parse("isinstance(start, _DefaultValue) or start == alias_start_mx", mode="eval").body
                return True
            if isinstance(n, ast.If) and norm(n.test) == "not isinstance(start, _DefaultValue)" and n.orelse:
                n.test = ast.parse("not isinstance(start, _DefaultValue) and start != alias_start_mx", mode="eval").body
                return True
        return False

    return mod if replace_in_func(mod, "Model._simplify_once", edit) else None


@SPEC.mutant("equal-start branch skips the rest of the merge", MODEL, "R16.6", "reaches the")
def _m_equal_start_continue(mod):
    def edit(fn):
        for n in ast.walk(fn):
            if isinstance(n, ast.If) and "start != alias_start_mx" in norm(n.test) and n.orelse and isinstance(n.orelse[0], ast.Pass):
                n.orelse = [ast.Continue()]
                return True
        return False

    return mod if replace_in_func(mod, "Model._simplify_once", edit) else None
