"""C12 — representation-only options do not change the model's meaning (non-interference clause)."""
from __future__ import annotations

import ast
import re

from ..engine import AnalysisError, MechanismMissing, PropertySpec, norm
from ..pyutil import call_name, calls, const_str, dotted, is_name, literal, parent, subscript_key, walk_local

GEN = "src/pymoca/backends/casadi/generator.py"
MODEL = "src/pymoca/backends/casadi/model.py"

REP = {"unroll_loops", "inline_functions", "expand_mx"}

SPEC = PropertySpec(
    "C12",
    "Representation-only options do not change the model's meaning",
    decided=(
        "non-interference for the clause 'changes neither the variables, their order nor their metadata': the three "
        "options reach model state only through representation sinks — the mode argument of Function.map, the "
        "inline flags of Function.call, the SX-expansion wrapper around the four output functions — and, with "
        "expand_vectors off and no eliminable-variable expression, every guard of the simplification pipeline that "
        "mentions one of them has a value that does not depend on it (three-valued evaluation of all guards)."
    ),
    not_decided=(
        "numeric equality of the four functions across the 8 combinations (trusts CasADi's map/inline/expand); "
        "behaviour when expand_vectors is also on (pass order then depends on expand_mx; outside the property's quantifier)."
    ),
)
SPEC.assumptions += ["Function.map(name, mode, ...), Function.call(args, always_inline, never_inline) and Function.expand() preserve numeric meaning"]


def _opt_reads(fn_or_mod):
    """All `<x>["<rep option>"]` loads."""
    out = []
    for n in ast.walk(fn_or_mod):
        if isinstance(n, ast.Subscript) and isinstance(n.ctx, ast.Load) and subscript_key(n) in REP:
            out.append(n)
    return out


def _enclosing_fn(node):
    p = parent(node)
    names = []
    while p is not None:
        if isinstance(p, (ast.FunctionDef, ast.ClassDef)):
            names.append(p.name)
        p = parent(p)
    return ".".join(reversed(names)) or "<module>"


@SPEC.rule(
    "R12.1",
    "taint sinks: unroll_loops / inline_functions are read only in Generator.__init__ to choose map_mode / "
    "function_mode; map_mode is used only as the mode argument of Function.map, function_mode only as the starred "
    "flags of Function.call; expand_mx is read only in guards of Model._simplify_once; _expand_mx_func is assigned "
    "only a pure wrapper (identity / x.expand()) and used only to wrap the ca.Function returned by a function property",
)
def r12_1(ctx, rep):
    R = "R12.1"
    gmod = ctx.module(GEN, R)
    n = 0
    derived = {}
    for rd in _opt_reads(gmod):
        fn = _enclosing_fn(rd)
        key = subscript_key(rd)
        p = parent(rd)
        ok = False
        if fn == "Generator.__init__" and isinstance(p, ast.IfExp) and p.test is rd:
            a = parent(p)
            if isinstance(a, ast.Assign) and isinstance(a.targets[0], ast.Attribute) and is_name(a.targets[0].value, "self") \
                    and literal(p.body) is not None and literal(p.orelse) is not None:
                derived[a.targets[0].attr] = key
                ok = True
        # the statement form (which the engine also brings `self.x = A if options[k] else B` to): both branches store one literal in one attribute
        if fn == "Generator.__init__" and isinstance(p, ast.If) and p.test is rd and len(p.body) == 1 and len(p.orelse) == 1:
            a, b = p.body[0], p.orelse[0]
            if isinstance(a, ast.Assign) and isinstance(b, ast.Assign) and norm(a.targets[0]) == norm(b.targets[0]) and isinstance(a.targets[0], ast.Attribute) \
                    and is_name(a.targets[0].value, "self") and literal(a.value) is not None and literal(b.value) is not None:
                derived[a.targets[0].attr] = key
                ok = True
        n += 1
        rep.ob(R, GEN + ":" + fn, "read options[%r]" % key, ok,
               "a representation option may only select a constant mode stored on the generator; here it flows into `%s`" % norm(parent(rd))[:90])
    if set(derived.values()) != {"unroll_loops", "inline_functions"}:
        raise MechanismMissing(R, "mode attributes derived from unroll_loops/inline_functions not found in Generator.__init__ (found %s)" % derived)
    for n_ in ast.walk(gmod):
        if isinstance(n_, ast.Attribute) and n_.attr in derived and isinstance(n_.ctx, ast.Load):
            opt = derived[n_.attr]
            p = parent(n_)
            ok = False
            if opt == "unroll_loops":
                ok = isinstance(p, ast.Call) and isinstance(p.func, ast.Attribute) and p.func.attr == "map" and len(p.args) >= 2 and p.args[1] is n_
            else:
                ok = isinstance(p, ast.Starred) and isinstance(parent(p), ast.Call) and isinstance(parent(p).func, ast.Attribute) \
                    and parent(p).func.attr == "call"
                # the same, spelled with names: `a, b = self.function_mode; F.call(args, a, b)` — the two names go nowhere else
                if not ok and isinstance(p, ast.Assign) and p.value is n_ and len(p.targets) == 1 and isinstance(p.targets[0], ast.Tuple) \
                        and all(isinstance(t, ast.Name) for t in p.targets[0].elts):
                    flags = [t.id for t in p.targets[0].elts]
                    host = p
                    while host is not None and not isinstance(host, ast.FunctionDef):
                        host = parent(host)
                    loads = [x for x in ast.walk(host) if isinstance(x, ast.Name) and x.id in flags and isinstance(x.ctx, ast.Load)] if host is not None else []
                    def _is_call_flag(x):
                        c = parent(x)
                        return isinstance(c, ast.Call) and isinstance(c.func, ast.Attribute) and c.func.attr == "call" and x in c.args[1:] \
                            and [a.id for a in c.args[1:] if isinstance(a, ast.Name)] == flags
                    ok = bool(loads) and all(_is_call_flag(x) for x in loads)
            n += 1
            rep.ob(R, GEN + ":" + _enclosing_fn(n_), "use of .%s in `%s`" % (n_.attr, norm(p)[:70]), ok,
                   "the mode derived from %s may only be the mode argument of Function.map / the inline flags of Function.call" % opt)
        if isinstance(n_, ast.Attribute) and n_.attr in derived and isinstance(n_.ctx, ast.Store) and _enclosing_fn(n_) != "Generator.__init__":
            n += 1
            rep.ob(R, GEN + ":" + _enclosing_fn(n_), "store to .%s" % n_.attr, False, "mode attribute re-assigned outside __init__")
    # model.py
    mmod = ctx.module(MODEL, R)
    for rd in _opt_reads(mmod):
        fn = _enclosing_fn(rd)
        key = subscript_key(rd)
        # must be inside an if-test of _simplify_once
        p = rd
        in_test = False
        while parent(p) is not None:
            q = parent(p)
            if isinstance(q, (ast.If, ast.While)) and q.test is p:
                in_test = True
                break
            if isinstance(q, ast.stmt):
                break
            p = q
        if not in_test:
            # the guard's value computed ahead of the loop it guards in: `flag = <test over options>` whose only uses are tests
            st = rd
            while parent(st) is not None and not isinstance(st, ast.stmt):
                st = parent(st)
            if isinstance(st, ast.Assign) and len(st.targets) == 1 and isinstance(st.targets[0], ast.Name) and isinstance(st.value, (ast.BoolOp, ast.UnaryOp, ast.Subscript, ast.Compare)):
                host = st
                while host is not None and not isinstance(host, ast.FunctionDef):
                    host = parent(host)
                uses = [x for x in ast.walk(host) if isinstance(x, ast.Name) and x.id == st.targets[0].id and isinstance(x.ctx, ast.Load)] if host is not None else []

                def _in_test(x):
                    q = x
                    while parent(q) is not None:
                        pq = parent(q)
                        if isinstance(pq, (ast.If, ast.While)) and pq.test is q:
                            return True
                        if isinstance(pq, ast.stmt):
                            return False
                        q = pq
                    return False

                stores = [x for x in ast.walk(host) if isinstance(x, ast.Name) and x.id == st.targets[0].id and isinstance(x.ctx, ast.Store)] if host is not None else []
                in_test = bool(uses) and all(_in_test(x) for x in uses) and len(stores) == 1
        n += 1
        rep.ob(R, MODEL + ":" + fn, "read options[%r] in `%s`" % (key, norm(parent(rd))[:60]), in_test and fn == "Model._simplify_once" and key == "expand_mx",
               "in model.py a representation option may only appear in a guard of _simplify_once (whose value is decided by R12.2)")
    for n_ in ast.walk(mmod):
        if isinstance(n_, ast.Attribute) and n_.attr == "_expand_mx_func":
            fn = _enclosing_fn(n_)
            if isinstance(n_.ctx, ast.Store):
                a = parent(n_)
                v = a.value if isinstance(a, ast.Assign) else None
                ok = isinstance(v, ast.Lambda) and len(v.args.args) == 1 and norm(v.body) in (v.args.args[0].arg, v.args.args[0].arg + ".expand()")
                n += 1
                rep.ob(R, MODEL + ":" + fn, "assign _expand_mx_func = %s" % (norm(v) if v is not None else "?"), ok,
                       "the wrapper must be the identity or Function.expand(): anything else changes the returned functions")
            else:
                p = parent(n_)
                ok = isinstance(p, ast.Call) and p.func is n_ and len(p.args) == 1 and isinstance(p.args[0], ast.Call) \
                    and call_name(p.args[0]) == "ca.Function" and (isinstance(parent(p), ast.Return) or _only_returned(parent(p)))
                n += 1
                rep.ob(R, MODEL + ":" + fn, "use of _expand_mx_func", ok, "the wrapper may only wrap the ca.Function a function property returns")
    if n < 15:
        raise MechanismMissing(R, "only %d option uses found, expected >= 15" % n)


def _only_returned(st):
    """`name = <wrapped function>` where the name's only use in the method is `return name` (the shape a shared builder of two function
    properties has once it is folded back into them)"""
    if not (isinstance(st, ast.Assign) and len(st.targets) == 1 and isinstance(st.targets[0], ast.Name)):
        return False
    host = st
    while host is not None and not isinstance(host, ast.FunctionDef):
        host = parent(host)
    if host is None:
        return False
    loads = [x for x in ast.walk(host) if isinstance(x, ast.Name) and x.id == st.targets[0].id and isinstance(x.ctx, ast.Load)]
    return bool(loads) and all(isinstance(parent(x), ast.Return) for x in loads)


def _tri(test, env):
    """three-valued evaluation: True / False / None (depends on a representation option) / 'x' (other unknown)"""
    if isinstance(test, ast.BoolOp):
        vals = [_tri(v, env) for v in test.values]
        if isinstance(test.op, ast.And):
            if any(v is False for v in vals):
                return False
            if all(v is True for v in vals):
                return True
            return None if any(v is None for v in vals) else "x"
        if any(v is True for v in vals):
            return True
        if all(v is False for v in vals):
            return False
        return None if any(v is None for v in vals) else "x"
    if isinstance(test, ast.UnaryOp) and isinstance(test.op, ast.Not):
        v = _tri(test.operand, env)
        return (not v) if isinstance(v, bool) else v
    k = subscript_key(test)
    if k is not None and isinstance(test.value, ast.Name) and test.value.id == "options":
        if k in REP:
            return None
        return env.get(k, "x")
    if isinstance(test, ast.Compare) and len(test.ops) == 1 and subscript_key(test.left) is not None:
        k = subscript_key(test.left)
        c = test.comparators[0]
        if isinstance(c, ast.Constant) and c.value is None and k in env:
            isnone = env[k] is None
            return (not isnone) if isinstance(test.ops[0], ast.IsNot) else isnone
    if any(subscript_key(x) in REP for x in ast.walk(test) if isinstance(x, ast.Subscript)):
        return None
    return "x"


@SPEC.rule(
    "R12.2",
    "guard truth tables: with expand_vectors = False and eliminable_variable_expression = None, every if-test in "
    "Model._simplify_once / Model.simplify that mentions expand_mx either sits in a block that is not executed, has a "
    "value independent of expand_mx (three-valued evaluation), or guards only the assignment of the expansion wrapper",
)
def r12_2(ctx, rep):
    R = "R12.2"
    env = {"expand_vectors": False, "eliminable_variable_expression": None}
    n = 0
    for fname in ("Model._simplify_once", "Model.simplify"):
        fn = ctx.func(MODEL, fname, R)

        def visit(stmts, live):
            nonlocal n
            for st in stmts:
                if isinstance(st, (ast.FunctionDef, ast.ClassDef)):
                    visit(st.body, live)
                    continue
                if isinstance(st, ast.If):
                    v = _tri(st.test, env)
                    mentions = any(subscript_key(x) in REP for x in ast.walk(st.test) if isinstance(x, ast.Subscript))
                    if mentions:
                        n += 1
                        if not live:
                            rep.ob(R, MODEL + ":" + fname, "guard `%s`" % norm(st.test), True, "inside a block that is not executed under the property's quantifier")
                        elif isinstance(v, bool):
                            rep.ob(R, MODEL + ":" + fname, "guard `%s`" % norm(st.test), True, "evaluates to %s whatever the representation option is" % v)
                        else:
                            # allowed only if both branches touch nothing but the wrapper / logging
                            def harmless(block):
                                for s in block:
                                    if isinstance(s, ast.Expr) and isinstance(s.value, ast.Call) and (call_name(s.value) or "").startswith("logger."):
                                        continue
                                    if isinstance(s, ast.Assign) and norm(s.targets[0]) == "self._expand_mx_func":
                                        continue
                                    return False
                                return True

                            rep.ob(R, MODEL + ":" + fname, "guard `%s`" % norm(st.test), harmless(st.body) and harmless(st.orelse),
                                   "this guard's value depends on a representation option and its branches change model state "
                                   "(variables / equations / metadata): toggling the option changes the model")
                    visit(st.body, live and v is not False)
                    visit(st.orelse, live and v is not True)
                    continue
                for f in ("body", "orelse", "finalbody"):
                    b = getattr(st, f, None)
                    if isinstance(b, list) and b and isinstance(b[0], ast.stmt):
                        visit(b, live)
                for h in getattr(st, "handlers", []) or []:
                    visit(h.body, live)

        visit(fn.body, True)
    if n < 4:
        raise MechanismMissing(R, "fewer than 4 guards mentioning a representation option found")


@SPEC.rule(
    "R12.3",
    "generator: no if/while test, loop bound or Model/Variable attribute store in generator.py depends on a "
    "representation option or on the mode attributes derived from them",
)
def r12_3(ctx, rep):
    R = "R12.3"
    gmod = ctx.module(GEN, R)
    bad = []
    checked = 0
    for n in ast.walk(gmod):
        tests = []
        if isinstance(n, ast.If) and _enclosing_fn(n) == "Generator.__init__" and len(n.body) == 1 and len(n.orelse) == 1 and all(
                isinstance(b, ast.Assign) and isinstance(b.targets[0], ast.Attribute) and is_name(b.targets[0].value, "self") and literal(b.value) is not None
                for b in (n.body[0], n.orelse[0])) and norm(n.body[0].targets[0]) == norm(n.orelse[0].targets[0]):
            pass  # the choice of a constant mode (R12.1 decides what the mode may be used for)
        elif isinstance(n, (ast.If, ast.While)):
            tests.append(n.test)
        elif isinstance(n, ast.For):
            tests.append(n.iter)
        elif isinstance(n, ast.IfExp) and _enclosing_fn(n) != "Generator.__init__":
            tests.append(n.test)
        for t in tests:
            checked += 1
            for x in ast.walk(t):
                if (isinstance(x, ast.Subscript) and subscript_key(x) in REP) or (isinstance(x, ast.Attribute) and x.attr in ("map_mode", "function_mode")):
                    bad.append("%s: %s" % (_enclosing_fn(n), norm(t)[:80]))
        if isinstance(n, ast.Assign):
            for tg in n.targets:
                if isinstance(tg, ast.Attribute) and norm(tg.value) in ("self.model", "variable", "model"):
                    checked += 1
                    for x in ast.walk(n.value):
                        if (isinstance(x, ast.Subscript) and subscript_key(x) in REP) or (isinstance(x, ast.Attribute) and x.attr in ("map_mode", "function_mode")):
                            bad.append("%s: %s" % (_enclosing_fn(n), norm(n)[:80]))
    rep.ob(R, GEN + ":<module>", "control flow and model stores free of representation options", not bad,
           "tainted control flow / model store: %s" % bad)
    rep.extra["R12.3_tests_and_stores_checked"] = checked
    if checked < 100:
        raise MechanismMissing(R, "only %d tests/stores inspected in generator.py" % checked)


@SPEC.rule(
    "R12.4",
    "the metadata function does not depend on inline_functions: a call node (what a user function is when it is not inlined) "
    "never passes the operation whitelist of variable_metadata_function's affine fast path — with the call inlined the same "
    "attribute is judged on its real operations, so admitting OP_CALL makes the two settings disagree (same rule as R13.4's "
    "whitelist clause, evaluated here for the option pair)",
)
def r12_4(ctx, rep):
    from .c13 import affine_rebuild

    affine_rebuild(ctx, rep, "R12.4")


@SPEC.rule(
    "R12.7",
    "the SX-to-MX translation of expand_mx is node for node: every value the nested translator (_sx_to_mx in _expand_simplify_mx) returns for "
    "a node with operands is built with the node's own operator (`ca.MX.unary(sx.op(), ...)`, `ca.MX.binary(sx.op(), ...)`) from the "
    "translations of its own operands in their order — or assembles a matrix from its elements; a case that recognises a pattern and emits "
    "another operator (two if_else_zero halves put back together as one if_else) changes what the residual computes when the pattern has "
    "another origin",
)
def r12_7(ctx, rep):
    R = "R12.7"
    outer = ctx.func(MODEL, "Model._expand_simplify_mx", R)
    site = MODEL + ":Model._expand_simplify_mx"
    inner = [f for f in ast.walk(outer) if isinstance(f, ast.FunctionDef) and f is not outer and any(
        isinstance(c, ast.Call) and is_name(c.func, f.name) for c in ast.walk(f))]
    if not inner:
        raise MechanismMissing(R, "the recursive SX-to-MX translator was not found in _expand_simplify_mx")
    f = inner[0]
    p = f.args.args[0].arg
    n = 0

    def rec(e):
        return isinstance(e, ast.Call) and is_name(e.func, f.name)

    for r_ in ast.walk(f):
        if not isinstance(r_, ast.Return) or r_.value is None:
            continue
        v = r_.value
        if not any(rec(x) for x in ast.walk(v)):
            continue  # leaves: symbol lookup, constant
        n += 1
        cn = (call_name(v) or "") if isinstance(v, ast.Call) else ""
        last = cn.split(".")[-1]
        ok, why = False, "built with `%s`" % (cn or norm(v)[:40])
        if last in ("unary", "binary") and len(v.args) == (2 if last == "unary" else 3):
            own_op = norm(v.args[0]) == "%s.op()" % p
            deps = all(rec(a) and len(a.args) == 1 and norm(a.args[0]) == "%s.dep(%d)" % (p, k) for k, a in enumerate(v.args[1:]))
            ok = own_op and deps
            why = "operator `%s`, operands %s" % (norm(v.args[0]), [norm(a)[:30] for a in v.args[1:]])
        elif last in ("vertcat", "horzcat", "blockcat", "reshape"):
            ok = True
        rep.ob(R, site, "return #%d keeps the node's operator and operands" % n, ok,
               "`%s` — %s: the translated expression is not the expression that was expanded" % (norm(r_)[:70], why))
    if n < 2:
        raise MechanismMissing(R, "fewer than 2 constructing returns found in the SX-to-MX translator")


@SPEC.rule(
    "R12.8",
    "a representation switch decides by itself: every test in casadi/model.py that reads options['expand_mx'] is made of option reads only "
    "(and / or / not) — combined with a property of the data (`... and len(symvar(eq)) > 2`) the expansion that both settings rely on to "
    "recognise an alias equation is made for some equations and not for others, and the two settings eliminate different variables",
)
def r12_8(ctx, rep):
    R = "R12.8"
    mod = ctx.module(MODEL, R)
    n = 0
    for t in ast.walk(mod):
        if isinstance(t, (ast.If, ast.While, ast.IfExp)) and any(subscript_key(x) == "expand_mx" for x in ast.walk(t.test) if isinstance(x, ast.Subscript)):
            n += 1

            def pure(e):
                if isinstance(e, ast.BoolOp):
                    return all(pure(v) for v in e.values)
                if isinstance(e, ast.UnaryOp) and isinstance(e.op, ast.Not):
                    return pure(e.operand)
                return isinstance(e, ast.Subscript) and subscript_key(e) is not None and is_name(e.value, "options")

            rep.ob(R, MODEL + ":" + _enclosing_fn(t), "test `%s` reads options only" % norm(t.test)[:60], pure(t.test),
                   "the test mixes the representation option with something computed from the model")
    # ... and a flag computed from it ahead of the test is made of option reads only, too
    for st in ast.walk(mod):
        if isinstance(st, ast.Assign) and isinstance(st.targets[0], ast.Name) and not isinstance(st.value, ast.Subscript) and any(
                isinstance(x, ast.Subscript) and subscript_key(x) == "expand_mx" for x in ast.walk(st.value)):
            n += 1

            def pure2(e):
                if isinstance(e, ast.BoolOp):
                    return all(pure2(v) for v in e.values)
                if isinstance(e, ast.UnaryOp) and isinstance(e.op, ast.Not):
                    return pure2(e.operand)
                return isinstance(e, ast.Subscript) and subscript_key(e) is not None and is_name(e.value, "options")

            rep.ob(R, MODEL + ":" + _enclosing_fn(st), "flag `%s` is made of option reads only" % norm(st)[:60], pure2(st.value),
                   "the flag mixes the representation option with something computed from the model")
    if n < 2:
        raise MechanismMissing(R, "fewer than 2 tests of options['expand_mx'] found in casadi/model.py")


# -- seeded variants ---------------------------------------------------------
@SPEC.rule(
    "R12.5",
    "no conversion memo keyed by printed text: model.py and generator.py hold no dict/set keyed by str(expr) / repr(expr) / a "
    "formatted expression — CasADi prints constants with six digits, so an SX->MX (or any other) conversion memoised by text "
    "returns the node built for 0.1234561 when asked for 0.1234562 and the two representations no longer agree",
)
def r12_5(ctx, rep):
    from ._memo import no_text_keyed_tables
    no_text_keyed_tables(ctx, rep, "R12.5", MODEL, "the CasADi model (representation conversions included)", 20)
    no_text_keyed_tables(ctx, rep, "R12.5", GEN, "the CasADi generator", 20)


STRUCTURE_API = ("is_op", "dep", "n_dep", "op", "is_binary", "is_unary")


@SPEC.rule(
    "R12.6",
    "a for-loop's subscript values are computed, not pattern-matched: in ForLoop.register_indexed_symbol every value of the index "
    "array is either the loop's own values (subscript is the loop variable) or the result of evaluating a ca.Function built from "
    "the subscript expression over those values, and no method of ForLoop inspects the structure of a CasADi expression (is_op, "
    "dep, n_dep, ...) — the operand order of an MX node is CasADi's choice (`k + 5` is stored as 5 + k, `5 - k` is not `k - 5`), so "
    "a shortcut that reads the constant and the sign off the node maps some loops to other elements than the SX/MX evaluation does",
)
def r12_6(ctx, rep):
    loop_subscripts_evaluated(ctx, rep, "R12.6")


def loop_subscripts_evaluated(ctx, rep, R):
    from ..pyutil import inlined
    ms = ctx.methods(GEN, "ForLoop", R)
    fn = ms.get("register_indexed_symbol")
    if fn is None:
        raise MechanismMissing(R, "ForLoop.register_indexed_symbol not found")
    site = GEN + ":ForLoop.register_indexed_symbol"
    used = []
    for name, m in ms.items():
        for c in calls(m):
            if isinstance(c.func, ast.Attribute) and c.func.attr in STRUCTURE_API:
                used.append("%s: %s" % (name, norm(c)[:50]))
    rep.ob(R, GEN + ":ForLoop", "no method of ForLoop takes a CasADi expression apart", not used, "; ".join(used[:4]))
    # the array handed to index_function
    sink = [c for c in calls(fn) if is_name(c.func, "index_function") and c.args]
    if not sink:
        raise MechanismMissing(R, "index_function(<indices>) call not found")
    names = {x.id for x in ast.walk(sink[0].args[0]) if isinstance(x, ast.Name)}
    body = [st for st in ast.walk(fn) if isinstance(st, ast.stmt)]
    n = 0
    for st in body:
        if isinstance(st, ast.Assign) and len(st.targets) == 1 and isinstance(st.targets[0], ast.Name) and st.targets[0].id in names:
            n += 1
            v = inlined(st.value, body, keep=names)
            txt = norm(v)
            # "evaluated over all the loop's values": a call whose callee is (derived from) ca.Function(..., [<subscript expression>]) and whose
            # arguments contain self.values as a whole (not one element of it)
            evaluated = False
            for c in ast.walk(v):
                if not isinstance(c, ast.Call):
                    continue
                callee_has_fn = any(isinstance(k, ast.Call) and (call_name(k) or "").endswith("Function") and any("index_expr" in norm(a) for a in k.args)
                                    for k in ast.walk(c.func))
                if not callee_has_fn:
                    continue
                whole = False
                for a in c.args:
                    for x in ast.walk(a):
                        if isinstance(x, ast.Attribute) and norm(x) == "self.values":
                            par = getattr(x, "_parent", None)
                            # ast_copy'd nodes carry no parent links: look for a subscript of self.values textually instead
                            whole = True
                    if "self.values[" in norm(a):
                        whole = False
                evaluated = evaluated or whole
            # every other use of self.values in the value must be inside that evaluation: `self.values + <offset>` is an extrapolation
            extrapolated = bool(re.search(r"self\.values\s*[-+*]", txt)) or bool(re.search(r"[-+*]\s*self\.values", txt))
            ok = txt == "self.values" or (evaluated and not extrapolated)
            rep.ob(R, site, "subscript values `%s = ...`" % st.targets[0].id, ok,
                   "`%s` is neither the loop's own values nor the evaluation of a ca.Function of the subscript expression over ALL of them (evaluating it "
                   "at one value and extrapolating is exact for `i + c` only: x[2*i], x[n+1-i] select other elements)" % norm(st)[:90])
    if n < 2:
        raise MechanismMissing(R, "expected the two definitions of the index array (plain loop variable / general expression), found %d" % n)


from ._mut import replace_in_func  # noqa: E402


@SPEC.mutant("SX->MX conversion memoised by printed text", MODEL, "R12.5", "keyed by the printed form")
def _m_textmemo(mod):
    def edit(fn):
        fn.body.insert(0, ast.parse("_seen = {}").body[0])
        fn.body.insert(1, ast.parse("_seen.setdefault(str(self.time), self.time)").body[0])
        return True

    return mod if replace_in_func(mod, "Model.simplify", edit) else None


@SPEC.mutant("unroll_loops guards a model store", GEN, "R12.3", "")
def _m1(mod):
    def edit(fn):
        fn.body.append(ast.parse("if self.map_mode == 'serial':\n    self.model.outputs = []").body[0])
        return True

    return mod if replace_in_func(mod, "Generator.exitClass", edit) else None


@SPEC.mutant("expand_mx guards equation rewrite", MODEL, "R12.2", "guard")
def _m2(mod):
    def edit(fn):
        for n in ast.walk(fn):
            if isinstance(n, ast.If) and norm(n.test) == "options['expand_mx']":
                n.body.append(ast.parse("self.equations = self._expand_simplify_mx(self.equations)").body[0])
                return True
        return False

    return mod if replace_in_func(mod, "Model._simplify_once", edit) else None


@SPEC.mutant("inline_functions read while translating", GEN, "R12.1", "read options")
def _m3(mod):
    def edit(fn):
        fn.body.insert(0, ast.parse("self._inline = options['inline_functions']").body[0])
        return True

    return mod if replace_in_func(mod, "Generator.__init__", edit) else None


@SPEC.mutant("wrapper changes the function", MODEL, "R12.1", "assign _expand_mx_func")
def _m4(mod):
    def edit(fn):
        for n in ast.walk(fn):
            if isinstance(n, ast.Assign) and norm(n.targets[0]) == "self._expand_mx_func":
                n.value = ast.parse("lambda x: x.expand().jacobian()", mode="eval").body
                return True
        return False

    return mod if replace_in_func(mod, "Model._simplify_once", edit) else None


@SPEC.mutant("map_mode used as loop condition", GEN, "R12.1", "use of .map_mode")
def _m5(mod):
    def edit(fn):
        for i, st in enumerate(fn.body):
            if isinstance(st, ast.If) and norm(st.test) == "len(f.values) > 0":
                st.test = ast.parse("len(f.values) > 0 and self.map_mode == 'inline'", mode="eval").body
                return True
        return False

    return mod if replace_in_func(mod, "Generator.exitForEquation", edit) else None


@SPEC.mutant("shifted loop index read off the expression node", GEN, "R12.6", "ForLoop")
def _m_shift(mod):
    def edit(fn):
        for n in ast.walk(fn):
            if isinstance(n, ast.If) and "index_expr is not self.index_variable" in norm(n.test):
                n.body = ast.parse("if index_expr.is_op(ca.OP_ADD):\n    indices = self.values + int(index_expr.dep(0))\nelse:\n    pass").body[:1] + n.body
                n.body[0].orelse = n.body[1:]
                n.body = n.body[:1]
                return True
        return False

    return mod if replace_in_func(mod, "ForLoop.register_indexed_symbol", edit) else None
