"""C01 — parse cache is transparent over any cache history (parser.py)."""
from __future__ import annotations

import ast
import builtins
import pickle
import sqlite3

from ..cfg import def_value, explore_defs, reaching_defs, witness
from ..engine import AnalysisError, MechanismMissing, PropertySpec, norm
from ..pyutil import call_name, calls, const_str, dotted, is_name, literal, method_name, walk_local
from ..sqlfacts import (
    create_table_layout,
    insert_columns,
    placeholders_before_where,
    select_columns,
    sql_norm,
    table_of,
    where_columns,
)
from ._pcache import PARSER, get

SPEC = PropertySpec(
    "C01",
    "Parse cache is transparent over any cache history",
    decided=(
        "(a) what is looked up is what was stored for this text and version (key/data agreement of the SQL "
        "literals and their bound variables); (b) a failed parse (None) is never stored or served; (c) every "
        "way the cache can fail — unpicklable blob, wrong table layout, corrupt file, storage error — ends in "
        "a fresh parse on every CFG path, not in an exception."
    ),
    not_decided=(
        "structural identity of an unpickled tree with a fresh one (pickle round-trip, value-level); timing of pruning."
    ),
)
SPEC.assumptions += [
    "pickle's documented failure set for untrusted bytes: UnpicklingError, EOFError, AttributeError, ImportError, IndexError",
    "sqlite3 exception hierarchy (sqlite3.Error > DatabaseError > OperationalError/IntegrityError)",
]

SITE_PARSE = PARSER + ":parse"
SITE_STRUCT = PARSER + ":_check_database_structure"


def _resolve_exc(name: str):
    parts = name.split(".")
    if len(parts) == 2 and parts[0] == "pickle":
        return getattr(pickle, parts[1], None)
    if len(parts) == 2 and parts[0] == "sqlite3":
        return getattr(sqlite3, parts[1], None)
    if len(parts) == 1:
        c = getattr(builtins, parts[0], None)
        if c is None:
            c = getattr(sqlite3, parts[0], None) or getattr(pickle, parts[0], None)
        return c
    return None


def handler_classes(h: ast.ExceptHandler):
    if h.type is None:
        return [BaseException], []
    elts = h.type.elts if isinstance(h.type, ast.Tuple) else [h.type]
    out, unknown = [], []
    for e in elts:
        c = _resolve_exc(norm(e))
        if isinstance(c, type) and issubclass(c, BaseException):
            out.append(c)
        else:
            unknown.append(norm(e))
    return out, unknown


def covers(handlers, exc) -> bool:
    return any(issubclass(exc, h) for h in handlers)


def _classify_value(pc, expr) -> str:
    """What a bound expression denotes: hash / version / blob:<var> / time / other."""
    if isinstance(expr, ast.Call):
        name = call_name(expr)
        if name == "pickle.dumps" and expr.args and isinstance(expr.args[0], ast.Name):
            return "blob:" + expr.args[0].id
        if isinstance(expr.func, ast.Name) and len(expr.args) == 1 and is_name(expr.args[0], pc.txt_param):
            fn = pc.ctx.find(PARSER, expr.func.id)
            if isinstance(fn, ast.FunctionDef) and _is_whole_text_hash(fn):
                pc.hash_fn_name = expr.func.id
                return "hash"
        if name and "since_epoch" in name or name in ("time.time", "time.time_ns"):
            return "time"
    d = dotted(expr)
    if d in ("pymoca.__version__", "__version__"):
        return "version"
    return "other:" + norm(expr)


def _is_whole_text_hash(fn: ast.FunctionDef) -> bool:
    """The function feeds its whole (unmodified) first parameter to a hashlib hasher
    and returns the un-truncated digest."""
    if not fn.args.args:
        return False
    p = fn.args.args[0].arg
    fed = []
    for c in calls(fn):
        m = method_name(c)
        cn = call_name(c) or ""
        if (m == "update" and isinstance(c.func, ast.Attribute)) or cn.startswith("hashlib."):
            if c.args:
                fed.append(c.args[0])
    if not fed:
        return False
    for a in fed:
        ok = False
        if is_name(a, p):
            ok = True
        elif (
            isinstance(a, ast.Call)
            and isinstance(a.func, ast.Attribute)
            and a.func.attr == "encode"
            and is_name(a.func.value, p)
        ):
            ok = True
        if not ok:
            return False
    # parameter never re-bound
    for n in walk_local(fn):
        if isinstance(n, ast.Name) and n.id == p and isinstance(n.ctx, ast.Store):
            return False
    rets = [n for n in walk_local(fn) if isinstance(n, ast.Return)]
    if not rets:
        return False
    for r in rets:
        v = r.value
        if not (isinstance(v, ast.Call) and isinstance(v.func, ast.Attribute) and v.func.attr in ("hexdigest", "digest")):
            return False
    return True


def _bound_kinds(pc, cfg, event):
    """Classification of every bound parameter of an execute() call, by position."""
    c = event.call

    def tuple_of(e):
        """the tuple display a name stands for (its single reaching definition), or the display itself"""
        if isinstance(e, (ast.Tuple, ast.List)):
            return e
        if isinstance(e, ast.Name):
            rd = [d for d in reaching_defs(cfg, e.id)[event.node.id] if d != cfg.entry]
            if len(rd) == 1:
                v = def_value(cfg.nodes[rd[0]], e.id)
                if isinstance(v, (ast.Tuple, ast.List)):
                    return v
        return None

    if len(c.args) < 2 or tuple_of(c.args[1]) is None:
        return None
    elts = []
    for e in tuple_of(c.args[1]).elts:
        if isinstance(e, ast.Starred):
            inner = tuple_of(e.value)
            if inner is None:
                return None
            elts.extend(inner.elts)
        else:
            elts.append(e)
    kinds = []
    for e in elts:
        if isinstance(e, ast.Name):
            rd = reaching_defs(cfg, e.id)[event.node.id]
            ks = set()
            for d in rd:
                v = def_value(cfg.nodes[d], e.id) if d != cfg.entry else None
                ks.add(_classify_value(pc, v) if v is not None else "other:<param or complex def of %s>" % e.id)
            kinds.append(ks.pop() if len(ks) == 1 else "mixed:" + "|".join(sorted(ks)))
        else:
            kinds.append(_classify_value(pc, e))
    return kinds


def _models_events(pc):
    sel = [e for e in pc.events("parse", "read") if e.detail.upper().startswith("SELECT") and table_of(e.detail) == "models"]
    upd = [e for e in pc.events("parse", "write") if e.detail.upper().startswith("UPDATE") and table_of(e.detail) == "models"]
    ins = [e for e in pc.events("parse", "write") if e.detail.upper().startswith(("INSERT", "REPLACE")) and table_of(e.detail) == "models"]
    return sel, upd, ins


@SPEC.rule(
    "R01.1",
    "key agreement: PRIMARY KEY of models == WHERE columns of the lookup SELECT and of the last_hit UPDATE == the "
    "INSERT columns bound to {hash of the whole unmodified text, pymoca.__version__}; same variables at every site",
)
def r01_1(ctx, rep):
    R = "R01.1"
    pc = get(ctx, R)
    cfg = pc.parse_cfg
    sel, upd, ins = _models_events(pc)
    if not sel or not ins:
        raise MechanismMissing(R, "lookup SELECT / INSERT on table models not found in parse()")
    # INSERT: which columns carry the key
    key_cols = {}
    for e in ins:
        cols = insert_columns(e.detail)
        kinds = _bound_kinds(pc, cfg, e)
        if kinds is None or len(kinds) != len(cols):
            rep.ob(R, SITE_PARSE, "execute:" + e.detail, False, "INSERT columns and bound tuple cannot be matched")
            continue
        kc = {c: k for c, k in zip(cols, kinds) if k in ("hash", "version")}
        key_cols = kc
        ok = sorted(kc.values()) == ["hash", "version"]
        rep.ob(
            R, SITE_PARSE, "execute:" + e.detail, ok,
            "INSERT must bind exactly one column to hash(text) and one to pymoca.__version__; found %s"
            % dict(zip(cols, kinds)),
        )
    keyset = set(key_cols)
    # CREATE TABLE models: primary key
    creates = [e for e in pc.events("struct", "write") if e.detail.upper().startswith("CREATE TABLE") and table_of(e.detail) == "models"]
    if not creates:
        raise MechanismMissing(R, "CREATE TABLE models not found")
    for e in creates:
        lay = create_table_layout(e.detail)
        pk = set(lay[2]) if lay else set()
        rep.ob(R, SITE_STRUCT, "execute:CREATE TABLE models PRIMARY KEY", pk == keyset and len(pk) == 2,
               "PRIMARY KEY %s must equal the key columns bound at INSERT %s" % (sorted(pk), sorted(keyset)))
    # SELECT / UPDATE: WHERE columns and their bound variables
    for e in sel + upd:
        wc = where_columns(e.detail)
        kinds = _bound_kinds(pc, cfg, e) or []
        off = placeholders_before_where(e.detail)
        bound = kinds[off: off + len(wc)]
        want = [key_cols.get(c) for c in wc]
        ok = set(wc) == keyset and len(wc) == len(keyset) and bound == want and None not in want
        rep.ob(R, SITE_PARSE, "execute:" + e.detail, ok,
               "WHERE columns %s bound to %s; required: exactly the key columns %s bound to their own kinds"
               % (wc, bound, {c: key_cols[c] for c in sorted(keyset)}))
    # the hash function
    if pc.hash_fn_name:
        fn = ctx.func(PARSER, pc.hash_fn_name, R)
        rep.ob(R, PARSER + ":" + pc.hash_fn_name, "hash of whole text", _is_whole_text_hash(fn),
               "hash function must feed its whole unmodified argument to the hasher and return the full digest")
    else:
        rep.ob(R, SITE_PARSE, "hash of whole text", False,
               "no key variable is defined as <hash function>(%s) over the whole unmodified text" % pc.txt_param)
    rep.require_instances(R, 4, "key sites (INSERT, CREATE, SELECT, hash)")


@SPEC.rule(
    "R01.2",
    "data agreement: the blob stored is pickle.dumps(tree) with every reaching definition of tree = _parse(txt); "
    "the blob unpickled on a hit is the SELECT column of the same name, taken at the matching tuple position",
)
def r01_2(ctx, rep):
    R = "R01.2"
    pc = get(ctx, R)
    cfg = pc.parse_cfg
    sel, upd, ins = _models_events(pc)
    blob_col = None
    for e in ins:
        cols = insert_columns(e.detail)
        kinds = _bound_kinds(pc, cfg, e) or []
        blobs = [(c, k) for c, k in zip(cols, kinds) if k.startswith("blob:")]
        if len(blobs) != 1:
            rep.ob(R, SITE_PARSE, "execute:" + e.detail, False,
                   "INSERT must bind exactly one column to pickle.dumps(<tree>); found %s" % dict(zip(cols, kinds)))
            continue
        blob_col, kind = blobs[0]
        tree_var = kind.split(":", 1)[1]
        # reaching defs of the dumped variable at the dumps() site
        blob_name = e.call.args[1].elts[cols.index(blob_col)]
        dnodes = [d for d in reaching_defs(cfg, blob_name.id)[e.node.id]] if isinstance(blob_name, ast.Name) else [e.node.id]
        ok, found = True, []
        for dn in dnodes:
            for d in reaching_defs(cfg, tree_var)[dn]:
                v = def_value(cfg.nodes[d], tree_var) if d != cfg.entry else None
                txt = norm(v) if v is not None else "<unknown>"
                found.append(txt)
                if not (isinstance(v, ast.Call) and call_name(v) == "_parse" and len(v.args) == 1 and is_name(v.args[0], pc.txt_param)):
                    ok = False
        rep.ob(R, SITE_PARSE, "execute:" + e.detail, ok and bool(found),
               "the pickled object must be _parse(%s) on every path; reaching definitions: %s" % (pc.txt_param, sorted(set(found))),
               tree_var=tree_var)
        rep.extra["tree_var"] = tree_var
    # hit path: loads(<var>) where <var> is unpacked from the fetch of the lookup SELECT
    loads = [n for n in cfg.nodes if n.kind == "stmt" and any(call_name(c) == "pickle.loads" for c in calls(n.ast))]
    if not loads:
        raise MechanismMissing(R, "pickle.loads site not found in parse()")
    for n in loads:
        c = [c for c in calls(n.ast) if call_name(c) == "pickle.loads"][0]
        arg = c.args[0] if c.args else None
        ok, why = False, "argument of pickle.loads is not a local variable"
        if isinstance(arg, ast.Name):
            why = "cannot trace %s back to the lookup SELECT" % arg.id
            for d in reaching_defs(cfg, arg.id)[n.id]:
                dn = cfg.nodes[d]
                a = dn.ast
                if dn.kind == "stmt" and isinstance(a, ast.Assign) and isinstance(a.targets[0], (ast.Tuple, ast.List)):
                    names = [t.id if isinstance(t, ast.Name) else None for t in a.targets[0].elts]
                    pos = names.index(arg.id)
                    # closest dominating SELECT
                    dom = cfg.dominators()[dn.id]
                    cands = [e for e in sel if e.node.id in dom]
                    if cands:
                        e = max(cands, key=lambda ev: len(cfg.dominators()[ev.node.id]))
                        sc = select_columns(e.detail)
                        ok = pos < len(sc) and sc[pos] == blob_col and len(sc) == len(names)
                        why = "unpacked position %d of SELECT columns %s must be the stored blob column %r" % (pos, sc, blob_col)
                elif dn.kind == "stmt" and isinstance(a, ast.Assign) and isinstance(a.value, ast.Subscript):
                    idx = literal(a.value.slice)
                    dom = cfg.dominators()[dn.id]
                    cands = [e for e in sel if e.node.id in dom]
                    if cands and isinstance(idx, int):
                        e = max(cands, key=lambda ev: len(cfg.dominators()[ev.node.id]))
                        sc = select_columns(e.detail)
                        ok = idx < len(sc) and sc[idx] == blob_col
                        why = "index %d of SELECT columns %s must be the stored blob column %r" % (idx, sc, blob_col)
        rep.ob(R, SITE_PARSE, "pickle.loads(" + (norm(arg) if arg is not None else "") + ")", ok, why)
    rep.require_instances(R, 2, "data sites (INSERT blob, loads)")


def _is_none_test(test, var):
    """(polarity) for `var is None` (True) / `var is not None` (False); else None."""
    if isinstance(test, ast.Compare) and len(test.ops) == 1 and is_name(test.left, var):
        c = test.comparators[0]
        if isinstance(c, ast.Constant) and c.value is None:
            if isinstance(test.ops[0], (ast.Is, ast.Eq)):
                return True
            if isinstance(test.ops[0], (ast.IsNot, ast.NotEq)):
                return False
    if isinstance(test, ast.UnaryOp) and isinstance(test.op, ast.Not) and is_name(test.operand, var):
        return True  # `not tree` is true for None (and nothing else a Tree can be)
    if is_name(test, var):
        return False
    return None


def _tree_var(pc, rep, R):
    cfg = pc.parse_cfg
    sel, upd, ins = _models_events(pc)
    for e in ins:
        cols = insert_columns(e.detail)
        kinds = _bound_kinds(pc, cfg, e) or []
        for k in kinds:
            if k.startswith("blob:"):
                return k.split(":", 1)[1], e
    raise MechanismMissing(R, "INSERT of a pickled tree not found")


@SPEC.rule(
    "R01.3",
    "None is never stored or served: the INSERT is dominated by the branch `tree is not None` with no re-definition "
    "in between; every path from the unpickled value to `return tree` passes the `tree is None` test whose true "
    "branch re-parses",
)
def r01_3(ctx, rep):
    R = "R01.3"
    pc = get(ctx, R)
    cfg = pc.parse_cfg
    var, ins = _tree_var(pc, rep, R)
    # (a) INSERT guarded
    guards = cfg.dominated_by(
        ins.node.id,
        lambda n: n.kind == "assume" and _is_none_test(n.ast, var) is not None and (_is_none_test(n.ast, var) != n.taken),
    )
    ok = False
    rd = reaching_defs(cfg, var)
    for g in guards:
        if rd[g.id] == rd[ins.node.id]:
            ok = True
    # the dumps() may be evaluated in an earlier statement than the execute
    dumps_nodes = [n for n in cfg.nodes if n.kind == "stmt" and any(call_name(c) == "pickle.dumps" for c in calls(n.ast))]
    ok_d = True
    for dn in dumps_nodes:
        g2 = cfg.dominated_by(dn.id, lambda n: n.kind == "assume" and _is_none_test(n.ast, var) is not None and (_is_none_test(n.ast, var) != n.taken))
        if not any(rd[g.id] == rd[dn.id] for g in g2):
            ok_d = False
    rep.ob(R, SITE_PARSE, "execute:" + ins.detail, ok and ok_d,
           "INSERT (and pickle.dumps) must be dominated by the true branch of `%s is not None` with the same reaching definitions of %s" % (var, var))
    # (b) served value re-checked
    pol = lambda t: _is_none_test(t, var)  # noqa: E731
    loads = [n for n in cfg.nodes if n.kind == "stmt" and def_value(n, var) is not None and call_name(def_value(n, var)) == "pickle.loads"]
    rets = [n for n in cfg.nodes if n.kind == "stmt" and isinstance(n.ast, ast.Return) and is_name(n.ast.value, var)]
    tests = {n.id for n in cfg.nodes if n.kind == "test" and _is_none_test(n.ast, var) is not None}
    reparse = {n.id for n in cfg.nodes if n.kind == "stmt" and def_value(n, var) is not None
               and call_name(def_value(n, var)) == "_parse"}
    for ln in loads:
        for s_ in cfg.succ[ln.id]:
            if cfg.nodes[s_].kind == "handler" or s_ in tests:
                continue
            reach, prev = explore_defs(cfg, var, pol, src=s_, src_defs={ln.id}, avoid=tests)
            hit = [r for r in rets if r.id in reach and reach[r.id]]
            w = witness(cfg, prev, hit[0].id) if hit else None
            rep.ob(R, SITE_PARSE, "served:" + norm(ln.ast), not hit,
                   "every path from the unpickled value to `return %s` must pass a `%s is None` test" % (var, var),
                   path=cfg.describe(w) if w else "")
    # the None branch re-parses: for every None-test reached by a value that is not yet a fresh parse
    full, _ = explore_defs(cfg, var, pol)
    for t in sorted(tests):
        stale = {d for d in full.get(t, set()) if d not in reparse}
        if not stale:
            continue
        p_ = _is_none_test(cfg.nodes[t].ast, var)
        for a in cfg.succ[t]:
            an = cfg.nodes[a]
            if an.kind == "assume" and an.taken == p_:
                reach, prev = explore_defs(cfg, var, pol, src=a, src_defs=stale, avoid=reparse)
                bad = [x for x in (cfg.exit,) if x in reach and reach[x]]
                w = witness(cfg, prev, cfg.exit) if bad else None
                rep.ob(R, SITE_PARSE, "fallback:" + norm(cfg.nodes[t].ast), not bad,
                       "when %s is None every path to a normal return must re-parse with _parse(%s)" % (var, pc.txt_param),
                       path=cfg.describe(w) if w else "")
    rep.require_instances(R, 3, "None-discipline sites")


@SPEC.rule(
    "R01.4",
    "every return of parse() yields _parse(txt) itself, or a variable whose reaching definitions are only "
    "_parse(txt) / pickle.loads(<cache blob>); bypass returns (bypass_cache, .dirty version) happen before any "
    "sqlite3.connect",
)
def r01_4(ctx, rep):
    R = "R01.4"
    pc = get(ctx, R)
    cfg = pc.parse_cfg
    connects = [e.node.id for e in pc.events("parse", "connect")]
    after_connect = set()
    for c in connects:
        after_connect |= cfg.reachable(c)
    rets = [n for n in cfg.nodes if n.kind == "stmt" and isinstance(n.ast, ast.Return)]
    n_bypass = 0
    for r in rets:
        v = r.ast.value
        key = "return " + (norm(v) if v is not None else "")
        if isinstance(v, ast.Call) and call_name(v) == "_parse" and len(v.args) == 1 and is_name(v.args[0], pc.txt_param):
            pure = r.id not in after_connect
            n_bypass += 1
            guard = [g.text() for g in cfg.dominated_by(r.id, lambda n: n.kind == "assume" and n.taken)]
            rep.ob(R, SITE_PARSE, key + " | " + (guard[-1] if guard else "unguarded"), pure,
                   "bypass return must not be preceded by a database connection")
        elif isinstance(v, ast.Name):
            bad = []
            full, _prev = explore_defs(cfg, v.id, lambda t, _v=v.id: _is_none_test(t, _v))
            for d in sorted(full.get(r.id, set())):
                val = def_value(cfg.nodes[d], v.id) if d != cfg.entry else None
                cn = call_name(val) if isinstance(val, ast.Call) else None
                if cn == "_parse" and len(val.args) == 1 and is_name(val.args[0], pc.txt_param):
                    continue
                if cn == "pickle.loads":
                    continue
                bad.append(norm(val) if val is not None else "<unknown def>")
            rep.ob(R, SITE_PARSE, key, not bad,
                   "returned variable may hold %s; allowed: _parse(%s) or the unpickled cache entry" % (bad, pc.txt_param))
        else:
            rep.ob(R, SITE_PARSE, key, False, "return value is neither a fresh parse nor the cache entry")
    # the dirty-version bypass exists
    dirty = [
        n for n in cfg.nodes
        if n.kind == "assume" and n.taken and any(
            isinstance(c.func, ast.Attribute) and c.func.attr == "endswith" and c.args and const_str(c.args[0]) == ".dirty"
            for c in calls(n.ast)
        )
    ]
    ok = False
    for d in dirty:
        for r in rets:
            v = r.ast.value
            if d.id in cfg.dominators()[r.id] and isinstance(v, ast.Call) and call_name(v) == "_parse" and r.id not in after_connect:
                ok = True
    rep.ob(R, SITE_PARSE, "dirty-version bypass", ok,
           "a version ending in '.dirty' cannot identify the code; parse() must return _parse(txt) before touching the cache")
    rep.require_instances(R, 3, "return sites")


PICKLE_FAILURES = [pickle.UnpicklingError, EOFError, AttributeError, ImportError, IndexError]


@SPEC.rule(
    "R01.5",
    "the try around pickle.loads(<cache blob>) catches UnpicklingError, EOFError, AttributeError, ImportError and "
    "IndexError (or a superclass) and every handler continues to the fresh-parse branch",
)
def r01_5(ctx, rep):
    R = "R01.5"
    pc = get(ctx, R)
    cfg = pc.parse_cfg
    var, _ins = _tree_var(pc, rep, R)
    loads = [n for n in cfg.nodes if n.kind == "stmt" and any(call_name(c) == "pickle.loads" for c in calls(n.ast))]
    if not loads:
        raise MechanismMissing(R, "pickle.loads site not found")
    for ln in loads:
        hs = [cfg.nodes[s] for s in cfg.succ[ln.id] if cfg.nodes[s].kind == "handler"]
        classes, unknown = [], []
        for h in hs:
            c, u = handler_classes(h.ast)
            classes += c
            unknown += u
        missing = [e.__name__ for e in PICKLE_FAILURES if not covers(classes, e)]
        rep.ob(R, SITE_PARSE, "try:" + norm(ln.ast), not missing,
               "handlers %s do not cover %s (a stored blob that is empty, truncated or names a moved class raises these)"
               % ([c.__name__ for c in classes] + unknown, missing))
        reparse = {n.id for n in cfg.nodes if n.kind == "stmt" and def_value(n, var) is not None
                   and call_name(def_value(n, var)) == "_parse"}
        pol = lambda t: _is_none_test(t, var)  # noqa: E731
        full, _ = explore_defs(cfg, var, pol)
        for h in hs:
            reach, prev = explore_defs(cfg, var, pol, src=h.id, src_defs=full.get(h.id, set()), avoid=reparse)
            leaves = [x for x in (cfg.exit, cfg.raise_exit) if x in reach and reach[x]]
            w = witness(cfg, prev, leaves[0]) if leaves else None
            rep.ob(R, SITE_PARSE, "handler:" + h.text(), not leaves,
                   "after a failed unpickle every path must reach _parse(%s) (no return / re-raise before)" % pc.txt_param,
                   path=cfg.describe(w) if w else "")
    rep.require_instances(R, 1, "unpickle sites")


@SPEC.rule(
    "R01.6",
    "database initialisation: integrity check result compared with ('ok',) and failure raised into a handler that "
    "covers sqlite3.DatabaseError and closes, removes the file and reconnects (in that order); "
    "_check_database_structure is passed on every path from the integrity check to any statement on table models",
)
def r01_6(ctx, rep):
    R = "R01.6"
    pc = get(ctx, R)
    cfg = pc.parse_cfg
    integ = [e for e in pc.events("parse", "read") if "INTEGRITY_CHECK" in e.detail.upper()]
    if not integ:
        raise MechanismMissing(R, "PRAGMA integrity_check not found in parse()")
    first_connect = pc.events("parse", "connect")
    path_expr = norm(first_connect[0].call.args[0]) if first_connect and first_connect[0].call.args else None
    for e in integ:
        hs = [cfg.nodes[s] for s in cfg.succ[e.node.id] if cfg.nodes[s].kind == "handler"]
        classes = []
        for h in hs:
            classes += handler_classes(h.ast)[0]
        rep.ob(R, SITE_PARSE, "try:PRAGMA integrity_check", covers(classes, sqlite3.DatabaseError),
               "the integrity check must run inside a try whose handler covers sqlite3.DatabaseError (found %s)" % [c.__name__ for c in classes])
        # result compared with ("ok",) and raised
        tryst = None
        p = getattr(e.call, "_parent", None)
        while p is not None and not isinstance(p, ast.Try):
            p = getattr(p, "_parent", None)
        tryst = p
        cmp_ok = False
        if tryst is not None:
            for st in ast.walk(ast.Module(body=tryst.body, type_ignores=[])):
                if isinstance(st, ast.If) and isinstance(st.test, ast.Compare):
                    consts = [literal(x) for x in [st.test.left] + st.test.comparators]
                    if ("ok",) in consts and isinstance(st.test.ops[0], (ast.NotEq, ast.IsNot)):
                        if any(isinstance(x, ast.Raise) for x in ast.walk(st)):
                            cmp_ok = True
        rep.ob(R, SITE_PARSE, "integrity result == ('ok',)", cmp_ok,
               "the fetched integrity result must be compared with ('ok',) and a mismatch raised into the recovery handler")
        # recovery: close, remove, reconnect in order
        for h in hs:
            seq = []
            for st in h.ast.body:
                for c in calls(st):
                    m = method_name(c)
                    cn = call_name(c) or ""
                    if m == "close":
                        seq.append("close")
                    elif cn in ("os.remove", "os.unlink") or m == "unlink":
                        seq.append("remove:" + (norm(c.args[0]) if c.args else norm(c.func.value)))
                    elif cn == "sqlite3.connect":
                        seq.append("connect:" + (norm(c.args[0]) if c.args else ""))
            want = ["close", "remove:%s" % path_expr, "connect:%s" % path_expr]
            filt = [s for s in seq if s.split(":")[0] in ("close", "remove", "connect")]
            rep.ob(R, SITE_PARSE, "recovery:" + h.text(), filt == want,
                   "recovery handler must close the connection, remove %s and reconnect to it, in that order; found %s" % (path_expr, filt))
        # structure check before models
        struct_calls = {n.id for n in pc.parse_calls("_check_database_structure")}
        models_nodes = [ev.node.id for ev in pc.events("parse") if ev.kind in ("read", "write") and table_of(ev.detail) in ("models", "metadata")]
        bad = None
        for m in models_nodes:
            w = cfg.must_pass(e.node.id, m, struct_calls)
            if w is not None:
                bad = w
                break
        rep.ob(R, SITE_PARSE, "structure check before use", bool(struct_calls) and bad is None,
               "every path from the integrity check to a statement on models/metadata must call _check_database_structure",
               path=cfg.describe(bad) if bad else "")
    rep.require_instances(R, 4, "initialisation obligations")


@SPEC.rule(
    "R01.8",
    "layout check agrees with the layout it creates: for each table the expected_columns literal equals what the "
    "CREATE TABLE literal declares (cid, name, type, notnull, default, pk position) and the not-correct branch "
    "drops and re-creates that table",
)
def r01_8(ctx, rep):
    R = "R01.8"
    pc = get(ctx, R)
    fn = pc.struct_fn
    creates = {}
    for e in pc.events("struct", "write"):
        if e.detail.upper().startswith("CREATE TABLE"):
            lay = create_table_layout(e.detail)
            if lay:
                creates[lay[0]] = (lay[1], e)
    infos = [e for e in pc.events("struct", "read") if "TABLE_INFO" in e.detail.upper()]
    if not infos:
        raise MechanismMissing(R, "PRAGMA table_info not found")
    cfg = pc.struct_cfg
    for e in infos:
        table = table_of(e.detail)
        # the list-of-tuples literal compared with the fetched columns, in the same block
        st = e.call
        while st is not None and not isinstance(st, ast.stmt):
            st = getattr(st, "_parent", None)
        from ..pyutil import stmt_list_of

        block = stmt_list_of(st) or []
        expected = None
        for s in block:
            if isinstance(s, ast.Assign) and isinstance(s.value, ast.List) and s.value.elts and all(isinstance(x, ast.Tuple) for x in s.value.elts):
                expected = literal(s.value)
        if expected is None:
            # the layout written in place (or kept as a module constant, which the engine puts back where it is read): `columns != [(0, ...), ...]`
            for s in block:
                for c_ in ast.walk(s.test if isinstance(s, ast.If) else s.value if isinstance(s, ast.Assign) else ast.Pass()):
                    if isinstance(c_, ast.Compare):
                        for o_ in [c_.left] + list(c_.comparators):
                            if isinstance(o_, ast.List) and o_.elts and all(isinstance(x, ast.Tuple) for x in o_.elts) and expected is None:
                                expected = literal(o_)
        if table not in creates:
            rep.ob(R, SITE_STRUCT, "layout:" + str(table), False, "no CREATE TABLE literal for checked table %s" % table)
            continue
        want = creates[table][0]
        rep.ob(R, SITE_STRUCT, "layout:" + table, expected == want,
               "expected_columns %s must equal the layout CREATE TABLE declares %s" % (expected, want))
        # DROP then CREATE on the not-correct path
        drops = [ev for ev in pc.events("struct", "write") if ev.detail.upper().startswith("DROP TABLE") and table_of(ev.detail) == table]
        ce = creates[table][1]
        ok = bool(drops) and all("IF EXISTS" in d.detail.upper() for d in drops) and any(
            d.node.id in cfg.dominators()[ce.node.id] for d in drops
        )
        rep.ob(R, SITE_STRUCT, "recreate:" + table, ok,
               "the re-creation of %s must be dominated by DROP TABLE IF EXISTS %s" % (table, table))
    rep.require_instances(R, 4, "layout obligations (2 tables)")


@SPEC.rule(
    "R01.7",
    "storage errors do not escape: every SQL statement of parse() that is reachable without passing the integrity "
    "check of the same call lies in a try whose handlers cover sqlite3.Error and continue to _parse(txt)",
)
def r01_7(ctx, rep):
    R = "R01.7"
    pc = get(ctx, R)
    cfg = pc.parse_cfg
    integ = {e.node.id for e in pc.events("parse", "read") if "INTEGRITY_CHECK" in e.detail.upper()}
    reach_skip = cfg.reachable(cfg.entry, avoid=integ)
    # group by transaction: BEGIN .. commit
    txns = {}
    cur = None
    for e in pc.events("parse"):
        if e.kind == "begin":
            cur = e
            txns[id(cur)] = [e]
        elif e.kind in ("read", "write", "commit", "dynamic-sql") and cur is not None:
            txns[id(cur)].append(e)
            if e.kind == "commit":
                cur = None
    n = 0
    for evs in txns.values():
        if not any(e.node.id in reach_skip for e in evs):
            continue
        body = [e for e in evs if e.kind in ("read", "write")]
        name = sql_norm(body[0].detail) if body else "empty"
        unprotected = []
        for e in evs:
            hs = [cfg.nodes[s] for s in cfg.succ[e.node.id] if cfg.nodes[s].kind == "handler"]
            classes = []
            for h in hs:
                classes += handler_classes(h.ast)[0]
            if not covers(classes, sqlite3.Error):
                unprotected.append(e.kind if e.kind in ("begin", "commit") else sql_norm(e.detail)[:30])
        n += 1
        rep.ob(R, SITE_PARSE, "txn:" + name, not unprotected,
               "statements %s run outside any handler for sqlite3.Error; a database file removed or corrupted "
               "after this process initialised it makes parse() raise instead of parsing" % unprotected)
    if n < 2:
        raise MechanismMissing(R, "fewer than 2 cache transactions found on the initialised path")


@SPEC.rule(
    "R01.9",
    "a syntax error is any input the grammar does not derive completely: _parse() rejects (returns None before building "
    "the tree) when the error listener fired — and that listener is attached to the LEXER as well as to the parser (the "
    "lexer's default listener only prints 'token recognition error' and drops the character) — and when input is left "
    "over after the entry rule (the rule stored_definition does not end in EOF, so either the grammar rule must, or "
    "_parse must compare the next token with Token.EOF)",
)
def r01_9(ctx, rep):
    from ..cfg import CFG
    from ..grammar import parse_grammar
    R = "R01.9"
    fn = ctx.func(PARSER, "_parse", R)
    site = PARSER + ":_parse"
    cfg = CFG(fn, R)

    def bound(suffix):
        return {st.targets[0].id for st in walk_local(fn) if isinstance(st, ast.Assign) and isinstance(st.targets[0], ast.Name)
                and isinstance(st.value, ast.Call) and (call_name(st.value) or "").endswith(suffix)}

    lexers, parsers, listeners = bound("Lexer"), bound("ModelicaParser"), bound("ErrorListener")
    if not parsers or not listeners:
        raise MechanismMissing(R, "_parse no longer creates parser / error listener")
    # a lexer that is not bound to a name (created in place) cannot have a listener attached: the obligation below fails for it
    entry = [x for x in cfg.stmts() if isinstance(x.ast, ast.Assign) and isinstance(x.ast.value, ast.Call) and isinstance(x.ast.value.func, ast.Attribute)
             and isinstance(x.ast.value.func.value, ast.Name) and x.ast.value.func.value.id in parsers and not x.ast.value.args
             and x.ast.value.func.attr not in ("addErrorListener", "removeErrorListeners")]
    if not entry:
        raise MechanismMissing(R, "call of the grammar's entry rule not found in _parse")
    entry_rule = entry[0].ast.value.func.attr
    for kind, objs in (("parser", parsers), ("lexer", lexers)):
        adds = [x for x in cfg.stmts() if any(isinstance(c.func, ast.Attribute) and c.func.attr == "addErrorListener" and isinstance(c.func.value, ast.Name)
                                              and c.func.value.id in objs and c.args and isinstance(c.args[0], ast.Name) and c.args[0].id in listeners
                                              for c in calls(x.ast))]
        ok = bool(adds) and all(any(a.id in cfg.dominators()[e.id] for a in adds) for e in entry)
        rep.ob(R, site, "error listener attached to the %s" % kind, ok,
               "the recording error listener is not attached to the %s before the entry rule runs: %s" % (
                   kind, "a character the lexer cannot tokenise is printed and dropped, and the damaged text is parsed (and cached) as if it were valid"
                   if kind == "lexer" else "syntax errors are not recorded"))
    # the listener records EVERY reported error: syntaxError() sets its flag on every path (the lexer reports with
    # offendingSymbol=None, the parser with a token)
    lcls = None
    for st in walk_local(fn):
        if isinstance(st, ast.Assign) and isinstance(st.targets[0], ast.Name) and st.targets[0].id in listeners and isinstance(st.value, ast.Call):
            lcls = (call_name(st.value) or "").split(".")[-1]
    se = ctx.find(PARSER, "%s.syntaxError" % lcls) if lcls else None
    if isinstance(se, ast.FunctionDef):
        c2 = CFG(se, R)
        sets = {x.id for x in c2.stmts() if isinstance(x.ast, ast.Assign) and isinstance(x.ast.targets[0], ast.Attribute) and is_name(x.ast.targets[0].value, se.args.args[0].arg)
                and isinstance(x.ast.value, ast.Constant) and x.ast.value.value is True}
        w = c2.must_pass(c2.entry, c2.exit, sets) if sets else [c2.nodes[c2.entry]]
        rep.ob(R, PARSER + ":%s.syntaxError" % lcls, "every reported error sets the flag", bool(sets) and w is None,
               "syntaxError() can return without setting the error flag (e.g. only when offendingSymbol is not None — the lexer passes None): "
               "lexical errors are then reported but not recorded", path=c2.describe(w) if w else "")
    else:
        rep.ob(R, site, "error listener has a syntaxError method", False, "class %s with a syntaxError method not found" % lcls)
    walks = [x for x in cfg.stmts() if any(method_name(c) == "walk" and isinstance(c.func, ast.Attribute) for c in calls(x.ast))]

    def err_test(x):
        return x.kind == "assume" and not x.taken and any(
            isinstance(a, ast.Attribute) and a.attr == "error" and isinstance(a.value, ast.Name) and a.value.id in listeners for a in ast.walk(x.ast))

    ok = bool(walks) and all(cfg.dominated_by(w.id, err_test) for w in walks)
    rep.ob(R, site, "recorded error rejects before the tree is built", ok, "the AST listener may only walk the parse tree on the `not listener.error` branch")
    rules = parse_grammar(ctx.read("src/pymoca/Modelica.g4", R))
    g_eof = False
    if entry_rule in rules:
        g_eof = all(a.elems and a.elems[-1].kind == "token" and a.elems[-1].value == "EOF" for a in rules[entry_rule].alts)

    def eof_test(x):
        if x.kind != "assume" or x.taken:
            return False
        for c in ast.walk(x.ast):
            if isinstance(c, ast.Compare) and len(c.ops) == 1 and isinstance(c.ops[0], ast.NotEq) and \
                    any(isinstance(a, ast.Attribute) and a.attr == "EOF" for a in ast.walk(c)) and any(
                        isinstance(k, ast.Call) and isinstance(k.func, ast.Attribute) and k.func.attr in ("LA", "LT") for k in ast.walk(c)):
                return True
        return False

    code_eof = bool(walks) and all(cfg.dominated_by(w.id, eof_test) for w in walks)
    rep.ob(R, site, "whole input consumed", g_eof or code_eof,
           "entry rule `%s` does not end in EOF and _parse does not compare the next token with Token.EOF: text after the last complete "
           "class (`model A end A; garbage`, a lone `)`) is ignored, a tree is returned and cached" % entry_rule)


@SPEC.rule(
    "R01.14",
    "a table is kept only when its whole layout is the expected one: in _check_database_structure the column list fetched with PRAGMA "
    "table_info is compared with the expected list as a whole (`==` / `!=` on the two lists — length included), and the verdict is set to "
    "`correct` only where that comparison is known to have come out equal; a column-by-column walk over zip() of the two stops at the shorter "
    "list and accepts a table that lacks a column",
)
def r01_14(ctx, rep):
    from ..cfg import CFG, assume_truth, must_facts
    R = "R01.14"
    fn = ctx.func(PARSER, "_check_database_structure", R)
    site = PARSER + ":_check_database_structure"
    cfg = CFG(fn, R)
    # (fetched-columns variable, expected-layout variable) per table_info query: the fetchall() after the PRAGMA, and the list-of-tuples literal
    fetched, expected = [], []
    for st in walk_local(fn):
        if isinstance(st, ast.Assign) and isinstance(st.targets[0], ast.Name):
            if isinstance(st.value, ast.Call) and method_name(st.value) == "fetchall":
                fetched.append(st.targets[0].id)
            if isinstance(st.value, ast.List) and st.value.elts and all(isinstance(x, ast.Tuple) for x in st.value.elts):
                expected.append(st.targets[0].id)
    # ... or the layout literal written in the comparison itself
    for c in ast.walk(fn):
        if isinstance(c, ast.Compare):
            for o_ in [c.left] + list(c.comparators):
                if isinstance(o_, ast.List) and o_.elts and all(isinstance(x, ast.Tuple) for x in o_.elts):
                    expected.append(norm(o_))
    fetched, expected = sorted(set(fetched)), sorted(set(expected))
    if not fetched or not expected:
        raise MechanismMissing(R, "fetched column list / expected layout literal not found in _check_database_structure")
    tests = [x for x in cfg.nodes if x.kind in ("test", "stmt") and x.ast is not None and not isinstance(x.ast, (ast.If, ast.For, ast.While, ast.With, ast.Try, ast.FunctionDef)) and any(
        isinstance(c, ast.Compare) and len(c.ops) == 1 and isinstance(c.ops[0], (ast.Eq, ast.NotEq)) and {norm(c.left), norm(c.comparators[0])} <= set(fetched) | set(expected)
        and norm(c.left) != norm(c.comparators[0]) and (norm(c.left) in fetched) != (norm(c.comparators[0]) in fetched) for c in ast.walk(x.ast))]
    rep.ob(R, site, "the fetched layout is compared with the expected one as a whole", len(tests) >= 1,
           "no test compares the list fetched by PRAGMA table_info (%s) with the expected layout (%s) as whole lists" % (fetched, expected))
    pairs = [(f, e) for f in fetched for e in expected]

    def transfer(node, facts):
        if node.kind == "assume":
            for f, e in pairs:
                for q in ("%s == %s" % (f, e), "%s == %s" % (e, f)):
                    t = assume_truth(node, q)
                    if t is True:
                        facts = facts | {"equal"}
                    elif t is False:
                        facts = facts - {"equal"}
        if node.kind == "stmt" and isinstance(node.ast, ast.Assign) and any(isinstance(t, ast.Name) and t.id in fetched for t in node.ast.targets):
            facts = facts - {"equal"}
        return facts

    IN = must_facts(cfg, transfer)
    n = 0
    # the verdict variables: what the tests in front of the CREATE TABLE statements read
    dom = cfg.dominators()
    creates = [x for x in cfg.stmts() if any(method_name(c) == "execute" and c.args and (const_str(c.args[0]) or "").strip().upper().startswith("CREATE TABLE")
                                            for c in calls(x.ast))]
    verdicts = {nm.id for c_ in creates for g in cfg.nodes if g.kind == "assume" and g.id in dom[c_.id] for nm in ast.walk(g.ast) if isinstance(nm, ast.Name)}
    for x in cfg.stmts():
        if isinstance(x.ast, ast.Assign) and isinstance(x.ast.targets[0], ast.Name) and x.ast.targets[0].id in verdicts and x in tests:
            n += 1  # the verdict IS the whole-list comparison
            continue
        if isinstance(x.ast, ast.Assign) and isinstance(x.ast.targets[0], ast.Name) and isinstance(x.ast.value, ast.Constant) and x.ast.value.value is True \
                and x.ast.targets[0].id in verdicts:
            n += 1
            rep.ob(R, site, "`%s` only where the layouts are equal" % norm(x.ast), "equal" in (IN.get(x.id) or frozenset()),
                   "the table is declared correct on a path on which the whole-list comparison of the fetched and the expected layout is not known "
                   "to be equal: a table with a missing (or an extra) column is kept, and the statements that use the column fail later")
    if n < 1:
        raise MechanismMissing(R, "no assignment of a positive verdict (a variable the CREATE TABLE guards read) found in _check_database_structure")


@SPEC.rule(
    "R01.15",
    "a modified checkout is always recognisable: every path through _version.render_pep440 on which pieces['dirty'] is not known to be false "
    "appends '.dirty' to the version — the cache bypass of parse() hangs on that suffix, and a modified tree that sits exactly on a tag would "
    "otherwise fill and read the cache under the release's key",
)
def r01_15(ctx, rep):
    from ..cfg import CFG, assume_truth
    R = "R01.15"
    VER = "src/pymoca/_version.py"
    fn = ctx.func(VER, "render_pep440", R)
    cfg = CFG(fn, R)
    marks = {x.id for x in cfg.stmts() if any(isinstance(c, ast.Constant) and isinstance(c.value, str) and ".dirty" in c.value for c in ast.walk(x.ast))
             and isinstance(x.ast, (ast.Assign, ast.AugAssign))}
    if not marks:
        raise MechanismMissing(R, "render_pep440 never appends '.dirty'")
    clean = {x.id for x in cfg.nodes if x.kind == "assume" and assume_truth(x, "pieces['dirty']") is False}
    w = cfg.path(cfg.entry, cfg.exit, avoid=marks | clean)
    rep.ob(R, VER + ":render_pep440", "a dirty tree is rendered with the .dirty suffix", w is None,
           "a version can be rendered without '.dirty' on a path that has not established that the tree is clean", path=cfg.describe(w) if w else "")


@SPEC.rule(
    "R01.10",
    "each table's verdict is its own: in _check_database_structure the test that decides whether table T is (re)created reads "
    "only variables whose reaching definitions all lie after T's own existence query (SELECT ... FROM sqlite_master ... name='T') — "
    "a verdict carried over from the previous table's block would leave a missing T uncreated whenever that table was correct",
)
def r01_10(ctx, rep):
    table_verdicts(ctx, rep, "R01.10")


def table_verdicts(ctx, rep, R):
    from ..cfg import CFG
    fn = ctx.func(PARSER, "_check_database_structure", R)
    site = PARSER + ":_check_database_structure"
    cfg = CFG(fn, R)
    import re as _re

    def sql_of(x):
        if x.kind != "stmt" or isinstance(x.ast, (ast.FunctionDef, ast.ClassDef)):
            return None
        for c in calls(x.ast):
            if method_name(c) == "execute" and c.args and const_str(c.args[0]) is not None:
                return " ".join(const_str(c.args[0]).split())
        return None

    queries, creates = {}, {}
    for x in cfg.nodes:
        q = sql_of(x)
        if not q:
            continue
        m = _re.search(r"FROM sqlite_master .*name\s*=\s*'(\w+)'", q, _re.I)
        if m:
            queries.setdefault(m.group(1), x)
        m = _re.match(r"CREATE TABLE (?:IF NOT EXISTS )?(\w+)", q, _re.I)
        if m:
            creates.setdefault(m.group(1), x)
    if len(queries) < 2 or len(creates) < 2:
        raise MechanismMissing(R, "existence queries / CREATE TABLE statements of the two cache tables not found")
    for t in sorted(queries):
        w = cfg.must_pass(cfg.entry, cfg.exit, {queries[t].id})
        rep.ob(R, site, "table %s is looked at on every path" % t, w is None,
               "_check_database_structure can return without querying sqlite_master for `%s` (an early return after the other table): a database "
               "in which only that table is missing or wrong is accepted, and every later statement on it fails" % t, path=cfg.describe(w) if w else "")
    dom = cfg.dominators()
    for t in sorted(creates):
        if t not in queries:
            rep.ob(R, site, "table %s: existence is queried" % t, False, "table %s is created but its existence is never looked up in sqlite_master" % t)
            continue
        qn, cn = queries[t], creates[t]
        guards = [g for g in cfg.nodes if g.kind == "assume" and g.id in dom[cn.id] and qn.id in dom[g.id]]
        names = sorted({n.id for g in guards for n in ast.walk(g.ast) if isinstance(n, ast.Name)})
        if not guards or not names:
            rep.ob(R, site, "table %s: creation decided by its own verdict" % t, False,
                   "CREATE TABLE %s is not guarded by a test evaluated after the existence query of %s" % (t, t))
            continue
        stale = []
        for g in guards:
            for v in {n.id for n in ast.walk(g.ast) if isinstance(n, ast.Name)}:
                for d in reaching_defs(cfg, v).get(g.id, ()):
                    if d == cfg.entry:
                        continue
                    if qn.id not in dom[d]:
                        stale.append("%s (bound by `%s`)" % (v, cfg.nodes[d].text()[:50]))
        rep.ob(R, site, "table %s: creation decided by its own verdict" % t, not stale,
               "the test that guards CREATE TABLE %s reads %s, whose value can still come from before the existence query of %s: when that "
               "earlier value says 'correct', a missing %s table is never created and every later parse() fails with 'no such table'"
               % (t, sorted(set(stale)), t, t))


# ---------------------------------------------------------------------------
# seeded variants (thorough tier)

@SPEC.rule(
    "R01.11",
    "the on-disk cache is the only memory: no function of parser.py writes a module-level or class-level container, is wrapped in a "
    "caching decorator or keeps a mutable default — an in-process memo in front of the database (keyed by the text, its hash, its "
    "length) would serve trees without the version / integrity / failed-parse discipline the database path is checked for",
)
def r01_11(ctx, rep):
    from .c25 import module_state_free
    module_state_free(ctx, rep, "R01.11", PARSER, "the parser module (parse() and the cache helpers)")


def once_per_process_key(ctx, rep, R):
    """the `checked once per process` memo of parse(): what is tested against it and what is added to it is the database that was
    connected to (the first argument of sqlite3.connect), the same expression at every site"""
    fn = ctx.func(PARSER, "parse", R)
    site = PARSER + ":parse"
    conn_args = {norm(c.args[0]) for c in ast.walk(fn) if isinstance(c, ast.Call) and (norm(c.func).endswith("sqlite3.connect") or norm(c.func) == "connect") and c.args}
    memo = None
    keys = []
    for n in ast.walk(fn):
        if isinstance(n, ast.Compare) and len(n.ops) == 1 and isinstance(n.ops[0], (ast.In, ast.NotIn)) and isinstance(n.comparators[0], ast.Attribute) \
                and norm(n.comparators[0].value) == fn.name:
            memo = n.comparators[0].attr
            keys.append(("tested", norm(n.left)))
    if memo is None:
        rep.note("%s parse() keeps no once-per-process memo: nothing to key" % R)
        return
    for n in ast.walk(fn):
        if isinstance(n, ast.Call) and isinstance(n.func, ast.Attribute) and n.func.attr in ("add", "update") and norm(n.func.value) == "%s.%s" % (fn.name, memo) and n.args:
            keys.append(("added", norm(n.args[0])))
        if isinstance(n, ast.Assign) and norm(n.targets[0]) == "%s.%s" % (fn.name, memo) and isinstance(n.value, (ast.Set, ast.List, ast.Tuple)):
            for e in n.value.elts:
                keys.append(("initialised with", norm(e)))
    distinct = {k for _w, k in keys}
    rep.ob(R, site, "the once-per-process memo is keyed by the database connected to", len(distinct) == 1 and distinct <= conn_args and any(w == "tested" for w, _k in keys) and any(w != "tested" for w, _k in keys),
           "parse.%s is %s while the connection is opened on %s: a second database in the same folder (another cache_db name) or the same name in "
           "another folder is taken as already checked — its integrity and layout check and the table creation are skipped and the first query fails"
           % (memo, ", ".join("%s %s" % k for k in keys), sorted(conn_args)))


@SPEC.rule(
    "R01.12",
    "the health check is skipped only for the database that was checked: the memo of already initialised databases is tested with, "
    "and filled with, the path handed to sqlite3.connect — not its folder, not its file name",
)
def r01_12(ctx, rep):
    once_per_process_key(ctx, rep, "R01.12")


@SPEC.rule(
    "R01.13",
    "cached and uncached parses read the same text: every call _parse(<text>) in parse() — on the bypass path, the dirty-version path and "
    "the miss path — gets the text under the same definition (the parameter as given, or one and the same normalisation of it made before "
    "the paths split); a normalisation (BOM, line ends) that only the cached path sees makes `no tree exactly when there is a syntax error` "
    "depend on whether the cache is used",
)
def r01_13(ctx, rep):
    from ..cfg import CFG, reaching_defs
    R = "R01.13"
    fn = ctx.func(PARSER, "parse", R)
    site = PARSER + ":parse"
    cfg = CFG(fn, R)
    sites = []
    for x in cfg.nodes:
        if x.kind in ("stmt", "test") and x.ast is not None and not isinstance(x.ast, (ast.FunctionDef, ast.ClassDef)):
            for c in ast.walk(x.ast):
                if isinstance(c, ast.Call) and isinstance(c.func, ast.Name) and c.func.id == "_parse" and c.args and isinstance(c.args[0], ast.Name):
                    sites.append((x, c.args[0].id))
    if len(sites) < 2:
        raise MechanismMissing(R, "expected at least two calls _parse(<text>) in parse() (bypass / miss), found %d" % len(sites))
    defs = []
    for x, v in sites:
        rd = reaching_defs(cfg, v)
        defs.append((v, frozenset(rd.get(x.id, ()))))
    same = len({d for _v, d in defs}) == 1 and len({v for v, _d in defs}) == 1
    rep.ob(R, site, "all %d calls of _parse get the text under the same definition" % len(sites), same,
           "the calls see different versions of the text: %s — what is parsed with the cache differs from what is parsed without it" %
           "; ".join("line %d: %s bound at %s" % (x.lineno, v, sorted("parameter" if d == cfg.entry else "line %d" % cfg.nodes[d].lineno for d in ds))
                     for (x, v), (_v, ds) in zip(sites, defs)))


from ._mut import (  # noqa: E402
    delete_stmt_where,
    replace_const_str,
    replace_in_func,
)


def _m_drop_version(mod):
    def f(s):
        return s.replace(" AND pymoca_version=?", "") if "SELECT last_hit" in s else None

    ok = replace_const_str(mod, "parse", f)
    if not ok:
        return None
    # also drop the bound value
    for n in ast.walk(mod):
        if isinstance(n, ast.Call) and method_name(n) == "execute" and len(n.args) == 2 and const_str(n.args[0]) and "SELECT last_hit" in const_str(n.args[0]):
            n.args[1].elts = n.args[1].elts[:1]
    return mod


SPEC.mutant("lookup without version", PARSER, "R01.1", "SELECT last_hit")(_m_drop_version)


@SPEC.mutant("cache None", PARSER, "R01.3", "INSERT")
def _m_cache_none(mod):
    def edit(fn):
        for n in ast.walk(fn):
            if isinstance(n, ast.If) and _is_none_test(n.test, "tree") is False:
                n.test = ast.Constant(value=True)
                return True
        return False

    return mod if replace_in_func(mod, "parse", edit) else None


@SPEC.mutant("hash of a prefix", PARSER, "R01.1", "hash")
def _m_hash_prefix(mod):
    def edit(fn):
        for c in ast.walk(fn):
            if isinstance(c, ast.Call) and method_name(c) == "update" and c.args:
                a = c.args[0]
                if isinstance(a, ast.Call) and isinstance(a.func, ast.Attribute) and a.func.attr == "encode":
                    a.func.value = ast.Subscript(value=a.func.value, slice=ast.Slice(upper=ast.Constant(value=4096)), ctx=ast.Load())
                    return True
        return False

    return mod if replace_in_func(mod, "_calculate_txt_hash", edit) else None


@SPEC.mutant("narrow unpickle handler", PARSER, "R01.5", "pickle.loads", needs_fixed=True)
def _m_narrow(mod):
    def edit(fn):
        for n in ast.walk(fn):
            if isinstance(n, ast.Try) and any(call_name(c) == "pickle.loads" for st in n.body for c in calls(st)):
                n.handlers[0].type = ast.parse("pickle.UnpicklingError", mode="eval").body
                return True
        return False

    return mod if replace_in_func(mod, "parse", edit) else None


@SPEC.mutant("unpickle handler returns None", PARSER, "R01.5", "handler")
def _m_handler_return(mod):
    def edit(fn):
        for n in ast.walk(fn):
            if isinstance(n, ast.Try) and any(call_name(c) == "pickle.loads" for st in n.body for c in calls(st)):
                n.handlers[0].body.append(ast.Return(value=ast.Constant(value=None)))
                return True
        return False

    return mod if replace_in_func(mod, "parse", edit) else None


@SPEC.mutant("recovery without file removal", PARSER, "R01.6", "recovery")
def _m_no_remove(mod):
    return mod if delete_stmt_where(mod, "parse", lambda st: any(call_name(c) == "os.remove" for c in calls(st))) else None


@SPEC.mutant("layout literal BLOB->TEXT", PARSER, "R01.8", "layout:models")
def _m_layout(mod):
    def edit(fn):
        for n in ast.walk(fn):
            if isinstance(n, ast.Constant) and n.value == "BLOB":
                n.value = "TEXT"
                return True
        return False

    return mod if replace_in_func(mod, "_check_database_structure", edit) else None


@SPEC.mutant("serve without None re-check", PARSER, "R01.3", "served")
def _m_early_return(mod):
    # return the unpickled tree directly from the try body
    def edit(fn):
        for n in ast.walk(fn):
            if isinstance(n, ast.Try) and any(call_name(c) == "pickle.loads" for st in n.body for c in calls(st)):
                n.body.append(ast.Return(value=ast.Name(id="tree", ctx=ast.Load())))
                return True
        return False

    return mod if replace_in_func(mod, "parse", edit) else None


@SPEC.mutant("structure check skipped", PARSER, "R01.6", "structure check")
def _m_no_struct(mod):
    return mod if delete_stmt_where(mod, "parse", lambda st: any(call_name(c) == "_check_database_structure" for c in calls(st))) else None


@SPEC.mutant("store blob of other variable", PARSER, "R01.2", "INSERT")
def _m_wrong_blob(mod):
    def edit(fn):
        for c in ast.walk(fn):
            if isinstance(c, ast.Call) and call_name(c) == "pickle.dumps":
                c.args[0] = ast.Name(id="result", ctx=ast.Load())
                return True
        return False

    return mod if replace_in_func(mod, "parse", edit) else None


@SPEC.mutant("error listener on the parser only", PARSER, "R01.9", "lexer")
def _m_lexer_listener(mod):
    return mod if delete_stmt_where(mod, "_parse", lambda st: norm(st).startswith("lexer.addErrorListener(")) else None


@SPEC.mutant("left-over input accepted", PARSER, "R01.9", "whole input")
def _m_eof(mod):
    def edit(fn):
        for n in ast.walk(fn):
            if isinstance(n, ast.If) and isinstance(n.test, ast.BoolOp) and any("EOF" in norm(v) for v in n.test.values):
                n.test = [v for v in n.test.values if "EOF" not in norm(v)][0]
                return True
        return False

    return mod if replace_in_func(mod, "_parse", edit) else None


@SPEC.mutant("initialised databases remembered by folder", PARSER, "R01.12", "memo is keyed")
def _m_memo_folder(mod):
    def edit(fn):
        hit = False
        for n in ast.walk(fn):
            if isinstance(n, ast.Compare) and "initialized_dbs" in norm(n) and isinstance(n.left, ast.Name):
                n.left = ast.Name(id="db_folder", ctx=ast.Load())
                hit = True
        return hit

    from ._mut import replace_in_func as _r
    return mod if _r(mod, "parse", edit) else None


@SPEC.mutant("text normalised on the cached path only", PARSER, "R01.13", "same definition")
def _m_norm_cached(mod):
    def edit(fn):
        for i, st in enumerate(fn.body):
            if isinstance(st, ast.Assign) and "_calculate_txt_hash" in norm(st.value):
                fn.body.insert(i, ast.parse("txt = txt.lstrip('\\ufeff')").body[0])
                return True
        return False

    from ._mut import replace_in_func as _r
    return mod if _r(mod, "parse", edit) else None


@SPEC.mutant("layout compared column by column over zip()", PARSER, "R01.14", "only where the layouts are equal")
def _m_zip_layout(mod):
    def edit(fn):
        for b in ast.walk(fn):
            for f_ in ("body", "orelse"):
                lst = getattr(b, f_, None)
                if not isinstance(lst, list):
                    continue
                for i, st in enumerate(lst):
                    if isinstance(st, ast.If) and norm(st.test) in ("columns != expected_columns", "columns == expected_columns") and "table_correct" in norm(st) \
                            and "metadata" not in norm(st):
                        lst[i:i + 1] = ast.parse("table_correct = True\nfor _c, _e in zip(columns, expected_columns):\n    if _c != _e:\n        table_correct = False\n        break").body
                        return True
        return False

    return mod if replace_in_func(mod, "_check_database_structure", edit) else None
