"""C27 — assembling a library from several files is order-independent (merge clause)."""
from __future__ import annotations

import ast

from ..engine import AnalysisError, PropertySpec, norm
from ..pyutil import call_name, calls, is_name, walk_local

AST = "src/pymoca/ast.py"
PARSER = "src/pymoca/parser.py"

CONTENT = ["symbols", "imports", "extends", "equations", "initial_equations", "statements", "initial_statements", "functions"]

SPEC = PropertySpec(
    "C27",
    "Assembling a library from several files is order-independent",
    decided=(
        "merging two class nodes of the same name cannot ignore the content of either: Class._extend, when the name "
        "exists on both sides, reads the content fields of the incoming node (symbols, imports, extends, equations, …) "
        "or adopts one node wholesale after establishing that the other is an empty placeholder; placeholder packages "
        "created for `within` clauses are empty packages; parent links are refreshed after a merge."
    ),
    not_decided="equality of flattened models across permutations (needs the flattener's semantics).",
)


@SPEC.rule(
    "R27.1",
    "merge reads both sides: in Class._extend the branch for a class name present on both sides must merge or compare "
    "the content fields of the incoming class (not only its nested classes)",
)
def r27_1(ctx, rep):
    R = "R27.1"
    fn = ctx.func(AST, "Class._extend", R)
    other = fn.args.args[1].arg
    site = AST + ":Class._extend"
    # names bound to the incoming class of the same name
    incoming = {"%s.classes[class_name]" % other}
    mentioned = set()
    helper_calls = []
    for n in ast.walk(fn):
        if isinstance(n, ast.Attribute) and n.attr in CONTENT + ["type", "partial", "encapsulated", "comment", "annotation"]:
            base = norm(n.value)
            if base == other or base.startswith(other + ".classes["):
                mentioned.add(n.attr)
        if isinstance(n, ast.Call) and isinstance(n.func, ast.Attribute) and n.func.attr not in ("_extend", "keys", "items", "values", "update"):
            helper_calls.append(n.func.attr)
    # recursion applies _extend to the nested pair: what it reads from `other` itself is what matters
    for f in CONTENT:
        rep.ob(R, site, "field " + f, f in mentioned,
               "when both trees define the same class, `%s` of the incoming definition is never looked at: if the first-merged "
               "definition is a `within` placeholder (or a partial definition), the incoming class's %s are silently dropped" % (f, f))
    rep.extra["R27.1_fields_read_from_other"] = sorted(mentioned)
    # the both-sides branch recurses, the one-side branch adopts the node
    ok = False
    for n in walk_local(fn):
        if isinstance(n, ast.If) and "in self.classes" in norm(n.test):
            ok = any("._extend(" in norm(s) for s in n.body) and any(norm(s).startswith("self.classes[") for s in n.orelse)
    rep.ob(R, site, "recursion / adoption", ok, "same name on both sides -> recurse; otherwise adopt the incoming class")


@SPEC.rule("R27.2", "placeholder packages for `within` are empty packages named by the within path, the file's classes go into the innermost one, and Tree.extend refreshes parent links")
def r27_2(ctx, rep):
    R = "R27.2"
    fn = ctx.func(PARSER, "file_to_tree", R)
    site = PARSER + ":file_to_tree"
    ok = False
    for lp in walk_local(fn):
        if isinstance(lp, ast.For) and "within[0].to_tuple()" in norm(lp.iter) and isinstance(lp.target, ast.Name):
            p = lp.target.id
            t = [norm(s) for s in lp.body]
            ok = any(x.endswith("= ast.Class(name=%s, type='package')" % p) for x in t) and any(x.startswith("insert_node.classes[%s] =" % p) for x in t) \
                and any(x.startswith("insert_node = ") for x in t)
    rep.ob(R, site, "within placeholders", ok, "for each name of the within path an empty package is created and entered")
    t = [norm(s) for s in fn.body]
    rep.ob(R, site, "classes into innermost package", "insert_node.classes.update(f.classes)" in t, "the file's classes are inserted in the innermost within package")
    ex = ctx.func(AST, "Tree.extend", R)
    seq = [norm(s) for s in ex.body]
    i = [k for k, x in enumerate(seq) if "._extend(" in x]
    j = [k for k, x in enumerate(seq) if "update_parent_refs()" in x]
    rep.ob(R, AST + ":Tree.extend", "parent links refreshed", bool(i and j and j[-1] > i[-1]), "after merging, parent links must be refreshed (lookups go through parent)")


# -- seeded variants ---------------------------------------------------------
from ._mut import delete_stmt_where, replace_in_func  # noqa: E402


@SPEC.mutant("extend without parent refresh", AST, "R27.2", "parent links")
def _m1(mod):
    return mod if delete_stmt_where(mod, "Tree.extend", lambda st: "update_parent_refs" in norm(st)) else None


@SPEC.mutant("classes inserted at root instead of the within package", PARSER, "R27.2", "innermost")
def _m2(mod):
    def edit(fn):
        for n in ast.walk(fn):
            if isinstance(n, ast.Expr) and norm(n) == "insert_node.classes.update(f.classes)":
                n.value.func.value.value = ast.Name(id="root", ctx=ast.Load())
                return True
        return False

    return mod if replace_in_func(mod, "file_to_tree", edit) else None


@SPEC.mutant("merge stops reading symbols (only meaningful once repaired)", AST, "R27.1", "symbols", needs_fixed=True)
def _m3(mod):
    def edit(fn):
        hit = False
        for node in ast.walk(fn):
            for fld in ("body", "orelse"):
                b = getattr(node, fld, None)
                if isinstance(b, list):
                    for i, st in enumerate(b):
                        if isinstance(st, (ast.Expr, ast.Assign, ast.AugAssign)) and ".symbols" in norm(st):
                            b[i] = ast.Pass()
                            hit = True
        return hit

    return mod if replace_in_func(mod, "Class._extend", edit) else None
