"""C27 — assembling a library from several files is order-independent (merge clause)."""
from __future__ import annotations

import ast

from ..engine import AnalysisError, MechanismMissing, PropertySpec, norm
from ..pyutil import call_name, calls, is_name, walk_local

AST = "src/pymoca/ast.py"
PARSER = "src/pymoca/parser.py"

CONTENT = ["symbols", "imports", "extends", "equations", "initial_equations", "statements", "initial_statements", "functions"]

SPEC = PropertySpec(
    "C27",
    "Assembling a library from several files is order-independent",
    decided=(
        "merging two class nodes of the same name cannot ignore the content of either: Class._extend, when the name "
        "exists on both sides, reads the content fields of the incoming node (symbols, imports, extends, equations, …) "
        "or adopts one node wholesale after establishing that the other is an empty placeholder; placeholder packages "
        "created for `within` clauses are empty packages; parent links are refreshed after a merge."
    ),
    not_decided="equality of flattened models across permutations (needs the flattener's semantics).",
)


def _canonical_extend(fn):
    """Class._extend with the two operands spelled out: `for k, v in X.classes.items()` is `for k in X.classes.keys()` with v = X.classes[k],
    and a local bound once to `self.classes[k]` / `X.classes[k]` that is read before the next store into that mapping is that expression."""
    import copy
    fn = copy.deepcopy(fn)

    def subst(root, name, expr_src, first_line, last_line):
        class T(ast.NodeTransformer):
            def visit_Name(self, n):
                if n.id == name and isinstance(n.ctx, ast.Load) and first_line <= n.lineno <= last_line:
                    return ast.copy_location(ast.parse(expr_src, mode="eval").body, n)
                return n
        return T().visit(root)

    for lp in [x for x in ast.walk(fn) if isinstance(x, ast.For)]:
        it = lp.iter
        if isinstance(lp.target, ast.Tuple) and len(lp.target.elts) == 2 and all(isinstance(e, ast.Name) for e in lp.target.elts) \
                and isinstance(it, ast.Call) and isinstance(it.func, ast.Attribute) and it.func.attr == "items" and norm(it.func.value).endswith(".classes") and not it.args:
            k, v = lp.target.elts[0].id, lp.target.elts[1].id
            rebound = [x for x in ast.walk(lp) if isinstance(x, ast.Name) and x.id in (k, v) and isinstance(x.ctx, ast.Store) and x not in lp.target.elts]
            if rebound:
                continue
            m = norm(it.func.value)
            for i, b in enumerate(lp.body):
                lp.body[i] = subst(b, v, "%s[%s]" % (m, k), 0, 10 ** 9)
            lp.target = ast.copy_location(ast.Name(id=k, ctx=ast.Store()), lp.target)
            it.func.attr = "keys"
    stores = {}
    for x in ast.walk(fn):
        if isinstance(x, ast.Name) and isinstance(x.ctx, ast.Store):
            stores[x.id] = stores.get(x.id, 0) + 1
    map_stores = sorted(x.lineno for x in ast.walk(fn) if isinstance(x, ast.Subscript) and isinstance(x.ctx, ast.Store) and norm(x.value).endswith(".classes"))
    for st in [x for x in ast.walk(fn) if isinstance(x, ast.Assign)]:
        if len(st.targets) == 1 and isinstance(st.targets[0], ast.Name) and stores.get(st.targets[0].id) == 1 and isinstance(st.value, ast.Subscript) \
                and norm(st.value.value).endswith(".classes"):
            nxt = [ln for ln in map_stores if ln > st.lineno]
            subst(fn, st.targets[0].id, norm(st.value), st.lineno + 1, nxt[0] if nxt else 10 ** 9)
    ast.fix_missing_locations(fn)
    return fn


@SPEC.rule(
    "R27.1",
    "merge reads both sides: for a class name present in both trees Class._extend either merges the content fields of "
    "the incoming class, or tests with a predicate that reads every content field whether its own node is an empty "
    "placeholder and, if so, keeps the incoming definition after merging the placeholder's nested classes into it",
)
def r27_1(ctx, rep):
    R = "R27.1"
    from ..pyutil import renamed_copy
    fn = _canonical_extend(ctx.func(AST, "Class._extend", R))
    roles = {}
    for lp in fn.body:
        if isinstance(lp, ast.For) and isinstance(lp.target, ast.Name) and ".classes" in norm(lp.iter):
            roles[lp.target.id] = "class_name"
    if len(fn.args.args) > 1:
        roles[fn.args.args[1].arg] = "other"
    fn = renamed_copy(fn, {k: v for k, v in roles.items() if k != v})
    # everything a class node carries (its state attributes in Class.__init__) except its identity, the nested classes that
    # the merge recurses into, and the parent link that is refreshed afterwards
    init = ctx.func(AST, "Class.__init__", R)
    state = [t.attr for st in init.body if isinstance(st, (ast.Assign, ast.AnnAssign))
             for t in (st.targets if isinstance(st, ast.Assign) else [st.target])
             if isinstance(t, ast.Attribute) and is_name(t.value, "self")]
    CONTENT = [f for f in state if f not in ("name", "classes", "parent")]  # noqa: N806
    if len(CONTENT) < 10:
        raise AnalysisError(R, "Class.__init__ no longer lists the class attributes (found %s)" % state)
    other = fn.args.args[1].arg
    site = AST + ":Class._extend"
    # discipline A: content of `other` is read in _extend itself
    merged = set()
    for n in ast.walk(fn):
        if isinstance(n, ast.Attribute) and n.attr in CONTENT:
            base = norm(n.value)
            if base == other or base.startswith(other + ".classes["):
                merged.add(n.attr)
    # discipline B: placeholder predicate on the node we already have
    pred_fields, adopt_ok = set(), False
    for n in ast.walk(fn):
        if isinstance(n, ast.If) and isinstance(n.test, ast.Call) and isinstance(n.test.func, ast.Attribute) \
                and norm(n.test.func.value).startswith("self.classes[") and not n.test.args:
            pred = ctx.find(AST, "Class." + n.test.func.attr)
            if isinstance(pred, ast.FunctionDef):
                ctx.functions_analysed.add("%s:Class.%s" % (AST, pred.name))
                me = pred.args.args[0].arg
                for x in ast.walk(pred):
                    if isinstance(x, ast.Attribute) and is_name(x.value, me) and x.attr in CONTENT:
                        pred_fields.add(x.attr)
                t = [norm(st) for st in n.body]
                key = norm(n.test.func.value)[len("self.classes["):-1]
                ext = [i for i, x in enumerate(t) if x == "%s.classes[%s]._extend(self.classes[%s])" % (other, key, key)]
                sto = [i for i, x in enumerate(t) if x == "self.classes[%s] = %s.classes[%s]" % (key, other, key)]
                adopt_ok = bool(ext and sto and ext[0] < sto[0])
    discipline = "merge" if merged else ("placeholder" if pred_fields else "none")
    rep.extra["R27.1_discipline"] = discipline
    for f in CONTENT:
        ok = f in merged or (f in pred_fields and adopt_ok)
        rep.ob(R, site, "field " + f, ok,
               "when both trees define the same class, `%s` of the incoming definition is never looked at and the existing node is "
               "never checked for being an empty placeholder w.r.t. `%s`: merged after a `within` placeholder, the class's %s are "
               "silently dropped" % (f, f, f))
    if pred_fields:
        rep.ob(R, site, "placeholder replaced by the incoming definition", adopt_ok,
               "if the existing node is a placeholder the incoming node must first absorb the placeholder's nested classes "
               "(other.classes[k]._extend(self.classes[k])) and then replace it")
    # names only on one side are adopted, names on both sides recurse
    t = norm(fn)
    rep.ob(R, site, "recursion / adoption", "._extend(%s.classes[" % other in t and "self.classes[class_name] = %s.classes[class_name]" % other in t,
           "same name on both sides -> recurse; otherwise adopt the incoming class")


@SPEC.rule("R27.2", "placeholder packages for `within` are empty packages named by the within path, the file's classes go into the innermost one, and Tree.extend refreshes parent links")
def r27_2(ctx, rep):
    R = "R27.2"
    from ..pyutil import renamed_copy
    fn = ctx.func(PARSER, "file_to_tree", R)
    roles = {}
    for st in fn.body:
        if isinstance(st, ast.Assign) and isinstance(st.targets[0], ast.Name):
            if isinstance(st.value, ast.Call) and (call_name(st.value) or "").endswith("Tree"):
                roles[st.targets[0].id] = "root"
            elif isinstance(st.value, ast.Name) and roles.get(st.value.id) == "root":
                roles[st.targets[0].id] = "insert_node"
    if len(fn.args.args) > 0:
        roles[fn.args.args[0].arg] = "f"
    fn = renamed_copy(fn, {k: v for k, v in roles.items() if k != v})
    site = PARSER + ":file_to_tree"
    ok = False
    for lp in walk_local(fn):
        if isinstance(lp, ast.For) and "within[0].to_tuple()" in norm(lp.iter) and isinstance(lp.target, ast.Name):
            p = lp.target.id
            t = [norm(s) for s in lp.body]
            made = [x_.targets[0].id for x_ in lp.body if isinstance(x_, ast.Assign) and isinstance(x_.targets[0], ast.Name)
                    and norm(x_.value) == "ast.Class(name=%s, type='package')" % p]
            ok = bool(made) and any(x == "insert_node.classes[%s] = %s" % (p, made[0]) for x in t) and any(x == "insert_node = %s" % made[0] for x in t)
    rep.ob(R, site, "within placeholders", ok, "for each name of the within path an empty package is created and entered")
    t = [norm(s) for s in fn.body]
    rep.ob(R, site, "classes into innermost package", "insert_node.classes.update(f.classes)" in t, "the file's classes are inserted in the innermost within package")
    ex = ctx.func(AST, "Tree.extend", R)
    seq = [norm(s) for s in ex.body]
    i = [k for k, x in enumerate(seq) if "._extend(" in x]
    j = [k for k, x in enumerate(seq) if "update_parent_refs()" in x]
    rep.ob(R, AST + ":Tree.extend", "parent links refreshed", bool(i and j and j[-1] > i[-1]), "after merging, parent links must be refreshed (lookups go through parent)")


@SPEC.rule(
    "R27.3",
    "the parent refresh after a merge is total: in Tree._update_parent_refs every iteration over <parent>.classes.values() sets "
    "the child's parent link and recurses into the child on every path — a branch that is skipped because it 'looks linked' keeps, "
    "further down, classes adopted from another file with the parent chain of that file's placeholders",
)
def r27_3(ctx, rep):
    from ..cfg import CFG
    R = "R27.3"
    fn = ctx.func(AST, "Tree._update_parent_refs", R)
    site = AST + ":Tree._update_parent_refs"
    par = fn.args.args[1].arg
    cfg = CFG(fn, R)
    loops = [x for x in cfg.nodes if x.kind == "iter" and norm(x.ast.iter) in ("%s.classes.values()" % par, "%s.classes.items()" % par)]
    if not loops:
        raise MechanismMissing(R, "loop over the parent's classes not found")
    it = loops[0]
    child = it.ast.target.id if isinstance(it.ast.target, ast.Name) else (it.ast.target.elts[1].id if isinstance(it.ast.target, ast.Tuple) else None)
    entry = [s_ for s_ in cfg.succ[it.id] if cfg.nodes[s_].kind == "assume" and cfg.nodes[s_].taken][0]
    sets = {x.id for x in cfg.stmts() if isinstance(x.ast, ast.Assign) and norm(x.ast.targets[0]) == "%s.parent" % child and is_name(x.ast.value, par)}
    recs = {x.id for x in cfg.stmts() if any(isinstance(c.func, ast.Attribute) and c.func.attr == fn.name and c.args and is_name(c.args[0], child) for c in calls(x.ast))}
    for what, nodes, msg in (("parent link set for every class", sets, "`%s.parent = %s`" % (child, par)),
                             ("recursion into every class", recs, "the recursive call on `%s`" % child)):
        w = cfg.path(entry, it.id, avoid=nodes - {it.id}) if nodes else [cfg.nodes[entry]]
        rep.ob(R, site, what, bool(nodes) and w is None,
               "some iteration reaches the next class without %s: classes below a skipped branch keep the parent links they had in the file "
               "they came from, and lookups that go up through `parent` (find_class) fail or find another class depending on the merge order" % msg,
               path=cfg.describe(w) if w else "")


@SPEC.rule(
    "R27.4",
    "every file of the library takes part in the merge: each *.mo file found by _compile_model's walk is parsed and merged into the "
    "tree (package.mo occurs once per package directory — a skip by base name drops all but the first package's own file)",
)
def r27_4(ctx, rep):
    from .c20 import compile_walk_total
    compile_walk_total(ctx, rep, "R27.4")


@SPEC.rule(
    "R27.5",
    "every compile merges freshly parsed trees: no function of casadi/api.py writes a module-level container or is wrapped in a caching "
    "decorator — Tree.extend swaps placeholders into the nodes it is given, so a parsed library tree kept between two compiles carries the "
    "classes the first project declared `within` it into the second",
)
def r27_5(ctx, rep):
    from .c25 import module_state_free
    module_state_free(ctx, rep, "R27.5", "src/pymoca/backends/casadi/api.py", "the CasADi API")


CLI = "tools/compiler.py"


@SPEC.rule(
    "R27.6",
    "every file of every given path is found, whatever the paths are called and in whatever order they are given: list_modelica_files decides "
    "nothing by comparing path *strings* (startswith / endswith / `in` on str(path)) — `lib_models` is not inside `lib` — and every directory it is "
    "given is searched",
)
def r27_6(ctx, rep):
    from ..cfg import CFG, iteration_skips
    R = "R27.6"
    fn = ctx.func(CLI, "list_modelica_files", R)
    site = CLI + ":list_modelica_files"
    textual = []
    for c in calls(fn):
        if isinstance(c.func, ast.Attribute) and c.func.attr in ("startswith", "endswith", "find", "index", "removeprefix", "partition") and (
                "str(" in norm(c.func.value) or "as_posix" in norm(c.func.value) or "fspath" in norm(c.func.value) or any("str(" in norm(a) for a in c.args)):
            textual.append("line %d: %s" % (c.lineno, norm(c)[:60]))
    for cmp_ in ast.walk(fn):
        if isinstance(cmp_, ast.Compare) and any(isinstance(o, (ast.In, ast.NotIn)) for o in cmp_.ops) and "str(" in norm(cmp_.left) and "str(" in norm(cmp_.comparators[0]):
            textual.append("line %d: %s" % (cmp_.lineno, norm(cmp_)[:60]))
    rep.ob(R, site, "no containment test on path strings", not textual,
           "%s — a sibling directory whose name merely begins like one already searched is taken to lie inside it and is skipped" % "; ".join(textual[:3]))
    loops = [lp for lp in fn.body if isinstance(lp, ast.For)]
    if not loops:
        raise MechanismMissing(R, "loop over the given paths not found")
    cfg = CFG(fn, R)
    lp = loops[0]
    # every directory path reaches the glob
    globs = lambda x: x.kind in ("stmt", "iter") and any(isinstance(c.func, ast.Attribute) and c.func.attr in ("glob", "rglob", "walk") for c in calls(x.ast.iter if x.kind == "iter" else x.ast))  # noqa: E731
    dir_assumes = [x for x in cfg.nodes if x.kind == "assume" and x.taken and "is_dir()" in norm(x.ast)]
    it = [x for x in cfg.nodes if x.kind == "iter" and x.ast is lp][0]
    through = {x.id for x in cfg.nodes if x.ast is not None and globs(x)}
    bad = None
    for a in dir_assumes:
        bad = bad or cfg.path(a.id, it.id, avoid=through)
    rep.ob(R, site, "every directory given is searched", bool(dir_assumes) and bool(through) and bad is None,
           "a path that is a directory can be passed over without being globbed", path=cfg.describe(bad) if bad else "")
    every_globbed_file_listed(ctx, rep, R)


def every_globbed_file_listed(ctx, rep, R):
    """list_modelica_files: every path the glob over a given directory yields is appended to the result — on every iteration"""
    from ..cfg import CFG, iteration_skips
    fn = ctx.func(CLI, "list_modelica_files", R)
    site = CLI + ":list_modelica_files"
    cfg = CFG(fn, R)
    gl = [lp for lp in walk_local(fn) if isinstance(lp, ast.For) and any(isinstance(c.func, ast.Attribute) and c.func.attr in ("glob", "rglob") for c in calls(lp.iter))
          and isinstance(lp.target, ast.Name)]
    comp = [c for c in ast.walk(fn) if isinstance(c, (ast.ListComp, ast.GeneratorExp)) and any(
        isinstance(x.func, ast.Attribute) and x.func.attr in ("glob", "rglob") for g in c.generators for x in calls(g.iter))]
    whole = [c for c in calls(fn) if isinstance(c.func, ast.Attribute) and c.func.attr == "extend" and len(c.args) == 1 and isinstance(c.args[0], ast.Call)
             and isinstance(c.args[0].func, ast.Attribute) and c.args[0].func.attr in ("glob", "rglob")]
    if whole:
        rep.ob(R, site, "every file the search of a directory finds is listed", True, "")
    if not gl and not comp and not whole:
        raise MechanismMissing(R, "the loop over the files a directory's glob yields was not found in list_modelica_files")
    for lp in gl:
        v = lp.target.id
        w = iteration_skips(cfg, lp, lambda x: x.kind == "stmt" and any(isinstance(c.func, ast.Attribute) and c.func.attr in ("append", "add") and c.args
                                                                         and is_name(c.args[0], v) for c in calls(x.ast)))
        rep.ob(R, site, "every file the search of a directory finds is listed", w is None,
               "an iteration over the files found below a given directory can end without the file being added to the list: what the filter goes by "
               "(the spelling of the path, a name seen before) does not make the file any less part of what the user asked to compile",
               path=cfg.describe(w) if w else "")
    for c in comp:
        rep.ob(R, site, "every file the search of a directory finds is listed", not any(g.ifs for g in c.generators),
               "the comprehension over the glob filters the files (`%s`)" % norm(c)[:80])


@SPEC.rule(
    "R27.7",
    "every class of the other tree ends up somewhere: each iteration of the loop of Class._extend over the other class's members adopts the "
    "member (a store into self.classes) or merges it (a recursive _extend) — a third case that does neither (`both already have the same "
    "members`) drops what is different one level further down, for some file orders only",
)
def r27_7(ctx, rep):
    from ..cfg import CFG, iteration_skips
    R = "R27.7"
    fn = ctx.func(AST, "Class._extend", R)
    site = AST + ":Class._extend"
    cfg = CFG(fn, R)
    loops = [lp for lp in walk_local(fn) if isinstance(lp, ast.For) and ".classes" in norm(lp.iter)]
    if not loops:
        raise MechanismMissing(R, "the loop over the other class's members was not found in Class._extend")
    for lp in loops:
        def handled(x):
            if x.kind != "stmt":
                return False
            if isinstance(x.ast, ast.Assign) and any(isinstance(t, ast.Subscript) and norm(t.value).endswith(".classes") for t in x.ast.targets):
                return True
            return any(isinstance(c.func, ast.Attribute) and c.func.attr == "_extend" for c in calls(x.ast))
        w = iteration_skips(cfg, lp, handled)
        rep.ob(R, site, "every member of the other class is adopted or merged", w is None,
               "an iteration over the other class's members can end without a store into self.classes and without a recursive _extend",
               path=cfg.describe(w) if w else "")


@SPEC.rule(
    "R27.8",
    "what a file parses to does not depend on the files parsed before it: no function of parser.py keeps state in a module-level or "
    "class-level container or counter — a declaration counter shared by all ASTListener instances numbers a file's symbols after those of "
    "the files parsed earlier, and the variable order of the flat model follows the file order",
)
def r27_8(ctx, rep):
    from .c25 import module_state_free
    module_state_free(ctx, rep, "R27.8", PARSER, "the parser module")


# -- seeded variants ---------------------------------------------------------
from ._mut import delete_stmt_where, replace_in_func  # noqa: E402


@SPEC.mutant("extend without parent refresh", AST, "R27.2", "parent links")
def _m1(mod):
    return mod if delete_stmt_where(mod, "Tree.extend", lambda st: "update_parent_refs" in norm(st)) else None


@SPEC.mutant("classes inserted at root instead of the within package", PARSER, "R27.2", "innermost")
def _m2(mod):
    def edit(fn):
        for n in ast.walk(fn):
            if isinstance(n, ast.Expr) and norm(n) == "insert_node.classes.update(f.classes)":
                n.value.func.value.value = ast.Name(id="root", ctx=ast.Load())
                return True
        return False

    return mod if replace_in_func(mod, "file_to_tree", edit) else None


@SPEC.mutant("placeholder test ignores symbols", AST, "R27.1", "symbols", needs_fixed=True)
def _m3(mod):
    def edit(fn):
        for n in ast.walk(fn):
            if isinstance(n, ast.BoolOp) and isinstance(n.op, ast.Or):
                k = [v for v in n.values if not norm(v).endswith(".symbols")]
                if len(k) < len(n.values):
                    n.values = k
                    return True
        return False

    return mod if replace_in_func(mod, "Class._is_placeholder", edit) else None


@SPEC.mutant("placeholder kept instead of the definition", AST, "R27.1", "", needs_fixed=True)
def _m4(mod):
    return mod if delete_stmt_where(mod, "Class._extend", lambda st: norm(st) == "self.classes[class_name] = other.classes[class_name]", which=1) else None


@SPEC.mutant("parent refresh skips branches that look linked", AST, "R27.3", "parent link set")
def _m_skip(mod):
    def edit(fn):
        for lp in ast.walk(fn):
            if isinstance(lp, ast.For):
                lp.body.insert(0, ast.parse("if c.parent is parent:\n    continue").body[0])
                return True
        return False

    return mod if replace_in_func(mod, "Tree._update_parent_refs", edit) else None


@SPEC.mutant("directories skipped when their name extends a searched one", CLI, "R27.6", "path strings")
def _m_prefix_skip(mod):
    def edit(fn):
        for lp in fn.body:
            if isinstance(lp, ast.For):
                lp.body.insert(0, ast.parse("if any(str(path).startswith(str(d)) for d in _done):\n    continue").body[0])
                lp.body.insert(1, ast.parse("_done.append(path)").body[0])
                fn.body.insert(fn.body.index(lp), ast.parse("_done = []").body[0])
                return True
        return False

    return mod if replace_in_func(mod, "list_modelica_files", edit) else None


@SPEC.mutant("files in hidden directories are filtered by the whole path", CLI, "R27.6", "finds is listed")
def _m_hidden_filter(mod):
    def edit(fn):
        for lp in ast.walk(fn):
            if isinstance(lp, ast.For) and ".glob(" in norm(lp.iter):
                lp.body.insert(0, ast.parse("if any(part.startswith('.') for part in %s.parts):\n    continue" % norm(lp.target)).body[0])
                return True
        return False

    return mod if replace_in_func(mod, "list_modelica_files", edit) else None


@SPEC.mutant("_extend skips classes with the same member names", AST, "R27.7", "adopted or merged")
def _m_extend_skip(mod):
    def edit(fn):
        for lp in ast.walk(fn):
            if isinstance(lp, ast.For):
                node = lp.body[0]
                while isinstance(node, ast.If) and len(node.orelse) == 1 and isinstance(node.orelse[0], ast.If):
                    node = node.orelse[0]
                if isinstance(node, ast.If) and node.orelse:
                    node.orelse = [ast.If(test=ast.parse("self.classes[class_name].classes.keys() != other.classes[class_name].classes.keys()", mode="eval").body,
                                          body=node.orelse, orelse=[])]
                    return True
        return False

    return mod if replace_in_func(mod, "Class._extend", edit) else None
