"""C05 — flattening never changes what later flattening produces (ownership clause)."""
from __future__ import annotations

import ast

from ..engine import AnalysisError, MechanismMissing, PropertySpec, norm
from ..pyutil import call_name, calls, dotted, is_name, kwarg, walk_local
from ..origins import analyse_flatten

TREE = "src/pymoca/tree.py"
AST = "src/pymoca/ast.py"

SPEC = PropertySpec(
    "C05",
    "Flattening never changes what later flattening produces",
    decided=(
        "ownership: no object reachable from the tree passed to tree.flatten (and so to any backend's generate or "
        "the CLI's flatten loop) is written during the call — a whole-program points-to / ownership analysis of "
        "tree.py + ast.py (allocation-site abstraction, deep copies are fresh, lookups without copy alias the "
        "tree), plus the local rule that every lookup feeding mutating code copies, and that backends/CLI hand "
        "the caller's tree only to flatten or deepcopy. If nothing reachable is written, any sequence of calls "
        "sees the tree a fresh parse would produce."
    ),
    not_decided="determinism of flattening on equal trees; the numeric content of what is produced.",
)
SPEC.assumptions += [
    "copy.deepcopy returns objects that share nothing with the source except what the __deepcopy__ hooks share on purpose (Class.parent, ClassModificationArgument.scope)",
    "no reviewed exceptions: every statement that may write to a tree-owned object is a violation (two writes that were once waved through turned out to be the defects D29 and D30, DESIGN.md A.5)",
]


@SPEC.rule(
    "R05.1",
    "no write to tree-reachable objects: points-to/ownership analysis from tree.flatten(root, class_name) over "
    "tree.py and ast.py; a report names the un-copied source (lookup site) and one writing statement",
)
def r05_1(ctx, rep):
    R = "R05.1"
    res = analyse_flatten(ctx, R)
    for f in res.findings:
        rep.ob(R, f["site"], f["key"], f["ok"], f["msg"], path=f.get("path", ""))
    rep.extra["R05.1_stats"] = res.stats
    for n in res.notes:
        rep.note(n)
    rep.require_instances(R, 2, "ownership sources")


@SPEC.rule(
    "R05.2",
    "copying lookups: no find_class call in tree.py, the backends' generators or the CLI passes a false `copy`; the "
    "default is copy=True; tree.flatten looks the class up with a copying lookup",
)
def r05_2(ctx, rep):
    R = "R05.2"
    n = 0
    for rel in (TREE, "src/pymoca/backends/casadi/generator.py", "src/pymoca/backends/sympy/generator.py",
                "src/pymoca/backends/xml/generator.py", "tools/compiler.py"):
        if not ctx.exists(rel):
            continue
        mod = ctx.module(rel, R)
        for fn in [x for x in ast.walk(mod) if isinstance(x, ast.FunctionDef)]:
            for c in calls(fn):
                if isinstance(c.func, ast.Attribute) and c.func.attr == "find_class":
                    n += 1
                    cp = kwarg(c, "copy")
                    if cp is None and len(c.args) >= 2:
                        cp = c.args[1]
                    ok = cp is None or (isinstance(cp, ast.Constant) and bool(cp.value))
                    rep.ob(R, "%s:%s" % (rel, fn.name), "lookup:" + norm(c), ok,
                           "un-copied lookup: the object returned is the tree's own; everything the flattener does to it "
                           "(renaming symbols, moving modifications, replacing connector types by strings) changes the tree")
    fc = ctx.func(AST, "Class.find_class", R)
    params = [a.arg for a in fc.args.args]
    defaults = dict(zip(params[len(params) - len(fc.args.defaults):], fc.args.defaults))
    d = defaults.get("copy")
    rep.ob(R, AST + ":Class.find_class", "default copy=True", isinstance(d, ast.Constant) and d.value is True,
           "the default decides 7 lookups in tree.py")
    if n < 6:
        raise MechanismMissing(R, "fewer than 6 find_class call sites found")


@SPEC.rule(
    "R05.3",
    "backends and CLI do not mutate either: generate()/flatten_class()/translate() pass the caller's tree only to "
    "flatten, to copy.deepcopy or on to each other — no attribute store, no mutating call on it",
)
def r05_3(ctx, rep):
    R = "R05.3"
    sites = [
        ("src/pymoca/backends/casadi/generator.py", "generate", "ast_tree"),
        ("src/pymoca/backends/sympy/generator.py", "generate", "ast_tree"),
        ("src/pymoca/backends/xml/generator.py", "generate", "ast_tree"),
        ("tools/compiler.py", "flatten_class", "library_ast"),
        ("tools/compiler.py", "translate", "library_ast"),
    ]
    ALLOWED = {"flatten", "pymoca.tree.flatten", "copy.deepcopy", "deepcopy", "sympy_gen.generate", "generate", "log.debug",
               "json.dumps"}
    MUT = {"append", "extend", "remove", "pop", "update", "insert", "clear", "setdefault", "add_class", "remove_class",
           "add_symbol", "remove_symbol", "add_equation", "remove_equation", "extend", "_extend", "update_parent_refs"}
    for rel, fname, _p in sites:
        fn = ctx.func(rel, fname, R)
        p = fn.args.args[0].arg
        aliases = {p}
        bad = []
        for node in walk_local(fn):
            if isinstance(node, ast.Assign) and isinstance(node.value, ast.Name) and node.value.id in aliases:
                for t in node.targets:
                    if isinstance(t, ast.Name):
                        aliases.add(t.id)
        # parts of the caller's tree: names bound from an attribute / subscript / iteration rooted in it
        def rooted(e):
            while isinstance(e, (ast.Attribute, ast.Subscript, ast.Call)):
                e = e.func if isinstance(e, ast.Call) else e.value
            return isinstance(e, ast.Name) and e.id in aliases | parts
        parts = set()
        changed = True
        while changed:
            changed = False
            for node in walk_local(fn):
                tgt = None
                if isinstance(node, ast.Assign) and isinstance(node.value, (ast.Attribute, ast.Subscript, ast.Call)) and rooted(node.value) \
                        and not (isinstance(node.value, ast.Call) and (call_name(node.value) or "") in ALLOWED):
                    tgt = node.targets
                elif isinstance(node, (ast.For, ast.comprehension)) and rooted(node.iter):
                    tgt = [node.target]
                for t in tgt or []:
                    for nm in ast.walk(t):
                        if isinstance(nm, ast.Name) and nm.id not in parts and nm.id not in aliases:
                            parts.add(nm.id)
                            changed = True
        READ_ONLY = {"len", "isinstance", "str", "repr", "print", "sorted", "list", "tuple", "set", "dict", "enumerate", "zip", "iter", "next", "id", "type", "hasattr", "getattr",
                     "any", "all", "bool", "format"}
        for node in walk_local(fn):
            if isinstance(node, ast.Call):
                handed = [a for a in list(node.args) + [k.value for k in node.keywords] if isinstance(a, ast.Name) and a.id in parts]
                cn = call_name(node) or norm(node.func)
                if handed and cn not in ALLOWED and cn.split(".")[-1] not in READ_ONLY and not cn.endswith(".to_json") and not cn.startswith("log."):
                    bad.append("part of the tree (%s) passed to %s" % (handed[0].id, cn))
        for node in walk_local(fn):
            if isinstance(node, (ast.Assign, ast.AugAssign, ast.Delete)):
                ts = node.targets if isinstance(node, (ast.Assign, ast.Delete)) else [node.target]
                for t in ts:
                    base = t
                    while isinstance(base, (ast.Attribute, ast.Subscript)):
                        base = base.value
                    if isinstance(t, (ast.Attribute, ast.Subscript)) and isinstance(base, ast.Name) and base.id in aliases:
                        bad.append(norm(node))
            elif isinstance(node, ast.Call):
                if isinstance(node.func, ast.Attribute):
                    base = node.func.value
                    while isinstance(base, (ast.Attribute, ast.Subscript)):
                        base = base.value
                    if isinstance(base, ast.Name) and base.id in aliases and node.func.attr in MUT:
                        bad.append(norm(node))
                uses = [a for a in list(node.args) + [k.value for k in node.keywords] if isinstance(a, ast.Name) and a.id in aliases]
                if uses:
                    cn = call_name(node) or norm(node.func)
                    if cn not in ALLOWED and not cn.endswith(".to_json"):
                        bad.append("passed to " + cn)
        rep.ob(R, "%s:%s" % (rel, fname), "uses of " + p, not bad,
               "the caller's tree may only go to flatten()/deepcopy(); found: %s" % bad)


@SPEC.rule(
    "R05.4",
    "premise of the reviewed CONST exception: symbol tables built while flattening are keyed by the declaration key "
    "(dict.update / items() key), never by a Symbol's .name attribute read before it is assigned in the same loop — "
    "tree-owned constant Symbols are renamed in place, so their .name is not stable across flatten calls",
)
def r05_4(ctx, rep):
    R = "R05.4"
    mod = ctx.module(TREE, R)
    n = 0
    for fn in [x for x in mod.body if isinstance(x, ast.FunctionDef)] + [m for c in mod.body if isinstance(c, ast.ClassDef) for m in c.body if isinstance(m, ast.FunctionDef)]:
        site = "%s:%s" % (TREE, fn.name)
        for c in calls(fn):
            if isinstance(c.func, ast.Attribute) and c.func.attr in ("add_symbol", "remove_symbol"):
                n += 1
                rep.ob(R, site, "call " + norm(c)[:60], False,
                       "add_symbol()/remove_symbol() key the table by the Symbol's current .name; for symbols that come from the tree this "
                       "name was changed in place by an earlier flatten (use the dictionary key: symbols.update(...))")
        for st in walk_local(fn):
            if isinstance(st, ast.Assign) and isinstance(st.targets[0], ast.Subscript) and norm(st.targets[0].value).endswith(".symbols"):
                key = st.targets[0].slice
                if isinstance(key, ast.Attribute) and key.attr == "name" and isinstance(key.value, ast.Name):
                    n += 1
                    v = key.value.id
                    # the name must have been (re)assigned in this function from a dictionary key: `<v>.name = ...` or alias of such
                    aliases = {v}
                    for a in walk_local(fn):
                        if isinstance(a, ast.Assign) and isinstance(a.targets[0], ast.Name) and isinstance(a.value, ast.Name) and (a.targets[0].id in aliases or a.value.id in aliases):
                            aliases |= {a.targets[0].id, a.value.id}
                    assigned = any(isinstance(a, ast.Assign) and isinstance(a.targets[0], ast.Attribute) and a.targets[0].attr == "name"
                                   and isinstance(a.targets[0].value, ast.Name) and a.targets[0].value.id in aliases for a in walk_local(fn))
                    rep.ob(R, site, "store " + norm(st.targets[0])[:60], assigned,
                           "the table is keyed by `%s.name` without that name being assigned from the declaration key in this function" % v)
    fe = ctx.func(TREE, "flatten_extends", R)
    merges = [norm(c) for c in calls(fe) if isinstance(c.func, ast.Attribute) and c.func.attr == "update" and norm(c.func.value).endswith(".symbols")]
    rep.ob(R, TREE + ":flatten_extends", "symbols merged by key", len(merges) >= 2 and all(m.endswith(".symbols)") for m in merges),
           "inherited and own symbols must be merged with symbols.update(<class>.symbols) (keeps the declaration keys); found %s" % merges)


@SPEC.rule(
    "R05.5",
    "premise of the ownership analysis — deep copies are fresh: the only object a __deepcopy__ hook of ast.py keeps by "
    "reference (pre-seeds in the memo) is the parent link (same rule as R06.7; the analysis models exactly that sharing)",
)
def r05_5(ctx, rep):
    from .c06 import kept_by_reference

    kept_by_reference(ctx, rep, "R05.5")


BACKEND_GENERATORS = ("src/pymoca/backends/sympy/generator.py", "src/pymoca/backends/xml/generator.py", "src/pymoca/backends/casadi/generator.py")


@SPEC.rule(
    "R05.6",
    "nothing is remembered between requests: tree.flatten and the three backends' generate() use no module-level container and "
    "no caching decorator — a result kept across calls (keyed by id(tree), by the class name, ...) is served after the tree was "
    "edited or for another tree, so a sequence of requests no longer equals fresh parses",
)
def r05_6(ctx, rep):
    from .c25 import no_cross_call_state
    R = "R05.6"
    for rel, fname in (("src/pymoca/tree.py", "flatten"), ("src/pymoca/tree.py", "flatten_class"),
                       ("src/pymoca/backends/sympy/generator.py", "generate"), ("src/pymoca/backends/xml/generator.py", "generate"),
                       ("src/pymoca/backends/casadi/generator.py", "generate")):
        no_cross_call_state(ctx, rep, R, rel, fname)
    # and nowhere below them: lookups (ast.py) and the flattening helpers (tree.py) keep no memo either
    from .c25 import module_state_free
    module_state_free(ctx, rep, R, "src/pymoca/ast.py", "the class and symbol lookups")
    module_state_free(ctx, rep, R, "src/pymoca/tree.py", "the flattening passes")
    for rel in BACKEND_GENERATORS:
        module_state_free(ctx, rep, R, rel, "the generator module (generate() and every helper it may call)")


@SPEC.rule(
    "R05.7",
    "the CLI treats every requested model alone: no local of main() that is assigned while one model is processed can be read "
    "while the next one is processed before it is set again (same rule as R26.5, evaluated here for the property's CLI clause)",
)
def r05_7(ctx, rep):
    from .c26 import per_model_state

    per_model_state(ctx, rep, "R05.7")


@SPEC.rule(
    "R05.8",
    "the compiler tool treats a sequence of requests as that many independent requests: inside its loops over the requested models "
    "nothing depends on the running error counter (a failing model does not switch off the ones after it)",
)
def r05_8(ctx, rep):
    from .c26 import every_model_attempted
    every_model_attempted(ctx, rep, "R05.8")


@SPEC.rule(
    "R05.9",
    "a later request finds what an earlier one found: no function of tree.py or of the compiler tool iterates, inside a loop over requests, a "
    "one-shot iterator (generator expression, map, filter, zip) that was created in front of that loop — the first request exhausts it",
)
def r05_9(ctx, rep):
    from ._literal import no_reused_iterators
    no_reused_iterators(ctx, rep, "R05.9", "src/pymoca/tree.py", "the flattening passes", 10)
    no_reused_iterators(ctx, rep, "R05.9", "tools/compiler.py", "the compiler tool", 3)


# -- seeded variants ---------------------------------------------------------
from ._mut import replace_in_func  # noqa: E402


def _add_copy_false(qual, which=0):
    def m(mod):
        def edit(fn):
            k = 0
            for c in ast.walk(fn):
                if isinstance(c, ast.Call) and isinstance(c.func, ast.Attribute) and c.func.attr == "find_class":
                    if k == which:
                        c.keywords = [x for x in c.keywords if x.arg != "copy"] + [ast.keyword(arg="copy", value=ast.Constant(value=False))]
                        return True
                    k += 1
            return False

        return mod if replace_in_func(mod, qual, edit) else None

    return m


SPEC.mutant("un-copied lookup in flatten", TREE, "R05.1", "flatten", needs_fixed=True)(_add_copy_false("flatten"))
SPEC.mutant("un-copied lookup in flatten_extends", TREE, "R05.1", "flatten_extends")(_add_copy_false("flatten_extends"))
SPEC.mutant("un-copied lookup in build_instance_tree (symbol type)", TREE, "R05.1", "build_instance_tree")(_add_copy_false("build_instance_tree", 1))
SPEC.mutant("un-copied lookup in FunctionExpander", TREE, "R05.1", "FunctionExpander")(_add_copy_false("FunctionExpander.exitExpression"))


@SPEC.mutant("find_class default copy=False", AST, "R05.2", "default")
def _m_default(mod):
    def edit(fn):
        fn.args.defaults[0] = ast.Constant(value=False)
        return True

    return mod if replace_in_func(mod, "Class.find_class", edit) else None


@SPEC.mutant("flatten memoises the flat class in the tree", TREE, "R05.1", "")
def _m_store(mod):
    def edit(fn):
        for i, st in enumerate(fn.body):
            if isinstance(st, ast.Return):
                fn.body.insert(i, ast.parse("root.classes[flat_name] = flat_class").body[0])
                fn.body.insert(i, ast.parse("root = root_in").body[0])
                return True
        return False

    def pre(fn):
        fn.body.insert(0, ast.parse("root_in = root").body[0])
        return True

    if not replace_in_func(mod, "flatten", pre):
        return None
    return mod if replace_in_func(mod, "flatten", edit) else None


@SPEC.mutant("shallow copy_including_children", AST, "R05.1", "")
def _m_shallow(mod):
    def edit(fn):
        for n in ast.walk(fn):
            if isinstance(n, ast.Attribute) and n.attr == "deepcopy":
                n.attr = "copy"
                return True
        return False

    return mod if replace_in_func(mod, "Class.copy_including_children", edit) else None


@SPEC.mutant("sympy backend adds the flat class to the caller's tree", "src/pymoca/backends/sympy/generator.py", "R05.3", "generate")
def _m_backend(mod):
    def edit(fn):
        for i, st in enumerate(fn.body):
            if isinstance(st, ast.Return):
                fn.body.insert(i, ast.parse("ast_tree.classes.update(flat_tree.classes)").body[0])
                return True
        return False

    return mod if replace_in_func(mod, "generate", edit) else None


@SPEC.mutant("inherited symbols added through add_symbol", TREE, "R05.4", "")
def _m_addsym(mod):
    def edit(fn):
        for node in ast.walk(fn):
            for fld in ("body", "orelse"):
                b = getattr(node, fld, None)
                if isinstance(b, list):
                    for i, st in enumerate(b):
                        if norm(st) == "extended_orig_class.symbols.update(c.symbols)":
                            b[i] = ast.parse("for sym in c.symbols.values():\n    extended_orig_class.add_symbol(sym)").body[0]
                            return True
        return False

    return mod if replace_in_func(mod, "flatten_extends", edit) else None
