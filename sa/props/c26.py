"""C26 — compiler CLI exit status counts exactly the errors (error discipline in tools/compiler.py)."""
from __future__ import annotations

import ast

from ..cfg import CFG, explore_defs, witness
from ..engine import AnalysisError, MechanismMissing, PropertySpec, norm
from ..pyutil import call_name, calls, is_name, walk_local
from .c01 import covers, handler_classes

CLI = "tools/compiler.py"

SPEC = PropertySpec(
    "C26",
    "Compiler CLI exit status counts exactly the errors",
    decided=(
        "error discipline of main(): every logged error lies on paths that increment the error counter within the same "
        "loop iteration (or is in a callee whose failure the caller counts); the success flag of translate() is never "
        "dropped; in each per-model loop the per-model work is isolated — wrapped in a handler for Exception that counts, "
        "or done by a callee that itself converts every Exception into its failure flag; main returns the counter."
    ),
    not_decided="argparse's own exit code 2 (library behaviour); the content of log messages.",
)

WORKERS = {"translate", "flatten_class", "casadi_api.transfer_model", "transfer_model"}


def _none_test(test, var):
    from .c01 import _is_none_test

    return _is_none_test(test, var)


def _main_fn(ctx, R):
    """main() with the error counter — the local initialised with a number and returned — called `errors`, the parsed
    arguments `args` and the argument parser `argp`"""
    from ..pyutil import renamed_copy
    if "c26_main" not in ctx.cache:
        fn = ctx.func(CLI, "main", R)
        roles = {}
        rets = [st.value.id for st in ast.walk(fn) if isinstance(st, ast.Return) and isinstance(st.value, ast.Name)]
        for st in fn.body:
            if isinstance(st, ast.Assign) and isinstance(st.targets[0], ast.Name):
                t, v = st.targets[0].id, st.value
                if isinstance(v, ast.Constant) and isinstance(v.value, int) and not isinstance(v.value, bool) and t in rets:
                    roles[t] = "errors"
                elif isinstance(v, ast.Call) and (call_name(v) or "").endswith("ArgumentParser"):
                    roles[t] = "argp"
                elif isinstance(v, ast.Call) and (call_name(v) or "").endswith(".parse_args"):
                    roles[t] = "args"
        ctx.cache["c26_main"] = renamed_copy(fn, {k: v for k, v in roles.items() if k != v})
    return ctx.cache["c26_main"]


def _is_inc(node) -> bool:
    a = node.ast
    return node.kind == "stmt" and isinstance(a, ast.AugAssign) and is_name(a.target, "errors") and isinstance(a.op, ast.Add)


def _is_log_error(node) -> bool:
    if node.kind != "stmt" or isinstance(node.ast, (ast.FunctionDef, ast.ClassDef)):
        return False
    return any(call_name(c) in ("log.error", "log.exception", "log.critical") for c in calls(node.ast))


def _length_constraint(test, taken):
    """(subject text, set of lengths 0..12 allowed) for a test `len(<name>) <op> <small int>` (either operand order) on the given branch"""
    import operator
    ops = {ast.Gt: operator.gt, ast.GtE: operator.ge, ast.Lt: operator.lt, ast.LtE: operator.le, ast.Eq: operator.eq, ast.NotEq: operator.ne}
    t = test
    if isinstance(t, ast.UnaryOp) and isinstance(t.op, ast.Not):
        t, taken = t.operand, not taken
    if not (isinstance(t, ast.Compare) and len(t.ops) == 1 and type(t.ops[0]) in ops):
        return None
    l, r = t.left, t.comparators[0]
    f = ops[type(t.ops[0])]

    def is_len(e):
        return isinstance(e, ast.Call) and is_name(e.func, "len") and len(e.args) == 1 and isinstance(e.args[0], ast.Name)

    if is_len(l) and isinstance(r, ast.Constant) and isinstance(r.value, int):
        return norm(l.args[0]), frozenset(n for n in range(13) if f(n, r.value) == taken)
    if is_len(r) and isinstance(l, ast.Constant) and isinstance(l.value, int):
        return norm(r.args[0]), frozenset(n for n in range(13) if f(l.value, n) == taken)
    return None


def _contradicting_length_tests(cfg, fn, node):
    known = {}
    for g in cfg.dominated_by(node.id, lambda x: x.kind == "assume"):
        c = _length_constraint(g.ast, bool(g.taken))
        if c:
            known[c[0]] = known.get(c[0], frozenset(range(13))) & c[1]
    out = set()
    for subj, allowed in known.items():
        # the list must not be re-bound or grown after the call for the contradiction to hold
        stores = [x for x in ast.walk(fn) if isinstance(x, ast.Name) and x.id == subj and isinstance(x.ctx, ast.Store)]
        grows = [c for c in calls(fn) if isinstance(c.func, ast.Attribute) and is_name(c.func.value, subj) and c.func.attr in ("append", "extend", "insert", "pop", "remove", "clear")]
        if len(stores) != 1 or grows:
            continue
        for x in cfg.nodes:
            if x.kind == "assume":
                c = _length_constraint(x.ast, bool(x.taken))
                if c and c[0] == subj and not (c[1] & allowed):
                    out.add(x.id)
    return out


@SPEC.rule(
    "R26.1",
    "every logged error counts: for each log.error/log.exception in main(), every path through it within its loop "
    "iteration (or the whole function) also passes an `errors += ...`; errors detected by parse_file are returned as "
    "None, collected by parse_all and added with len(error_files); main returns `errors`",
)
def r26_1(ctx, rep):
    R = "R26.1"
    fn = _main_fn(ctx, R)
    cfg = CFG(fn, R)
    incs = {x.id for x in cfg.nodes if _is_inc(x)}
    # partial counters: a local that starts at 0, is incremented, and is added to the error counter on every path afterwards counts as well
    # (the shape an extracted "check the options" helper leaves behind once it is inlined again)
    adds = {}
    for x in cfg.stmts():
        a = x.ast
        if isinstance(a, ast.AugAssign) and is_name(a.target, "errors") and isinstance(a.op, ast.Add) and isinstance(a.value, ast.Name):
            adds.setdefault(a.value.id, set()).add(x.id)
    for x in cfg.stmts():
        a = x.ast
        if isinstance(a, ast.AugAssign) and isinstance(a.target, ast.Name) and isinstance(a.op, ast.Add) and a.target.id != "errors":
            # follow plain copies  sub -> other = sub -> errors += other
            names, changed = {a.target.id}, True
            while changed:
                changed = False
                for y in cfg.stmts():
                    if isinstance(y.ast, ast.Assign) and len(y.ast.targets) == 1 and isinstance(y.ast.targets[0], ast.Name) and isinstance(y.ast.value, ast.Name) \
                            and y.ast.value.id in names and y.ast.targets[0].id not in names:
                        names.add(y.ast.targets[0].id)
                        changed = True
            sinks = set().union(*[adds.get(n, set()) for n in names]) if names else set()
            if sinks and cfg.must_pass(x.id, cfg.exit, sinks) is None:
                incs.add(x.id)
    logs = [x for x in cfg.nodes if _is_log_error(x)]
    if len(logs) < 6:
        raise MechanismMissing(R, "fewer than 6 log.error sites found in main()")
    for lg in logs:
        # innermost enclosing for-loop over models/paths/options: its iter node
        loop = None
        p = getattr(lg.ast, "_parent", None)
        while p is not None and p is not fn:
            if isinstance(p, ast.For):
                loop = p
                break
            p = getattr(p, "_parent", None)
        if loop is not None:
            it = [x for x in cfg.nodes if x.kind == "iter" and x.ast is loop][0]
            start, ends = it.id, [it.id, cfg.exit]
        else:
            start, ends = cfg.entry, [cfg.exit]
        # branches that cannot be taken after this log call: tests on the length of the same list that contradict the test the call sits under
        # (`if len(c) > 1: log.error(...)` ... `if len(c) == 1: found = c[0]`)
        contra = _contradicting_length_tests(cfg, fn, lg)
        before = cfg.path(start, lg.id, avoid=incs - {lg.id}) if start != lg.id else None
        counted_before = before is None
        after_ok = True
        w = None
        # feasibility w.r.t. flags that are set to None / a value and then tested (`model_dir = None ... if not model_dir`)
        flags = sorted({t.id for st in ast.walk(fn) if isinstance(st, ast.Assign) and isinstance(st.value, ast.Constant) and st.value.value is None
                        for t in st.targets if isinstance(t, ast.Name)})
        for e in ends:
            reach_all = True
            wit = None
            if e not in cfg.reachable(lg.id, avoid=incs | contra) or e == lg.id:
                continue
            for v in flags:
                pol = lambda t, _v=v: _none_test(t, _v)  # noqa: E731
                full, _ = explore_defs(cfg, v, pol)
                reach, prev = explore_defs(cfg, v, pol, src=lg.id, src_defs=full.get(lg.id, {cfg.entry}), avoid=incs | contra)
                if not reach.get(e):
                    reach_all = False
                    break
                wit = witness(cfg, prev, e)
            if reach_all:
                after_ok = False
                w = wit or cfg.path(lg.id, e, avoid=incs | contra)
        msg = ""
        for c in calls(lg.ast):
            if call_name(c) in ("log.error", "log.exception") and c.args:
                msg = norm(c.args[0])[:60]
        rep.ob(R, CLI + ":main", "log %s" % msg, counted_before or after_ok,
               "this error is logged but some path through it reaches the end of the iteration / function without `errors += …`: "
               "the exit status under-counts", path=cfg.describe(w) if w else "")
    rets = [x for x in cfg.stmts() if isinstance(x.ast, ast.Return)]
    rep.ob(R, CLI + ":main", "returns the counter", bool(rets) and all(is_name(r.ast.value, "errors") for r in rets),
           "main must return the error counter on every path")
    # parse errors
    pf = ctx.func(CLI, "parse_file", R)
    c2 = CFG(pf, R)
    bad = None
    # the local that holds the parse result (bound from <...>.parse(...)): returning it after a logged syntax error returns None
    results = {st.targets[0].id for st in ast.walk(pf) if isinstance(st, ast.Assign) and isinstance(st.targets[0], ast.Name)
               and isinstance(st.value, ast.Call) and (call_name(st.value) or "").endswith(".parse")}
    for x in c2.nodes:
        if _is_log_error(x):
            for r in c2.stmts():
                if isinstance(r.ast, ast.Return) and r.id in c2.reachable(x.id):
                    v = r.ast.value
                    falsy = v is None or (isinstance(v, ast.Constant) and not v.value) or (isinstance(v, ast.Name) and v.id in results)
                    if not falsy:
                        bad = norm(r.ast)
    rep.ob(R, CLI + ":parse_file", "failure returns None", bad is None, "after logging a parse error parse_file must return None (found %s)" % bad)
    pa = ctx.func(CLI, "parse_all", R)
    ok = False
    # parse_all: <r> = parse_file(path); if <r>: <tree>.extend(<r>) else: <failed>.append(path); return <files>, <failed>
    res = {st.targets[0].id for st in ast.walk(pa) if isinstance(st, ast.Assign) and isinstance(st.targets[0], ast.Name)
           and isinstance(st.value, ast.Call) and is_name(st.value.func, "parse_file")}
    failed = None
    for r in ast.walk(pa):
        if isinstance(r, ast.Return) and isinstance(r.value, ast.Tuple) and len(r.value.elts) == 2 and isinstance(r.value.elts[1], ast.Name):
            failed = r.value.elts[1].id
    if failed and res:
        # path form of the sentence above: on every path where the result is falsy the file is appended to <failed>; <tree>.extend(<r>) is
        # reached only where it is truthy, the append only where it is falsy
        c3 = CFG(pa, R)

        def _truth(g):
            t, v = g.ast, g.taken
            while isinstance(t, ast.UnaryOp) and isinstance(t.op, ast.Not):
                t, v = t.operand, not v
            if isinstance(t, ast.Compare) and len(t.ops) == 1 and isinstance(t.comparators[0], ast.Constant) and t.comparators[0].value is None \
                    and isinstance(t.ops[0], (ast.Is, ast.IsNot)):
                t, v = t.left, (v if isinstance(t.ops[0], ast.IsNot) else not v)
            return (t.id, v) if isinstance(t, ast.Name) and t.id in res else None

        assumes = [g for g in c3.nodes if g.kind == "assume" and _truth(g) is not None]
        appends = [x for x in c3.stmts() if ("%s.append(" % failed) in norm(x.ast) and not isinstance(x.ast, (ast.If, ast.For, ast.While))]
        extends = [x for x in c3.stmts() if any((".extend(%s)" % r_) in norm(x.ast) for r_ in res) and not isinstance(x.ast, (ast.If, ast.For, ast.While))]
        falsy = [g for g in assumes if _truth(g)[1] is False]
        ok = bool(appends) and bool(extends) and bool(falsy) \
            and all(c3.must_pass(g.id, c3.exit, {x.id for x in appends}) is None for g in falsy) \
            and all(any(_truth(g)[1] is True for g in c3.dominated_by(x.id, lambda y: y.kind == "assume" and _truth(y) is not None)) for x in extends) \
            and all(any(_truth(g)[1] is False for g in c3.dominated_by(x.id, lambda y: y.kind == "assume" and _truth(y) is not None)) for x in appends)
    rep.ob(R, CLI + ":parse_all", "failed files collected", ok, "a file that failed to parse must be appended to the list of failed files that parse_all returns")
    # main: <files>, <failed> = parse_all(...); errors += len(<failed>)
    got = None
    for st in ast.walk(fn):
        if isinstance(st, ast.Assign) and isinstance(st.value, ast.Call) and is_name(st.value.func, "parse_all") and isinstance(st.targets[0], ast.Tuple) \
                and len(st.targets[0].elts) == 2 and isinstance(st.targets[0].elts[1], ast.Name):
            got = st.targets[0].elts[1].id
    ok = got is not None and any(isinstance(x.ast, ast.AugAssign) and is_name(x.ast.target, "errors") and norm(x.ast.value) == "len(%s)" % got for x in cfg.stmts())
    rep.ob(R, CLI + ":main", "parse errors counted", ok, "errors += len(<files that failed to parse>)")


@SPEC.rule("R26.2", "no dropped result: a call to translate() (which reports failure by returning False) is never an expression statement")
def r26_2(ctx, rep):
    R = "R26.2"
    fn = _main_fn(ctx, R)
    tr = ctx.func(CLI, "translate", R)
    returns_flag = any(isinstance(r, ast.Return) and isinstance(r.value, ast.Constant) and r.value.value is False for r in walk_local(tr))
    if not returns_flag:
        rep.ob(R, CLI + ":translate", "failure flag", False, "translate no longer reports failure by returning False: review R26.2")
        return
    n = 0
    for st in ast.walk(fn):
        if isinstance(st, ast.stmt):
            for c in ([st.value] if isinstance(st, ast.Expr) and isinstance(st.value, ast.Call) else []):
                if call_name(c) == "translate":
                    n += 1
                    rep.ob(R, CLI + ":main", "call " + norm(c)[:60], False,
                           "the result of translate() is discarded: a model that fails to translate does not change the exit status")
    for c in calls(fn):
        if call_name(c) == "translate":
            p = getattr(c, "_parent", None)
            if not isinstance(p, ast.Expr):
                n += 1
                # the result must decide an increment
                cfg_ok = False
                q = p
                while q is not None and not isinstance(q, ast.stmt):
                    q = getattr(q, "_parent", None)
                if isinstance(q, ast.If):
                    branch = q.body if (isinstance(q.test, ast.UnaryOp) and isinstance(q.test.op, ast.Not)) else q.orelse
                    cfg_ok = any(isinstance(s, ast.AugAssign) and is_name(s.target, "errors") for s in branch)
                elif isinstance(q, ast.Assign):
                    cfg_ok = True
                rep.ob(R, CLI + ":main", "call " + norm(c)[:60], cfg_ok, "a False result of translate() must increment the error counter")
    if n < 1:
        raise MechanismMissing(R, "no call to translate() found in main()")


@SPEC.rule(
    "R26.3",
    "per-model isolation: in every `for model in args.model` loop each worker call (translate / flatten_class / "
    "transfer_model) is inside a try whose handler covers Exception and counts, or the worker itself converts every "
    "Exception into its failure flag",
)
def r26_3(ctx, rep):
    R = "R26.3"
    fn = _main_fn(ctx, R)
    tr = ctx.func(CLI, "translate", R)
    # does translate convert every Exception?
    tr_total = False
    for t in ast.walk(tr):
        if isinstance(t, ast.Try) and any("generate(" in norm(s) for s in t.body):
            classes = []
            for h in t.handlers:
                classes += handler_classes(h)[0]
                if not any(isinstance(x, ast.Return) and isinstance(x.value, ast.Constant) and x.value.value is False for x in ast.walk(h)):
                    classes = [c for c in classes if c not in handler_classes(h)[0]]
            tr_total = covers(classes, Exception)
    n = 0
    for lp in ast.walk(fn):
        if isinstance(lp, ast.For) and norm(lp.iter) == "args.model":
            for c in calls(lp):
                cn = call_name(c)
                if cn in WORKERS:
                    n += 1
                    protected = False
                    p = getattr(c, "_parent", None)
                    while p is not None and p is not lp:
                        if isinstance(p, ast.Try) and any(x is c for b in p.body for x in ast.walk(b)):
                            cl = []
                            for h in p.handlers:
                                if any(isinstance(s, ast.AugAssign) and is_name(s.target, "errors") for s in ast.walk(h)):
                                    cl += handler_classes(h)[0]
                            if covers(cl, Exception):
                                protected = True
                        p = getattr(p, "_parent", None)
                    if cn == "translate" and tr_total:
                        protected = True
                    rep.ob(R, CLI + ":main", "worker " + cn, protected,
                           "an exception escaping %s() for one model ends the loop: later models are never processed and the exit "
                           "status is a traceback instead of the error count" % cn)
    if n < 3:
        raise MechanismMissing(R, "fewer than 3 per-model worker calls found")


@SPEC.rule("R26.4", "the process exit status is main()'s return value: the __main__ block passes it to sys.exit; argument errors use argparse's error() (exit code 2)")
def r26_4(ctx, rep):
    R = "R26.4"
    mod = ctx.module(CLI, R)
    ok = False
    for st in mod.body:
        if isinstance(st, ast.If) and "__name__" in norm(st.test):
            var = None
            for s in st.body:
                if isinstance(s, ast.Assign) and isinstance(s.value, ast.Call) and call_name(s.value) == "main" and isinstance(s.targets[0], ast.Name):
                    var = s.targets[0].id
                if isinstance(s, ast.Expr) and isinstance(s.value, ast.Call) and call_name(s.value) == "sys.exit" and s.value.args:
                    a = s.value.args[0]
                    ok = (var is not None and is_name(a, var)) or (isinstance(a, ast.Call) and call_name(a) == "main")
    rep.ob(R, CLI + ":__main__", "sys.exit(main(...))", ok, "the exit status must be the error count returned by main()")
    fn = _main_fn(ctx, R)
    errs = [c for c in calls(fn) if call_name(c) == "argp.error"]
    rep.ob(R, CLI + ":main", "invalid option combination -> argp.error", len(errs) >= 1, "an invalid combination of arguments must go through argparse's error() (usage message, exit code 2)")


@SPEC.rule(
    "R26.5",
    "no per-model state carried between iterations: in every `for model in args.model` loop a local variable that is "
    "assigned inside the loop body is (re)defined in the body on every path before it is read there — otherwise the "
    "outcome of one model depends on the models requested before it (pure accumulators such as `errors += 1` excepted)",
)
def r26_5(ctx, rep):
    per_model_state(ctx, rep, "R26.5")


def per_model_state(ctx, rep, R):
    fn = _main_fn(ctx, R)
    cfg = CFG(fn, R)
    n = 0
    for lp in ast.walk(fn):
        if not (isinstance(lp, ast.For) and norm(lp.iter) == "args.model"):
            continue
        it = [x for x in cfg.nodes if x.kind == "iter" and x.ast is lp][0]
        entry = [s_ for s_ in cfg.succ[it.id] if cfg.nodes[s_].kind == "assume" and cfg.nodes[s_].taken][0]
        body_nodes = cfg.reachable(entry, avoid={it.id})
        assigned = {}
        for nid in body_nodes:
            x = cfg.nodes[nid]
            a = x.ast
            if x.kind == "stmt" and isinstance(a, ast.Assign):
                for t in a.targets:
                    for nm in ast.walk(t):
                        if isinstance(nm, ast.Name) and isinstance(nm.ctx, ast.Store):
                            assigned.setdefault(nm.id, set()).add(nid)
            elif x.kind == "iter":
                for nm in ast.walk(a.target):
                    if isinstance(nm, ast.Name):
                        assigned.setdefault(nm.id, set()).add(nid)
            elif x.kind == "handler" and a.name:
                assigned.setdefault(a.name, set()).add(nid)
        for var, defs in sorted(assigned.items()):
            if var == "_":
                continue
            uses = []
            for nid in body_nodes:
                x = cfg.nodes[nid]
                if x.kind in ("stmt", "test") and not isinstance(x.ast, (ast.FunctionDef, ast.ClassDef)):
                    expr = x.ast
                    loads = [nm for nm in ast.walk(expr) if isinstance(nm, ast.Name) and nm.id == var and isinstance(nm.ctx, ast.Load)]
                    if loads:
                        uses.append(nid)
                elif x.kind == "iter" and any(isinstance(nm, ast.Name) and nm.id == var for nm in ast.walk(x.ast.iter)):
                    uses.append(nid)
            n += 1
            bad = None
            for u in uses:
                w = cfg.path(entry, u, avoid=(defs | {it.id}) - {u})
                if w is not None and u not in defs:
                    bad = w
                    break
                if w is not None and u in defs and isinstance(cfg.nodes[u].ast, ast.Assign) and any(
                        isinstance(nm, ast.Name) and nm.id == var and isinstance(nm.ctx, ast.Load) for nm in ast.walk(cfg.nodes[u].ast.value)):
                    bad = w
                    break
            rep.ob(R, CLI + ":main", "loop variable `%s` in for model loop #%d" % (var, lp.lineno and [l for l in ast.walk(fn) if isinstance(l, ast.For) and norm(l.iter) == "args.model"].index(lp) + 1), bad is None,
                   "`%s` is assigned while processing one model and can be read while processing the next one before it is set again: "
                   "a model's outcome then depends on what was requested before it" % var, path=cfg.describe(bad) if bad else "")
    if n < 2:
        raise MechanismMissing(R, "fewer than 2 per-model local variables found")


@SPEC.rule(
    "R26.6",
    "translate() reports every failure: from every exception handler and every log.error/log.exception in translate(), "
    "every path to the function's exit goes through `return False` or a raise — never `return True` or any other value",
)
def r26_6(ctx, rep):
    R = "R26.6"
    fn = ctx.func(CLI, "translate", R)
    cfg = CFG(fn, R)
    fails = {x.id for x in cfg.stmts() if isinstance(x.ast, ast.Return) and isinstance(x.ast.value, ast.Constant) and x.ast.value.value is False}
    fails |= {x.id for x in cfg.stmts() if isinstance(x.ast, ast.Raise)}
    sites = [x for x in cfg.nodes if x.kind == "handler" or _is_log_error(x)]
    if not any(x.kind == "handler" for x in sites):
        raise MechanismMissing(R, "translate() has no exception handler: a backend failure would escape instead of being reported as False")
    k = {}
    for x in sites:
        w = cfg.path(x.id, cfg.exit, avoid=fails - {x.id})
        if x.kind == "handler":
            label = "handler `except %s`" % (norm(x.ast.type) if x.ast.type is not None else "")
        else:
            label = "log %s" % "; ".join(norm(c.args[0])[:50] for c in calls(x.ast) if call_name(c) in ("log.error", "log.exception", "log.critical") and c.args)
        k[label] = k.get(label, 0) + 1
        if k[label] > 1:
            label += " #%d" % k[label]
        rep.ob(R, CLI + ":translate", label, w is None,
               "after this failure some path leaves translate() without `return False`: main() counts a model as failed only "
               "when translate() returns False, so the exit status under-counts", path=cfg.describe(w) if w else "")
    rets = [x for x in cfg.stmts() if isinstance(x.ast, ast.Return)]
    rep.ob(R, CLI + ":translate", "boolean results only",
           all(isinstance(r.ast.value, ast.Constant) and isinstance(r.ast.value.value, bool) for r in rets) and bool(rets),
           "translate() must return True or False")


@SPEC.rule(
    "R26.7",
    "one file's failure never escapes parse_file: the call of the parser (and the file read) lies in a try whose handlers "
    "cover Exception and end in `return None` — an exception that escapes (UnicodeDecodeError for a wrongly encoded file, "
    "ValueError/IndexError/IOError from the listener) aborts main(): the file is not counted and the remaining files and "
    "models are not processed",
)
def r26_7(ctx, rep):
    from .c01 import covers, handler_classes
    R = "R26.7"
    fn = ctx.func(CLI, "parse_file", R)
    cfg = CFG(fn, R)
    site = CLI + ":parse_file"
    risky = [x for x in cfg.nodes if x.kind in ("stmt", "with") and not isinstance(x.ast, (ast.FunctionDef, ast.ClassDef)) and any(
        (call_name(c) or "").endswith(("parser.parse", ".open", ".read")) for c in (calls(x.ast) if x.kind == "stmt" else
                                                                                  [c for i in x.ast.items for c in ast.walk(i.context_expr) if isinstance(c, ast.Call)]))]
    if not risky:
        raise MechanismMissing(R, "parse_file no longer opens/reads/parses the file")
    for k, x in enumerate(risky, 1):
        hs = [cfg.nodes[s_] for s_ in cfg.succ[x.id] if cfg.nodes[s_].kind == "handler"]
        cov = None
        for h in hs:
            cl, _u = handler_classes(h.ast)
            if covers(cl, Exception):
                cov = h
        ok = cov is not None
        if ok:
            # every path from the handler to the exit returns None
            rets = [r for r in cfg.stmts() if isinstance(r.ast, ast.Return) and r.id in cfg.reachable(cov.id)]
            ok = bool(rets) and all(r.ast.value is None or (isinstance(r.ast.value, ast.Constant) and r.ast.value.value is None) for r in rets)
        rep.ob(R, site, "failure of `%s` is contained" % x.text()[:50], ok,
               "an exception raised here that is not one of the handled classes escapes parse_file and main(): e.g. a file that is not valid "
               "UTF-8 raises UnicodeDecodeError — it is not counted as an error and no further file or model is processed")


def _args_attrs(e):
    return {a.attr for a in ast.walk(e) if isinstance(a, ast.Attribute) and is_name(a.value, "args")}


@SPEC.rule(
    "R26.8",
    "a usage error is counted whatever else is requested: every log.error of main() that is reached before the first `return "
    "errors` (the argument checks) is guarded only by tests on the argument it is about — the arguments named in its own "
    "message, in the loop that feeds it, or in its innermost test; a guard on another argument (`if args.target and "
    "args.option:` around the -O syntax check) makes the error count depend on unrelated options",
)
def r26_8(ctx, rep):
    R = "R26.8"
    fn = _main_fn(ctx, R)
    cfg = CFG(fn, R)
    rets = [x for x in cfg.stmts() if isinstance(x.ast, ast.Return)]
    if not rets:
        raise MechanismMissing(R, "main() has no return")
    # "first" in control-flow terms (inlined helper code carries the helper's line numbers): the return closest to the entry
    dom = cfg.dominators()
    first_ret = min(rets, key=lambda x: (len(dom.get(x.id, ())), x.lineno))
    n = 0
    for lg in [x for x in cfg.nodes if _is_log_error(x) and first_ret.id in cfg.reachable(x.id)]:
        own = set()
        for c in calls(lg.ast):
            own |= _args_attrs(c)
        p_ = getattr(lg.ast, "_parent", None)
        inner_test = None
        while p_ is not None and p_ is not fn:
            if isinstance(p_, ast.For):
                own |= _args_attrs(p_.iter)
            if isinstance(p_, ast.If) and inner_test is None:
                inner_test = p_.test
                own |= _args_attrs(p_.test)
            p_ = getattr(p_, "_parent", None)
        # real tests only: the "loop exhausted" exit of an earlier for-loop dominates what follows it but decides nothing
        guards = [g for g in cfg.nodes if g.kind == "assume" and g.id in cfg.dominators()[lg.id] and g.ast is not inner_test
                  and not any(cfg.nodes[p].kind == "iter" for p in cfg.pred[g.id])]
        foreign = sorted({a for g in guards for a in _args_attrs(g.ast)} - own)
        msg = ""
        for c in calls(lg.ast):
            if call_name(c) in ("log.error", "log.exception") and c.args:
                msg = norm(c.args[0])[:50]
        n += 1
        rep.ob(R, CLI + ":main", "usage check %s depends only on its own argument" % msg, not foreign or not own,
               "this argument check (about args.%s) only runs when a test on args.%s allows it: the same invalid argument is then counted "
               "in one invocation and ignored in another" % ("/".join(sorted(own)) or "?", "/".join(foreign)))
    if n < 3:
        raise MechanismMissing(R, "fewer than 3 argument checks found before the first return of main()")


@SPEC.rule(
    "R26.9",
    "every listed file is parsed: each iteration of parse_all's loop over the files passes parse_file(<that file>) and then either "
    "merges the result or records the file as failed — no `already seen` shortcut keyed by a name skips a file, because the exit "
    "status counts the files with parse errors and two directories may hold files of the same name",
)
def r26_9(ctx, rep):
    from ..cfg import iteration_skips
    R = "R26.9"
    fn = ctx.func(CLI, "parse_all", R)
    site = CLI + ":parse_all"
    loops = [lp for lp in walk_local(fn) if isinstance(lp, ast.For) and any(is_name(c.func, "parse_file") for st in lp.body for c in calls(st))]
    if len(loops) != 1 or not isinstance(loops[0].target, ast.Name):
        raise MechanismMissing(R, "the loop of parse_all that calls parse_file was not found")
    lp = loops[0]
    v = lp.target.id
    cfg = CFG(fn, R)
    w = iteration_skips(cfg, lp, lambda x: x.kind == "stmt" and any(is_name(c.func, "parse_file") and c.args and norm(c.args[0]) == v for c in calls(x.ast)))
    rep.ob(R, site, "each file of the list is handed to parse_file", w is None,
           "an iteration over the files can end without parsing the file: its classes are missing from the tree and its syntax errors are not counted",
           path=cfg.describe(w) if w else "")
    w = iteration_skips(cfg, lp, lambda x: x.kind == "stmt" and any(isinstance(c.func, ast.Attribute) and c.func.attr in ("extend", "append") for c in calls(x.ast)))
    rep.ob(R, site, "each file is merged into the tree or recorded as failed", w is None,
           "an iteration can end with the file neither merged nor listed among the files with errors", path=cfg.describe(w) if w else "")
    # the list iterated is the list returned (the caller counts on it)
    rep.ob(R, site, "the loop runs over the complete file list", norm(lp.iter) in {norm(st.targets[0]) for st in walk_local(fn) if isinstance(st, ast.Assign) and
                                                                                   isinstance(st.value, ast.Call) and is_name(st.value.func, "list_modelica_files")},
           "the loop iterates `%s`, not the result of list_modelica_files(paths)" % norm(lp.iter))


@SPEC.rule(
    "R26.10",
    "one invocation does not see another: no function of tools/compiler.py writes a module-level container, is wrapped in a "
    "caching decorator, or changes / hands out a mutable default argument — main() is called repeatedly in one process by the "
    "test-suite and by embedding scripts, and options or error counts remembered from an earlier call change the exit status of a later one",
)
def r26_10(ctx, rep):
    from .c25 import module_state_free
    module_state_free(ctx, rep, "R26.10", CLI, "the compiler tool")


@SPEC.rule(
    "R26.11",
    "the exit status is a count: an `errors += 1` that answers a test on a collection gathered from an argument list (a comprehension "
    "or filter over args.PATH, args.option, args.model) counts one for any number of offending items — the increment for a per-item "
    "defect sits in a loop over the items, or adds the number of offenders (`errors += len(...)`)",
)
def r26_11(ctx, rep):
    R = "R26.11"
    fn = _main_fn(ctx, R)
    site = CLI + ":main"
    cfg = CFG(fn, R)
    # locals gathered from an argument list
    gathered = {}
    for st in walk_local(fn):
        if isinstance(st, ast.Assign) and len(st.targets) == 1 and isinstance(st.targets[0], ast.Name):
            v = st.value
            src = None
            for x in ast.walk(v):
                if isinstance(x, (ast.ListComp, ast.GeneratorExp, ast.SetComp)) and isinstance(x.generators[0].iter, ast.Attribute) and is_name(x.generators[0].iter.value, "args"):
                    src = x.generators[0].iter.attr
                if isinstance(x, ast.Call) and is_name(x.func, "filter") and len(x.args) == 2 and isinstance(x.args[1], ast.Attribute) and is_name(x.args[1].value, "args"):
                    src = x.args[1].attr
            if src:
                gathered[st.targets[0].id] = src
    n = 0
    per_item = 0
    for x in cfg.nodes:
        if not _is_inc(x):
            continue
        n += 1
        inc = x.ast.value
        for g in cfg.dominated_by(x.id, lambda y: y.kind == "assume"):
            used = {z.id for z in ast.walk(g.ast) if isinstance(z, ast.Name)} & set(gathered)
            if not used:
                continue
            per_item += 1
            counts_all = any(isinstance(c, ast.Call) and is_name(c.func, "len") and c.args and isinstance(c.args[0], ast.Name) and c.args[0].id in used for c in ast.walk(inc))
            rep.ob(R, site, "`%s` under `%s` counts every offender" % (norm(x.ast), norm(g.ast)[:40]), counts_all,
                   "`%s` collects the offending items of args.%s and the counter is raised by %s for all of them: two missing paths (or two malformed "
                   "options) give exit status 1" % (sorted(used)[0], gathered[sorted(used)[0]], norm(inc)))
    # the per-item loops that exist today must stay per-item: each loop over an args list that logs an error counts inside the loop
    loops = [lp for lp in walk_local(fn) if isinstance(lp, ast.For) and isinstance(lp.iter, ast.Attribute) and is_name(lp.iter.value, "args")]
    for lp in loops:
        logs = [c for st in lp.body for c in ast.walk(st) if isinstance(c, ast.Call) and isinstance(c.func, ast.Attribute) and c.func.attr == "error" and is_name(c.func.value, "log")]
        if logs:
            per_item += 1
            incs = [st for b in lp.body for st in ast.walk(b) if isinstance(st, ast.AugAssign) and is_name(st.target, "errors")]
            rep.ob(R, site, "per-item check over args.%s counts inside the loop" % lp.iter.attr, bool(incs), "the loop over args.%s logs an error per item but does not count it" % lp.iter.attr)
    if n < 3:
        raise MechanismMissing(R, "fewer than 3 increments of the error counter found in main()")
    if per_item < 1:
        raise MechanismMissing(R, "no per-item argument check (loop over args.PATH / args.option) found in main()")


@SPEC.rule(
    "R26.12",
    "argument errors win: every test that ends in argp.error(...) (exit status 2) is passed on every path from the start of main() to "
    "any `return` — in particular before the early `return errors` for counted usage errors, so that `-t sympy` without `-m` exits 2 "
    "whatever else is wrong with the command line",
)
def r26_12(ctx, rep):
    R = "R26.12"
    fn = _main_fn(ctx, R)
    site = CLI + ":main"
    cfg = CFG(fn, R)
    guards = []
    for n in walk_local(fn):
        if isinstance(n, ast.If) and any(isinstance(c, ast.Call) and isinstance(c.func, ast.Attribute) and c.func.attr == "error" and is_name(c.func.value, "argp")
                                         for st in n.body for c in ast.walk(st)):
            guards.append(n)
    if not guards:
        raise MechanismMissing(R, "no argp.error(...) check found in main()")
    rets = [x for x in cfg.stmts() if isinstance(x.ast, ast.Return)]
    for g in guards:
        tn = {x.id for x in cfg.nodes if x.kind == "test" and x.ast is g.test}
        if not tn:
            raise AnalysisError(R, "test node of the argp.error check not found in the CFG")
        bad = None
        for r in rets:
            bad = bad or cfg.must_pass(cfg.entry, r.id, tn)
        rep.ob(R, site, "`%s` is tested before any return" % norm(g.test)[:50], bad is None,
               "main() can return (with the count of usage errors) before this argument check: the command line then exits with that count instead of 2",
               path=cfg.describe(bad) if bad else "")


def every_model_attempted(ctx, rep, R):
    """in each loop of main() over the requested models, no test inside the loop body reads the running error counter: whether model k is
    attempted does not depend on how models 1..k-1 fared (the counter may gate the loop as a whole — parse errors before it — not single models)"""
    fn = _main_fn(ctx, R)
    site = CLI + ":main"
    n = 0
    for lp in walk_local(fn):
        if not (isinstance(lp, ast.For) and norm(lp.iter) == "args.model"):
            continue
        n += 1
        gates = []
        for t in ast.walk(lp):
            test = t.test if isinstance(t, (ast.If, ast.While, ast.IfExp)) else None
            if test is not None and t is not lp and any(is_name(x, "errors") for x in ast.walk(test)):
                gates.append("line %d: `%s`" % (t.lineno, norm(test)[:40]))
        rep.ob(R, site, "model loop #%d attempts every requested model" % n, not gates,
               "%s — inside the loop the error counter also counts the failures of the models before this one, so one failing model switches off "
               "all later ones: they neither succeed nor are they counted" % "; ".join(gates[:2]))
    if n < 2:
        raise MechanismMissing(R, "expected the sympy/flatten and the casadi loop over args.model in main(), found %d" % n)


@SPEC.rule(
    "R26.13",
    "each requested model succeeds or fails on its own: inside the loops over args.model nothing is made to depend on the running error "
    "counter — a model is attempted (and, failing, counted) whatever happened to the models before it",
)
def r26_13(ctx, rep):
    every_model_attempted(ctx, rep, "R26.13")


@SPEC.rule(
    "R26.16",
    "what is counted is what was asked for: every *.mo file found below a directory given on the command line is listed for parsing "
    "(list_modelica_files appends on every iteration of its glob loop) — a file that is filtered out can neither fail nor be counted",
)
def r26_16(ctx, rep):
    from .c27 import every_globbed_file_listed
    every_globbed_file_listed(ctx, rep, "R26.16")


@SPEC.rule(
    "R26.15",
    "every error is reported and counted for the item it belongs to: no function of the compiler tool reads a for-loop's variable after that loop has ended (the value the last iteration left behind)",
)
def r26_15(ctx, rep):
    from ._literal import no_stale_loop_variables
    no_stale_loop_variables(ctx, rep, "R26.15", CLI, "the compiler tool")


@SPEC.rule(
    "R26.14",
    "a file that is not UTF-8 counts as a file with errors: parse_file opens the file with strict decoding (no errors='replace' / 'ignore' / "
    "'surrogateescape') — a lenient decoder turns undecodable bytes in a comment into text, the file parses, and the exit status is one too low",
)
def r26_14(ctx, rep):
    R = "R26.14"
    fn = ctx.func(CLI, "parse_file", R)
    site = CLI + ":parse_file"
    opens = [c for c in calls(fn) if (isinstance(c.func, ast.Attribute) and c.func.attr in ("open", "read_text")) or is_name(c.func, "open")]
    if not opens:
        raise MechanismMissing(R, "parse_file opens no file")
    for c in opens:
        err = next((k.value for k in c.keywords if k.arg == "errors"), None)
        ok = err is None or (isinstance(err, ast.Constant) and err.value in ("strict", None))
        rep.ob(R, site, "`%s` decodes strictly" % norm(c)[:60], ok, "errors=%s hides undecodable bytes from the parser: the file is counted as good" % (norm(err) if err is not None else ""))


@SPEC.rule(
    "R26.17",
    "each requested model is looked for among all files: the compiler tool iterates no one-shot iterator inside a loop it was created outside "
    "of (a generator of candidate files made once in front of the loop over -m models is empty for the second model, which is then counted "
    "as an error)",
)
def r26_17(ctx, rep):
    from ._literal import no_reused_iterators
    no_reused_iterators(ctx, rep, "R26.17", CLI, "the compiler tool", 3)


@SPEC.rule(
    "R26.18",
    "a model's outcome does not depend on the models requested before it: flatten works on copies of what it looks up in the library tree "
    "(the ownership analysis of R05.1 evaluated for this property) — a class flattened in place is found already rewritten by the next "
    "request that uses it, which then fails, or succeeds, for another reason than when requested alone",
)
def r26_18(ctx, rep):
    from ..engine import run_as
    from .c05 import r05_1
    run_as(r05_1, "R26.18", ctx, rep)


@SPEC.rule(
    "R26.19",
    "every requested model is either processed or counted: in main, each iteration of a loop over the requested models (`args.model`) "
    "passes a call that handles that model (translate / flatten_class / transfer_model, given the loop variable) or an increment of the error "
    "counter — a `continue` in front of the work (a `seen` set keyed by part of the name, a filter) drops a model whose failure would have "
    "been counted, and the exit status is 0",
)
def r26_19(ctx, rep):
    from ..cfg import iteration_skips
    R = "R26.19"
    fn = ctx.func(CLI, "main", R)
    site = CLI + ":main"
    cfg = CFG(fn, R)
    n = 0
    # the error counter is what main returns
    counters = {r.value.id for r in ast.walk(fn) if isinstance(r, ast.Return) and isinstance(r.value, ast.Name)}
    if not counters:
        raise MechanismMissing(R, "main returns no counter")
    for lp in ast.walk(fn):
        if not (isinstance(lp, ast.For) and isinstance(lp.target, ast.Name) and norm(lp.iter).endswith(".model")):
            continue
        n += 1
        v = lp.target.id

        def handles(x, v=v, lp=lp, counters=counters):
            a = x.ast
            if x.kind != "stmt" or isinstance(a, (ast.If, ast.For, ast.While, ast.Try, ast.With)):
                # an `if not translate(..model..):` test is an assume node: look at its expression
                if x.kind == "assume":
                    if norm(a) == norm(lp.iter) and not x.taken:
                        return True  # inside a loop over <list> the list is not empty: this branch is not a path
                    return any(isinstance(c, ast.Call) and any(is_name(g, v) for g in c.args) and (call_name(c) or "").split(".")[-1] in (
                        "translate", "flatten_class", "transfer_model") for c in ast.walk(a))
                return False
            if isinstance(a, ast.AugAssign) and isinstance(a.target, ast.Name) and a.target.id in counters:
                return True
            return any(isinstance(c, ast.Call) and any(is_name(g, v) for g in c.args) and (call_name(c) or "").split(".")[-1] in (
                "translate", "flatten_class", "transfer_model") for c in ast.walk(a))

        w = iteration_skips(cfg, lp, handles)
        rep.ob(R, site, "loop over the requested models (line-independent: `for %s in %s`) handles or counts every model" % (v, norm(lp.iter)), w is None,
               "an iteration can end without translating / flattening `%s` and without counting an error: that model's failure never reaches the exit status" % v,
               path=cfg.describe(w) if w else "")
    if n < 2:
        raise MechanismMissing(R, "the loops over the requested models were not found in main (found %d)" % n)


# -- seeded variants ---------------------------------------------------------
from ._mut import delete_stmt_where, replace_in_func  # noqa: E402


@SPEC.mutant("flatten failure not counted", CLI, "R26.1", "Error flattening")
def _m1(mod):
    def edit(fn):
        for n in ast.walk(fn):
            if isinstance(n, ast.ExceptHandler) and any("Error flattening" in norm(s) for s in n.body):
                n.body = [s for s in n.body if not isinstance(s, ast.AugAssign)]
                return True
        return False

    return mod if replace_in_func(mod, "main", edit) else None


@SPEC.mutant("casadi failure handler narrowed", CLI, "R26.3", "transfer_model")
def _m2(mod):
    def edit(fn):
        for n in ast.walk(fn):
            if isinstance(n, ast.ExceptHandler) and any("Problem generating CasADi" in norm(s) for s in n.body):
                n.type = ast.Name(id="KeyError", ctx=ast.Load())
                return True
        return False

    return mod if replace_in_func(mod, "main", edit) else None


@SPEC.mutant("missing path not counted", CLI, "R26.1", "does not exist")
def _m3(mod):
    def edit(fn):
        for n in ast.walk(fn):
            if isinstance(n, ast.If) and norm(n.test) == "not path.exists()":
                n.body = [s for s in n.body if not isinstance(s, ast.AugAssign)]
                return True
        return False

    return mod if replace_in_func(mod, "main", edit) else None


@SPEC.mutant("main returns 0", CLI, "R26.1", "returns the counter")
def _m4(mod):
    def edit(fn):
        for i, st in enumerate(fn.body):
            if isinstance(st, ast.Return) and is_name(st.value, "errors") and i == len(fn.body) - 1:
                st.value = ast.parse("min(errors, 1)", mode="eval").body
                return True
        return False

    return mod if replace_in_func(mod, "main", edit) else None


@SPEC.mutant("model_dir initialised once before the loop", CLI, "R26.5", "model_dir")
def _m5(mod):
    def edit(fn):
        for lp in ast.walk(fn):
            if isinstance(lp, ast.For) and norm(lp.iter) == "args.model":
                for i, st in enumerate(lp.body):
                    if norm(st) == "model_dir = None":
                        lp.body.pop(i)
                        fn.body.insert(0, st)
                        return True
        return False

    return mod if replace_in_func(mod, "main", edit) else None


@SPEC.mutant("write-error handler returns False only at non-debug level", CLI, "R26.6", "except OSError")
def _m6(mod):
    def edit(fn):
        for h in ast.walk(fn):
            if isinstance(h, ast.ExceptHandler) and norm(h.type) == "OSError" and isinstance(h.body[-1], ast.Return) and isinstance(h.body[0], ast.If):
                r = h.body.pop()
                h.body[0].orelse.append(r)
                return True
        return False

    return mod if replace_in_func(mod, "translate", edit) else None


@SPEC.mutant("parse_file handles only listener and OS errors", CLI, "R26.7", "is contained")
def _m_narrow(mod):
    def edit(fn):
        for h in ast.walk(fn):
            if isinstance(h, ast.ExceptHandler) and is_name(h.type, "Exception"):
                h.type = ast.parse("(KeyError, AttributeError, OSError)", mode="eval").body
                return True
        return False

    return mod if replace_in_func(mod, "parse_file", edit) else None


@SPEC.mutant("option syntax only checked with a target", CLI, "R26.8", "Invalid option syntax")
def _m_optguard(mod):
    def edit(fn):
        for n in ast.walk(fn):
            if isinstance(n, ast.If) and norm(n.test) == "args.option" and any(isinstance(x, ast.For) for x in n.body):
                n.test = ast.parse("args.target and args.option", mode="eval").body
                return True
        return False

    return mod if replace_in_func(mod, "main", edit) else None


@SPEC.mutant("files with an already seen base name are not parsed", CLI, "R26.9", "handed to parse_file")
def _m_seen_names(mod):
    def edit(fn):
        for n in ast.walk(fn):
            if isinstance(n, ast.For) and "parse_file(" in norm(n):
                n.body.insert(0, ast.parse("if path.name in _seen:\n    continue").body[0])
                n.body.insert(1, ast.parse("_seen.add(path.name)").body[0])
                i = fn.body.index(n)
                fn.body.insert(i, ast.parse("_seen = set()").body[0])
                return True
        return False

    return mod if replace_in_func(mod, "parse_all", edit) else None


@SPEC.mutant("options collected in a mutable default argument", CLI, "R26.10", "no state kept")
def _m_mutable_default(mod):
    for fn in ast.walk(mod):
        if isinstance(fn, ast.FunctionDef) and fn.name == "translate":
            fn.args.args.append(ast.arg(arg="_seen", annotation=None))
            fn.args.defaults.append(ast.List(elts=[], ctx=ast.Load()))
            fn.body.insert(1 if isinstance(fn.body[0], ast.Expr) else 0, ast.parse("_seen.append(1)").body[0])
            return mod
    return None


@SPEC.mutant("missing paths reported and counted as one", CLI, "R26.11", "counts every offender")
def _m_missing_once(mod):
    def edit(fn):
        for i, st in enumerate(fn.body):
            if isinstance(st, ast.For) and norm(st.iter) == "args.PATH":
                fn.body[i:i + 1] = ast.parse("missing = [str(p) for p in args.PATH if not p.exists()]\nif missing:\n    log.error('missing %s', missing)\n    errors += 1").body
                return True
        return False

    return mod if replace_in_func(mod, "main", edit) else None


@SPEC.mutant("target/model check after the usage-error return", CLI, "R26.12", "tested before any return")
def _m_late_argcheck(mod):
    def edit(fn):
        idx = [i for i, st in enumerate(fn.body) if isinstance(st, ast.If) and "argp.error" in norm(st)]
        ret = [i for i, st in enumerate(fn.body) if isinstance(st, ast.If) and norm(st.test) == "errors" and any(isinstance(x, ast.Return) for x in st.body)]
        if not idx or not ret or idx[0] > ret[0]:
            return False
        st = fn.body.pop(idx[0])
        fn.body.insert(ret[0], st)
        return True

    return mod if replace_in_func(mod, "main", edit) else None


@SPEC.mutant("models after a failing one are skipped", CLI, "R26.13", "attempts every requested model")
def _m_skip_after_failure(mod):
    def edit(fn):
        for lp in ast.walk(fn):
            if isinstance(lp, ast.For) and norm(lp.iter) == "args.model":
                lp.body.insert(0, ast.parse("if errors:\n    continue").body[0])
                return True
        return False

    return mod if replace_in_func(mod, "main", edit) else None


@SPEC.mutant("requested models filtered through a seen-set before they are handled", CLI, "R26.19", "handles or counts every model")
def _m_seen_models(mod):
    def edit(fn):
        for lp in ast.walk(fn):
            if isinstance(lp, ast.For) and isinstance(lp.target, ast.Name) and norm(lp.iter).endswith(".model"):
                lp.body.insert(0, ast.parse("if %s.split('.')[0] in _seen:\n    continue" % lp.target.id).body[0])
                lp.body.insert(1, ast.parse("_seen.add(%s.split('.')[0])" % lp.target.id).body[0])
                fn.body.insert(0, ast.parse("_seen = set()").body[0])
                return True
        return False

    return mod if replace_in_func(mod, "main", edit) else None
