"""Lossless rendering of literal values (shared by C24 and C25).

Python's str()/repr() of an int, bool or float is the shortest text that reads back to the same value.  Anything that
goes through a format specification with a precision or a numeric presentation type (`{:g}`, `%.6f`, `round`, `int`)
does not.  The rule below looks at a handler that turns `<node>.value` into text, follows the helpers it calls (module
functions and methods of the same class, two levels), and reports every lossy conversion applied to data."""
from __future__ import annotations

import ast
import re
import string
from typing import List, Tuple

from ..engine import norm
from ..pyutil import call_name

_LOSSY_SPEC = re.compile(r"(\.\d+)|[eEfFgGn%bcdoxX]$")
_PCT = re.compile(r"%(?:\([^)]*\))?[#0\- +]*(?:\*|\d+)?(?:\.(?:\*|\d+))?([diouxXeEfFgGcrsa%])")
_PCT_FULL = re.compile(r"%(?:\([^)]*\))?[#0\- +]*(?:\*|\d+)?(\.(?:\*|\d+))?([diouxXeEfFgGcrsa%])")
LOSSY_CALLS = {"round", "int", "math.floor", "math.ceil", "math.trunc", "np.float32", "numpy.float32", "np.float16", "np.round", "np.around",
               "numpy.round", "np.format_float_positional", "np.format_float_scientific", "format"}


def _spec_lossy(spec: str) -> bool:
    spec = spec or ""
    return bool(spec) and bool(_LOSSY_SPEC.search(spec))


def closure(mod: ast.Module, cls: ast.ClassDef, fn: ast.FunctionDef, depth: int = 2) -> List[ast.FunctionDef]:
    mod_fns = {n.name: n for n in mod.body if isinstance(n, ast.FunctionDef)}
    cls_fns = {n.name: n for n in cls.body if isinstance(n, ast.FunctionDef)} if cls is not None else {}
    out, frontier = [fn], [fn]
    for _ in range(depth):
        nxt = []
        for f in frontier:
            for c in ast.walk(f):
                if isinstance(c, ast.Call):
                    tgt = None
                    if isinstance(c.func, ast.Name) and c.func.id in mod_fns:
                        tgt = mod_fns[c.func.id]
                    elif isinstance(c.func, ast.Attribute) and isinstance(c.func.value, ast.Name) and c.func.value.id in ("self", "cls") and c.func.attr in cls_fns:
                        tgt = cls_fns[c.func.attr]
                    if tgt is not None and tgt not in out:
                        out.append(tgt)
                        nxt.append(tgt)
        frontier = nxt
    return out


def _from_value(fn, exprs, helper: bool, depth: int = 4) -> bool:
    """does any of `exprs` (transitively through local assignments of fn) read a `.value` attribute — or, in a helper,
    one of its parameters?"""
    params = {a.arg for a in fn.args.args + fn.args.kwonlyargs} - {"self", "cls"}
    seen, todo = set(), list(exprs)
    for _ in range(depth):
        nxt = []
        for e in todo:
            for x in ast.walk(e):
                if isinstance(x, ast.Attribute) and x.attr == "value":
                    return True
                if isinstance(x, ast.Name) and x.id not in seen:
                    seen.add(x.id)
                    if helper and x.id in params:
                        return True
                    for st in ast.walk(fn):
                        if isinstance(st, ast.Assign) and any(isinstance(t, ast.Name) and t.id == x.id for t in st.targets):
                            nxt.append(st.value)
                        elif isinstance(st, (ast.For, ast.comprehension)) and any(isinstance(t, ast.Name) and t.id == x.id for t in ast.walk(st.target)):
                            nxt.append(st.iter)
        todo = nxt
    return False


def lossy_conversions(fns) -> List[Tuple[ast.AST, str, str]]:
    """(node, function name, why) for every conversion in `fns` that can change the text of a value read from `.value`"""
    raw = _lossy_raw(fns)
    out = []
    for n, fname, why, operands in raw:
        fn = [f for f in fns if f.name == fname][0]
        if _from_value(fn, operands, helper=fn is not fns[0]):
            out.append((n, fname, why))
    return out


def _lossy_raw(fns):
    out = []
    for fn in fns:
        for n in ast.walk(fn):
            if isinstance(n, ast.FormattedValue) and n.format_spec is not None:
                spec = "".join(v.value for v in n.format_spec.values if isinstance(v, ast.Constant) and isinstance(v.value, str))
                if _spec_lossy(spec) or any(not isinstance(v, ast.Constant) for v in n.format_spec.values):
                    out.append((n, fn.name, "f-string format specification %r" % spec, [n.value]))
            elif isinstance(n, ast.Call) and isinstance(n.func, ast.Attribute) and n.func.attr == "format" and isinstance(n.func.value, ast.Constant) \
                    and isinstance(n.func.value.value, str):
                try:
                    fields = list(string.Formatter().parse(n.func.value.value))
                except ValueError:
                    fields = []
                for _lit, fld, spec, _conv in fields:
                    if fld is not None and _spec_lossy(spec):
                        out.append((n, fn.name, "str.format specification %r" % spec, list(n.args) + [k.value for k in n.keywords]))
            elif isinstance(n, ast.BinOp) and isinstance(n.op, ast.Mod) and isinstance(n.left, ast.Constant) and isinstance(n.left.value, str):
                for m in _PCT_FULL.finditer(n.left.value):
                    if m.group(2) in "diouxXeEfFgGc" or (m.group(1) and m.group(2) not in "%"):
                        out.append((n, fn.name, "%%-format %r" % m.group(0), [n.right]))
            elif isinstance(n, ast.Call) and (call_name(n) or "") in LOSSY_CALLS:
                if call_name(n) == "format" and len(n.args) == 2 and isinstance(n.args[1], ast.Constant) and not _spec_lossy(str(n.args[1].value)):
                    continue
                if call_name(n) == "format" and len(n.args) < 2:
                    continue
                out.append((n, fn.name, "call of %s()" % call_name(n), list(n.args)))
    return out


def literal_rule(ctx, rep, R, rel, cls_name, handlers, what):
    """obligations: each handler reads `.value`, and no lossy conversion exists in the handler or the helpers it calls"""
    mod = ctx.module(rel)
    cls = ctx.cls(rel, cls_name, R)
    for h in handlers:
        fn = ctx.func(rel, "%s.%s" % (cls_name, h), R)
        fns = closure(mod, cls, fn)
        reads = [a for f in fns for a in ast.walk(f) if isinstance(a, ast.Attribute) and a.attr == "value"]
        rep.ob(R, "%s:%s.%s" % (rel, cls_name, h), "literal value is read", bool(reads), "%s no longer reads the node's .value" % h)
        bad = lossy_conversions(fns)
        rep.ob(R, "%s:%s.%s" % (rel, cls_name, h), "lossless text of literal values",
               not bad, "%s: %s" % (what, "; ".join("%s in %s(): `%s`" % (w, f, norm(n)[:60]) for n, f, w in bad[:3])))


# -- implicit string concatenation inside a table of words ---------------------------------------------------------------
import io  # noqa: E402
import tokenize  # noqa: E402

_WORD = re.compile(r"^[A-Za-z_][A-Za-z0-9_.]*$")


def implicit_concatenations(text: str):
    """[(lineno, joined, pieces)] for every element of a list/tuple/set literal of word-like strings (>= 2 elements) that is
    spelled as several adjacent string tokens: `("a", "b" "c", "d")` — Python joins "b" "c" into "bc", which is what a lost
    comma in a table of names does.  Only collections whose elements are all word-like strings are looked at (a message
    broken over lines is not a table entry), and only elements whose pieces are word-like as well."""
    tree = ast.parse(text)
    lines = text.splitlines(keepends=True)
    out = []
    for n in ast.walk(tree):
        if not isinstance(n, (ast.List, ast.Tuple, ast.Set)) or len(n.elts) < 2:
            continue
        if not all(isinstance(e, ast.Constant) and isinstance(e.value, str) and _WORD.match(e.value) for e in n.elts):
            continue
        for e in n.elts:
            seg = ast.get_source_segment(text, e)
            if seg is None:
                continue
            try:
                toks = [t for t in tokenize.generate_tokens(io.StringIO("(" + seg + ")").readline) if t.type == tokenize.STRING]
            except (tokenize.TokenError, IndentationError):
                continue
            if len(toks) > 1:
                out.append((e.lineno, e.value, [t.string for t in toks]))
    return out


_SELFTEST = 'T = (\n    "parameter",\n    "discrete"\n    "constant",\n)\nM = ("a long message "\n     "in two pieces")\nU = ["x", "y"]\n'


def no_implicit_concat(ctx, rep, R, rel, what):
    # the rule's expected count is zero: a positive example must match on every run
    st = implicit_concatenations(_SELFTEST)
    if [j for _, j, _ in st] != ["discreteconstant"]:
        from ..engine import AnalysisError
        raise AnalysisError(R, "self-test of the implicit-concatenation detector failed: %r" % (st,))
    text = ctx.read(rel, R)
    hits = implicit_concatenations(text)
    rep.ob(R, rel, "no entry of a table of names is two adjacent string literals (%s)" % what, not hits,
           "%s — a comma is missing: Python joins adjacent literals, so the table holds one joined word instead of the two intended "
           "ones and neither of them is recognised any more" % "; ".join("line %d: %s = %s" % (ln, " ".join(p), repr(j)) for ln, j, p in hits[:5]))


# -- str.strip with a multi-character argument ---------------------------------------------------------------------------------
def charset_strips(mod: ast.AST):
    """[(lineno, text)] of .strip/.lstrip/.rstrip calls whose argument is a string literal of two or more characters: the argument
    is a SET of characters, not a prefix/suffix — `"depth".lstrip("der(")` is "pth"."""
    out = []
    for c in ast.walk(mod):
        if isinstance(c, ast.Call) and isinstance(c.func, ast.Attribute) and c.func.attr in ("strip", "lstrip", "rstrip") and len(c.args) == 1 \
                and isinstance(c.args[0], ast.Constant) and isinstance(c.args[0].value, str) and len(c.args[0].value) >= 2:
            out.append((c.lineno, norm(c)[:70]))
    return out


def no_charset_strip(ctx, rep, R, rel, what):
    probe = ast.parse("n = name.lstrip('der(').rstrip(')')\nm = s.strip()\n")
    if [t for _l, t in charset_strips(probe)] != ["name.lstrip('der(')"]:
        from ..engine import AnalysisError
        raise AnalysisError(R, "self-test of the strip detector failed")
    hits = charset_strips(ctx.module(rel, R))
    rep.ob(R, rel, "no prefix/suffix is removed with a character-set strip (%s)" % what, not hits,
           "%s — str.strip/lstrip/rstrip take a set of characters: every leading (trailing) character that occurs in the argument is removed, "
           "so names that begin with one of those letters lose their first letters" % "; ".join("line %d: %s" % h for h in hits[:4]))


# -- predicate methods used without being called ---------------------------------------------------------------------------------
def uncalled_predicates(mod: ast.AST):
    """[(lineno, text)] of attribute reads `<x>.is_foo` / `<x>.has_foo` that are not called although the same attribute name is called
    elsewhere in the module (so it is a method): a bound method is always true"""
    called = {c.func.attr for c in ast.walk(mod) if isinstance(c, ast.Call) and isinstance(c.func, ast.Attribute)}
    assigned = {t.attr for st in ast.walk(mod) if isinstance(st, (ast.Assign, ast.AnnAssign, ast.AugAssign))
                for t in (st.targets if isinstance(st, ast.Assign) else [st.target]) if isinstance(t, ast.Attribute)}
    funcs = {id(c.func) for c in ast.walk(mod) if isinstance(c, ast.Call)}
    out = []
    for x in ast.walk(mod):
        if isinstance(x, ast.Attribute) and isinstance(x.ctx, ast.Load) and id(x) not in funcs and re.match(r"^(is|has|n)_[a-z0-9_]+$|^(numel|size1|size2|nnz)$", x.attr) \
                and x.attr in called and x.attr not in assigned:
            out.append((x.lineno, norm(x)[:60]))
    return out


def no_uncalled_predicates(ctx, rep, R, rel, what):
    probe = ast.parse("a = v.is_constant() and v.is_regular\nb = w.is_regular()\n")
    if [t for _l, t in uncalled_predicates(probe)] != ["v.is_regular"]:
        from ..engine import AnalysisError
        raise AnalysisError(R, "self-test of the uncalled-predicate detector failed")
    hits = uncalled_predicates(ctx.module(rel, R))
    rep.ob(R, rel, "every predicate method is called where its answer is used (%s)" % what, not hits,
           "%s — the method object itself is always true: the test it was meant to make never fails (an unset parameter counts as regular, a symbolic "
           "value as constant, ...)" % "; ".join("line %d: %s" % h for h in hits[:4]))


# -- a loop variable read after its loop ---------------------------------------------------------------------------------------
def no_stale_loop_variables(ctx, rep, R, rel, what, min_functions=3):
    from ..pyutil import stale_loop_variable_uses
    from ..engine import AnalysisError
    probe = ast.parse("def f(t):\n    items = []\n    for k in ['a', 'b']:\n        items.append(k)\n    if t:\n        items.append(k)\n    for k in t:\n        pass\n    return [k for k in items]\n").body[0]
    if [v for v, _l in stale_loop_variable_uses(probe)] != ["k"]:
        raise AnalysisError(R, "self-test of the stale-loop-variable detector failed")
    mod = ctx.module(rel, R)
    hits, n = [], 0
    for fn in ast.walk(mod):
        if isinstance(fn, (ast.FunctionDef, ast.AsyncFunctionDef)):
            if any(isinstance(x, (ast.Yield, ast.YieldFrom, ast.Await)) for x in ast.walk(fn)):
                continue
            n += 1
            try:
                for v, ln in stale_loop_variable_uses(fn):
                    hits.append("%s (line %d): `%s`" % (fn.name, ln, v))
            except AnalysisError:
                continue
    if n < min_functions:
        from ..engine import MechanismMissing
        raise MechanismMissing(R, "only %d functions scanned in %s" % (n, rel))
    rep.ob(R, rel, "no loop variable is read after its loop has ended (%s)" % what, not hits,
           "%s — the name still holds whatever the loop's last iteration left in it (or is unbound when the loop did not run): an item is emitted under the "
           "last attribute's name, an element is taken at the last index, ..." % "; ".join(sorted(set(hits))[:4]))


# -- a one-shot iterator consumed more than once ------------------------------------------------------------------------------
def reused_iterators(fn):
    """[(name, lineno)]: a local bound to a generator expression / map() / filter() / zip() / iter() / reversed() outside a loop and iterated
    (for ... in <name>, or passed to a consuming call) inside a loop that does not rebind it: the second iteration finds it exhausted"""
    one_shot = {}
    for st in ast.walk(fn):
        if isinstance(st, ast.Assign) and len(st.targets) == 1 and isinstance(st.targets[0], ast.Name):
            v = st.value
            if isinstance(v, ast.GeneratorExp) or (isinstance(v, ast.Call) and isinstance(v.func, ast.Name) and v.func.id in ("map", "filter", "zip", "iter", "reversed", "enumerate")):
                one_shot.setdefault(st.targets[0].id, []).append(st)
    out = []
    for name, defs in one_shot.items():
        for lp in ast.walk(fn):
            if not isinstance(lp, (ast.For, ast.While)):
                continue
            inside = {id(x) for b in lp.body for x in ast.walk(b)}
            if any(id(d) in inside for d in defs):
                continue  # re-created in every iteration
            rebinds = any(isinstance(x, ast.Name) and x.id == name and isinstance(x.ctx, ast.Store) and id(x) in inside for x in ast.walk(lp))
            if rebinds:
                continue
            for x in ast.walk(lp):
                if id(x) in inside and isinstance(x, (ast.For, ast.comprehension)) and isinstance(x.iter, ast.Name) and x.iter.id == name:
                    out.append((name, getattr(x, "lineno", getattr(x.iter, "lineno", lp.lineno))))
    return out


def no_reused_iterators(ctx, rep, R, rel, what, min_functions=3):
    from ..engine import AnalysisError, MechanismMissing
    probe = ast.parse("def f(files, models):\n    cands = (p for p in files if p.stem in models)\n    for m in models:\n        for p in cands:\n            pass\n").body[0]
    ok_probe = ast.parse("def f(files, models):\n    for m in models:\n        cands = (p for p in files)\n        for p in cands:\n            pass\n").body[0]
    if [v for v, _l in reused_iterators(probe)] != ["cands"] or reused_iterators(ok_probe):
        raise AnalysisError(R, "self-test of the reused-iterator detector failed")
    mod = ctx.module(rel, R)
    fns = [f for f in ast.walk(mod) if isinstance(f, (ast.FunctionDef, ast.AsyncFunctionDef))]
    if len(fns) < min_functions:
        raise MechanismMissing(R, "only %d function(s) scanned in %s" % (len(fns), rel))
    hits = ["%s: `%s` (line %d)" % (f.name, v, ln) for f in fns for v, ln in reused_iterators(f)]
    rep.ob(R, rel, "no one-shot iterator is iterated in a loop it was created outside of, in " + what, not hits,
           "%s — a generator yields its elements once: from the second iteration of the enclosing loop on it is empty, and what was found for the "
           "first request is `not there` for every later one" % "; ".join(hits[:4]))


def row_counts_used_as_widths(root):
    """[(lineno, text)]: `<x>.size1()` / `<x>.rows()` / `<x>.shape[0]` that feeds a sum, an addition, a slice bound or the size of a new
    symbol without being multiplied by the matching column count — the number of scalar elements of a CasADi matrix is numel() (= size1 *
    size2); rows alone are right for column vectors only, and a `Real M[2,3]` gets 2 slots instead of 6.  Iteration bounds (`range(x.size1())`)
    and reports (`to_dict`, `repr`) are not widths."""
    import ast as _ast

    # parent links live in a table of this call, never on the nodes (the trees are shared with every other rule, and an attribute that
    # points from a child to its parent turns every later deepcopy of a statement into a copy of the whole module)
    up = {}
    for n in _ast.walk(root):
        for ch in _ast.iter_child_nodes(n):
            up[id(ch)] = n
    out = []
    for c in _ast.walk(root):
        is_rows = (isinstance(c, _ast.Call) and isinstance(c.func, _ast.Attribute) and c.func.attr in ("size1", "rows") and not c.args) or (
            isinstance(c, _ast.Subscript) and isinstance(c.value, _ast.Attribute) and c.value.attr == "shape" and isinstance(c.slice, _ast.Constant) and c.slice.value == 0)
        if not is_rows:
            continue
        node, width, partner, ranged = c, False, False, False
        while up.get(id(node)) is not None and not isinstance(node, _ast.stmt):
            p = up[id(node)]
            if isinstance(p, _ast.BinOp) and isinstance(p.op, _ast.Mult):
                other = p.right if p.left is node else p.left
                if any((isinstance(x, _ast.Attribute) and x.attr in ("size2", "columns")) or (
                        isinstance(x, _ast.Subscript) and isinstance(x.value, _ast.Attribute) and x.value.attr == "shape" and isinstance(x.slice, _ast.Constant) and x.slice.value == 1)
                       for x in _ast.walk(other)):
                    partner = True
            if isinstance(p, _ast.BinOp) and isinstance(p.op, _ast.Add):
                width = True
            if isinstance(p, _ast.AugAssign) and isinstance(p.op, _ast.Add):
                width = True
            if isinstance(p, _ast.Call) and node is not p.func:
                nm = p.func.id if isinstance(p.func, _ast.Name) else p.func.attr if isinstance(p.func, _ast.Attribute) else ""
                if nm == "range":
                    ranged = True
                if nm in ("sum", "slice", "sym", "zeros", "ones", "cumsum"):
                    width = True
            node = p
        if width and not partner and not ranged:
            out.append((getattr(c, "lineno", 0), _ast.unparse(c)))
    return out


def _selftest_row_counts():
    import ast as _ast
    pos = _ast.parse("def f(v, row):\n    rows = slice(row, row + v.symbol.size1())\n    n = sum([s.size1() for s in xs])\n")
    neg = _ast.parse("def f(v):\n    n = sum(s.size1() * s.size2() for s in xs)\n    for i in range(v.size1()):\n        pass\n    d = (v.size1(), v.size2())\n")
    return len(row_counts_used_as_widths(pos)) == 2 and not row_counts_used_as_widths(neg)
