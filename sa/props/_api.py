"""Shared extraction for the model cache (api.py): keys written/read, signatures."""
from __future__ import annotations

import ast
from typing import Dict, List, Optional, Set, Tuple

from ..engine import AnalysisError, Context, norm
from ..pyutil import call_name, calls, const_str, is_name, literal, parent, walk_local

API = "src/pymoca/backends/casadi/api.py"
MODEL = "src/pymoca/backends/casadi/model.py"

SIG = ["time", "states", "der_states", "alg_states", "inputs", "constants", "parameters"]


def _loop_values(fn, var: str, at: ast.AST) -> Optional[List[str]]:
    """Literal values of a loop variable at node `at` (for var in [..] / for var in <name bound to a literal list> /
    for var in <dict literal>.keys())."""
    p = parent(at)
    while p is not None and p is not fn:
        if isinstance(p, (ast.For, ast.comprehension)) and isinstance(p.target, ast.Name) and p.target.id == var:
            it = p.iter
            lit = literal(it)
            if isinstance(lit, (list, tuple)) and all(isinstance(x, str) for x in lit):
                return list(lit)
            if isinstance(it, ast.Name):
                for s in walk_local(fn):
                    if isinstance(s, ast.Assign) and is_name(s.targets[0], it.id):
                        l2 = literal(s.value)
                        if isinstance(l2, (list, tuple)) and all(isinstance(x, str) for x in l2):
                            return list(l2)
                        if isinstance(l2, dict):
                            return list(l2.keys())
            if isinstance(it, ast.Call) and isinstance(it.func, ast.Attribute) and it.func.attr == "keys" and isinstance(it.func.value, ast.Name):
                for s in walk_local(fn):
                    if isinstance(s, ast.Assign) and is_name(s.targets[0], it.func.value.id):
                        l2 = literal(s.value)
                        if isinstance(l2, dict):
                            return list(l2.keys())
            return None
        p = parent(p)
    return None


def key_values(fn, sl: ast.AST, at: ast.AST) -> Optional[List[str]]:
    """All string keys a subscript expression can denote."""
    s = const_str(sl)
    if s is not None:
        return [s]
    if isinstance(sl, ast.Name):
        return _loop_values(fn, sl.id, at)
    if isinstance(sl, ast.BinOp) and isinstance(sl.op, ast.Add):
        a, b = key_values(fn, sl.left, at), key_values(fn, sl.right, at)
        if a is not None and b is not None:
            return [x + y for x in a for y in b]
    return None


def _mapping_keys(fn, e, depth=3):
    """string keys of a mapping expression: a dict display, a dict comprehension over a literal list of strings (`{k: ... for k in [..]}`), or a
    local bound to one of those; None when unknown"""
    if depth == 0:
        return None
    if isinstance(e, ast.Dict):
        ks = []
        for k, v in zip(e.keys, e.values):
            if k is None:  # **mapping
                sub = _mapping_keys(fn, v, depth - 1)
                if sub is None:
                    return None
                ks.extend(sub)
            elif const_str(k) is None:
                return None
            else:
                ks.append(const_str(k))
        return ks
    if isinstance(e, ast.DictComp) and len(e.generators) == 1 and not e.generators[0].ifs and isinstance(e.generators[0].target, ast.Name) \
            and is_name(e.key, e.generators[0].target.id):
        it = e.generators[0].iter
        lit = literal(it)
        if lit is None and isinstance(it, ast.Call) and isinstance(it.func, ast.Attribute) and it.func.attr == "keys" and not it.args:
            inner = _mapping_keys(fn, it.func.value, depth - 1)
            lit = inner
        if lit is None and isinstance(it, ast.Name):
            for s_ in walk_local(fn):
                if isinstance(s_, ast.Assign) and is_name(s_.targets[0], it.id):
                    lit = literal(s_.value)
        if isinstance(lit, (list, tuple)) and all(isinstance(x, str) for x in lit):
            return list(lit)
        return None
    if isinstance(e, ast.Name):
        out = None
        for s_ in walk_local(fn):
            if isinstance(s_, ast.Assign) and is_name(s_.targets[0], e.id):
                ks = _mapping_keys(fn, s_.value, depth - 1)
                if ks is None:
                    return None
                out = (out or []) + ks
        return out
    return None


def db_accesses(fn, dbvar: str = "db"):
    """[(key, 'w'|'r', node, guard)] for db[...] subscripts and db.update(<dict literal var>)."""
    out = []
    unknown = []
    for n in walk_local(fn):
        if isinstance(n, ast.Subscript) and is_name(n.value, dbvar):
            ks = key_values(fn, n.slice, n)
            mode = "w" if isinstance(n.ctx, ast.Store) else "r"
            if ks is None:
                unknown.append(norm(n))
                continue
            for k in ks:
                out.append((k, mode, n))
        if isinstance(n, ast.Call) and isinstance(n.func, ast.Attribute) and n.func.attr == "update" and is_name(n.func.value, dbvar) and n.args:
            ks = _mapping_keys(fn, n.args[0])
            if ks is not None:
                for k in ks:
                    out.append((k, "w", n))
            else:
                unknown.append(norm(n))
        # the mapping written as one display: db = {"version": ..., **objects, ...}
        if isinstance(n, ast.Assign) and len(n.targets) == 1 and is_name(n.targets[0], dbvar) and isinstance(n.value, (ast.Dict, ast.DictComp)) \
                and (not isinstance(n.value, ast.Dict) or n.value.keys):
            ks = _mapping_keys(fn, n.value)
            if ks is not None:
                for k in ks:
                    out.append((k, "w", n))
            else:
                unknown.append(norm(n)[:80])
        # m = db[key + "..."] = value  (chained assignment)
    return out, unknown


def guards_of(node, fn) -> List[str]:
    out = []
    p = parent(node)
    child = node
    while p is not None and p is not fn:
        if isinstance(p, ast.If):
            out.append(("" if child in p.body or any(child is x for b in p.body for x in ast.walk(b)) else "not ") + norm(p.test))
        child = p
        p = parent(p)
    return out


def signature_of(expr_list: List[ast.AST]) -> List[str]:
    """category order of an argument list such as [self.time, ca.veccat(*self._symbols(self.states)), ...]"""
    out = []
    alias = {"_states_vector": "states", "_der_states_vector": "der_states", "_alg_states_vector": "alg_states", "_inputs_vector": "inputs"}
    for e in expr_list:
        hit = None
        for x in ast.walk(e):
            if isinstance(x, ast.Attribute):
                a = alias.get(x.attr, x.attr)
                if a in SIG and hit is None:
                    hit = a
        out.append(hit or "?")
    return out



# -- independence from local variable names --------------------------------------------------------------------------
CATS = {"states", "der_states", "alg_states", "inputs", "parameters", "constants", "string_parameters", "string_constants"}


def api_roles(fn) -> Dict[str, str]:
    """local name -> canonical role name in save_model / load_model / _compile_model / transfer_model, discovered from what the
    local is bound to: the pickled dictionary (-> db), the model object being built or compiled (-> model), the category list
    zipped with the metadata function's outputs (-> variables_with_metadata), the veccat of the parameter symbols
    (-> parameter_vector), the two metadata tables (-> metadata / independent_metadata), the name->Variable map
    (-> variable_dict), the cache file path (-> db_file) and its handle (-> f)."""
    roles: Dict[str, str] = {}
    pv = None
    for n in ast.walk(fn):
        if isinstance(n, ast.Assign) and len(n.targets) == 1 and isinstance(n.targets[0], ast.Name):
            t, v = n.targets[0].id, n.value
            cn = call_name(v) or ""
            if cn in ("pickle.load", "pickle.loads"):
                roles.setdefault(t, "db")
            elif cn in ("CachedModel", "Model") or cn.endswith(".generate") or cn in ("_compile_model", "load_model", "generator.generate"):
                roles.setdefault(t, "model")
            elif isinstance(v, ast.List) and len(v.elts) >= 3 and all(isinstance(e, ast.Constant) and e.value in CATS for e in v.elts):
                roles.setdefault(t, "variables_with_metadata")
            elif cn in ("ca.veccat", "ca.vertcat") and "parameters" in norm(v) and ".symbol" in norm(v):
                roles.setdefault(t, "parameter_vector")
                pv = t
            elif isinstance(v, ast.BinOp) and ".pymoca_cache" in norm(v) or (cn == "os.path.join" and ".pymoca_cache" in norm(v)):
                roles.setdefault(t, "db_file")
        if isinstance(n, ast.Call) and (call_name(n) or "") == "pickle.dump" and n.args and isinstance(n.args[0], ast.Name):
            roles.setdefault(n.args[0].id, "db")
            if len(n.args) > 1 and isinstance(n.args[1], ast.Name):
                roles.setdefault(n.args[1].id, "f")
        if isinstance(n, ast.Call) and (call_name(n) or "") in ("pickle.load",) and n.args and isinstance(n.args[0], ast.Name):
            roles.setdefault(n.args[0].id, "f")
    for n in ast.walk(fn):
        if isinstance(n, ast.Assign) and len(n.targets) == 1 and isinstance(n.targets[0], ast.Name) and isinstance(n.value, ast.Call) \
                and call_name(n.value) == "dict" and any(isinstance(c, ast.Call) and (call_name(c) or "").endswith("variable_metadata_function") for c in ast.walk(n.value)):
            direct = any(isinstance(c, ast.Call) and (call_name(c) or "").endswith("variable_metadata_function") and c.args and (
                (isinstance(c.args[0], ast.Name) and c.args[0].id == pv) or (".symbol" in norm(c.args[0]) and "nan" not in norm(c.args[0]).lower()))
                for c in ast.walk(n.value))
            roles.setdefault(n.targets[0].id, "metadata" if direct else "independent_metadata")
        if isinstance(n, ast.Assign) and isinstance(n.targets[0], ast.Subscript) and isinstance(n.targets[0].value, ast.Name) \
                and norm(n.targets[0].slice).endswith(".symbol.name()") and isinstance(n.value, ast.Name):
            roles.setdefault(n.targets[0].value.id, "variable_dict")
    params = {a.arg for a in fn.args.args + fn.args.kwonlyargs}
    return {k: v for k, v in roles.items() if k != v and k not in params}


def api_fn(ctx: Context, name: str, rule: str):
    """function `name` of casadi/api.py with its role-carrying locals renamed to canonical names (cached per context)"""
    from ..pyutil import renamed_copy
    key = "api_fn:" + name
    if key not in ctx.cache:
        fn = ctx.func(API, name, rule)
        ctx.cache[key] = renamed_copy(fn, api_roles(fn))
    return ctx.cache[key]
