"""C11 — DAE residual equals the Modelica meaning of the flat equations (operator table clauses)."""
from __future__ import annotations

import ast

from .. import genparser
from ..engine import AnalysisError, MechanismMissing, PropertySpec, norm
from ..pyutil import call_name, calls, const_str, dotted, is_name, literal, walk_local

GEN = "src/pymoca/backends/casadi/generator.py"

SPEC = PropertySpec(
    "C11",
    "DAE residual equals the Modelica meaning of the flat equations",
    decided=(
        "the operator translation is total over the operator tokens the generated parser can put into an Expression "
        "(after the generator's own normalisation), every table entry resolves to an attribute of casadi.MX in the "
        "installed CasADi and denotes the operation the token means; unary minus / plus / not are translated to "
        "negation / identity / 1-x; the residual is lhs - rhs."
    ),
    not_decided="numeric equality of residuals (CasADi semantics); for-loop mapping; function inlining; if-equation assembly; indexing (C23).",
)
SPEC.assumptions += ["dir(casadi.MX) of the installed CasADi is what getattr(lhs, OP_MAP[op]) will see"]

SITE = GEN + ":Generator.exitExpression"

MEANING = {
    "+": {"__add__"}, "-": {"__sub__"}, "*": {"__mul__"}, "/": {"__truediv__", "__div__"}, "^": {"__pow__"},
    "<": {"__lt__"}, "<=": {"__le__"}, ">": {"__gt__"}, ">=": {"__ge__"}, "==": {"__eq__"}, "<>": {"__ne__"}, "!=": {"__ne__"},
    "min": {"fmin"}, "max": {"fmax"}, "abs": {"fabs"}, "and": {"__mul__", "logic_and"}, "or": {"__add__", "logic_or", "fmax"},
}


def _op_map(ctx, R):
    v = ctx.module_assign(GEN, "OP_MAP", R)
    d = literal(v)
    if not isinstance(d, dict):
        raise AnalysisError(R, "OP_MAP is not a literal dict")
    return d


def _tokens(ctx, R):
    gp = genparser.get(ctx, R)
    tab = {a["ctx"]: a for a in gp.expr_table()}
    binary, unary = set(), set()
    for c in ("Expr_mulContext", "Expr_addContext", "Expr_relContext", "Expr_expContext", "Expr_andContext", "Expr_orContext"):
        if c not in tab:
            raise MechanismMissing(R, "alternative %s missing in generated expr()" % c)
        binary |= set(tab[c]["tokens"])
    for c in ("Expr_signedContext", "Expr_notContext"):
        unary |= set(tab[c]["tokens"])
    return binary, unary


def _expr_fn(ctx, R):
    """Generator.exitExpression with its three role-carrying locals given canonical names: `op` (bound from tree.operator),
    `n_operands` (len(tree.operands)) and `src` (what is stored in self.src[tree])"""
    from ..pyutil import renamed_copy
    fn = ctx.func(GEN, "Generator.exitExpression", R)
    tree = fn.args.args[1].arg
    roles = {}
    for n in walk_local(fn):
        if isinstance(n, ast.Assign) and len(n.targets) == 1 and isinstance(n.targets[0], ast.Name):
            v = norm(n.value)
            if v in ("%s.operator" % tree, "%s.operator.name" % tree):
                roles[n.targets[0].id] = "op"
            elif v == "len(%s.operands)" % tree:
                roles[n.targets[0].id] = "n_operands"
        if isinstance(n, ast.Assign) and norm(n.targets[0]) == "self.src[%s]" % tree and isinstance(n.value, ast.Name):
            roles[n.value.id] = "src"
    if sorted(set(roles.values())) != ["n_operands", "op", "src"]:
        raise MechanismMissing(R, "exitExpression: operator / operand-count / result variables not found (%s)" % roles)
    if tree != "tree":
        roles[tree] = "tree"
    return renamed_copy(fn, roles)


def _normaliser(fn):
    """The generator's own op normalisation, read from the statements before the dispatch chain:
    `if op == X: op = Y` and `if op.startswith(P): op = op[k:]`."""
    steps = []
    for st in fn.body:
        if isinstance(st, ast.If) and len(st.body) == 1 and isinstance(st.body[0], ast.Assign) and is_name(st.body[0].targets[0], "op") and not st.orelse:
            t, v = st.test, st.body[0].value
            if isinstance(t, ast.Compare) and is_name(t.left, "op") and isinstance(t.ops[0], ast.Eq) and const_str(t.comparators[0]) is not None \
                    and const_str(v) is not None:
                steps.append(("eq", const_str(t.comparators[0]), const_str(v)))
            elif isinstance(t, ast.Call) and norm(t.func) == "op.startswith" and const_str(t.args[0]) is not None \
                    and isinstance(v, ast.Subscript) and isinstance(v.slice, ast.Slice) and literal(v.slice.lower) == len(const_str(t.args[0])):
                steps.append(("strip", const_str(t.args[0]), None))
        elif isinstance(st, ast.If) and len(st.body) > 1:
            break

    def apply(tok):
        for kind, a, b in steps:
            if kind == "eq" and tok == a:
                tok = b
            elif kind == "strip" and tok.startswith(a):
                tok = tok[len(a):]
        return tok

    return apply, steps


def _dispatch(fn):
    """The if/elif chain on op: list of (test, body)."""
    for st in fn.body:
        if isinstance(st, ast.If) and any(isinstance(x, ast.Compare) and is_name(x.left, "op") for x in ast.walk(st.test)) and st.orelse:
            chain = []
            node = st
            while True:
                chain.append((node.test, node.body))
                if len(node.orelse) == 1 and isinstance(node.orelse[0], ast.If):
                    node = node.orelse[0]
                else:
                    break
            if len(chain) > 5:
                return chain
    return None


def _holds(test, op, n, op_map) -> bool:
    if isinstance(test, ast.BoolOp):
        vals = [_holds(v, op, n, op_map) for v in test.values]
        return all(vals) if isinstance(test.op, ast.And) else any(vals)
    if isinstance(test, ast.Compare) and len(test.ops) == 1:
        l, r, o = test.left, test.comparators[0], test.ops[0]
        if is_name(l, "op"):
            if isinstance(o, ast.Eq):
                return const_str(r) == op
            if isinstance(o, ast.In):
                if is_name(r, "OP_MAP"):
                    return op in op_map
                lst = literal(r)
                return isinstance(lst, (list, tuple, set)) and op in lst
        if is_name(l, "n_operands"):
            k = literal(r)
            if isinstance(k, int):
                return {ast.Eq: n == k, ast.GtE: n >= k, ast.LtE: n <= k, ast.Gt: n > k, ast.Lt: n < k}.get(type(o), False)
    return False


@SPEC.rule(
    "R11.1",
    "totality: every operator token the generated parser accepts in expr (binary: * / .* ./ + - .+ .- < <= > >= == <> ^ .^ "
    "and or; unary: + - not), after the generator's own normalisation, hits an explicit branch of "
    "Generator.exitExpression or a key of OP_MAP with the right arity",
)
def r11_1(ctx, rep):
    R = "R11.1"
    fn = _expr_fn(ctx, R)
    op_map = _op_map(ctx, R)
    binary, unary = _tokens(ctx, R)
    normalise, steps = _normaliser(fn)
    chain = _dispatch(fn)
    if chain is None:
        raise MechanismMissing(R, "operator dispatch chain not found in Generator.exitExpression")
    rep.extra["R11.1_normalisation_steps"] = steps
    for arity, toks in ((2, binary), (1, unary)):
        for tok in sorted(toks):
            op = normalise(tok)
            hit = None
            for test, body in chain:
                if _holds(test, op, arity, op_map):
                    hit = norm(test)
                    break
            rep.ob(R, SITE, "token %r arity %d" % (tok, arity), hit is not None,
                   "the parser produces operator %r (normalised to %r) with %d operand(s) but no branch translates it: "
                   "generation fails with 'Unknown function %s'" % (tok, op, arity, op))
    dead = sorted(k for k in op_map if not k.isidentifier() and k not in {normalise(t) for t in binary | unary})
    if dead:
        rep.note("OP_MAP keys that the parser can never produce (harmless, not armed): %s" % dead)
    rep.require_instances(R, 18, "operator tokens")


@SPEC.rule("R11.2", "entries resolve: every OP_MAP value reachable by a producible key is an attribute of casadi.MX in the installed CasADi")
def r11_2(ctx, rep):
    R = "R11.2"
    op_map = _op_map(ctx, R)
    try:
        import casadi

        mx = set(dir(casadi.MX))
    except Exception as e:  # noqa: BLE001
        raise AnalysisError(R, "cannot import casadi to resolve method names: %s" % e)
    fn = _expr_fn(ctx, R)
    binary, unary = _tokens(ctx, R)
    normalise, _ = _normaliser(fn)
    producible = {normalise(t) for t in binary | unary}
    n = 0
    for k, v in sorted(op_map.items()):
        if not k.isidentifier() and k not in producible:
            continue
        n += 1
        rep.ob(R, GEN + ":OP_MAP", "entry %r -> %r" % (k, v), v in mx,
               "getattr(casadi.MX, %r) does not exist: every model using %r fails with AttributeError" % (v, k))
    if n < 12:
        raise MechanismMissing(R, "fewer than 12 producible OP_MAP entries")


@SPEC.rule(
    "R11.3",
    "entries denote the right operation (token -> method table), and the explicit branches translate unary minus to "
    "negation, unary plus to identity, `not x` to if_else(x, 0, 1), `*` (matrix product) to ca.mtimes in operand order",
)
def r11_3(ctx, rep):
    R = "R11.3"
    op_map = _op_map(ctx, R)
    for k, v in sorted(op_map.items()):
        if k not in MEANING:
            rep.ob(R, GEN + ":OP_MAP", "meaning of %r" % k, False, "no specification for key %r: review and add it to the checker's table" % k)
            continue
        rep.ob(R, GEN + ":OP_MAP", "meaning of %r" % k, v in MEANING[k], "token %r means %s, the table maps it to %r" % (k, sorted(MEANING[k]), v))
    fn = _expr_fn(ctx, R)
    chain = _dispatch(fn)
    if chain is None:
        raise MechanismMissing(R, "dispatch chain not found")

    def branch(op, n):
        for test, body in chain:
            if _holds(test, op, n, op_map):
                return body
        return None

    def src_value(body):
        for st in body or []:
            if isinstance(st, ast.Assign) and is_name(st.targets[0], "src"):
                return st.value
        return None

    from ..pyutil import inlined as _inl

    def src_value(body, _sv=src_value):  # noqa: F811  temporaries of the branch are inlined
        v_ = _sv(body)
        return _inl(v_, body or [], keep={"src"}) if v_ is not None else None

    v = src_value(branch("-", 1))
    rep.ob(R, SITE, "unary minus", isinstance(v, ast.UnaryOp) and isinstance(v.op, ast.USub) and norm(v.operand) == "self.get_mx(tree.operands[0])",
           "-x must translate to the negation of operand 0")
    v = src_value(branch("+", 1))
    rep.ob(R, SITE, "unary plus", v is not None and norm(v) == "self.get_mx(tree.operands[0])", "+x must translate to operand 0 itself")
    v = src_value(branch("not", 1))
    ok = isinstance(v, ast.Call) and call_name(v) in ("ca.if_else", "if_else") and len(v.args) >= 3 \
        and norm(v.args[0]) == "self.get_mx(tree.operands[0])" and literal(v.args[1]) == 0 and literal(v.args[2]) == 1
    rep.ob(R, SITE, "not", ok, "`not x` must translate to if_else(x, 0, 1)")
    from ..pyutil import inlined
    b = branch("mtimes", 2)
    ok = False
    if b:
        first = [st for st in b if isinstance(st, ast.Assign) and is_name(st.targets[0], "src")]
        loop = [st for st in b if isinstance(st, ast.For) and isinstance(st.target, ast.Name)]
        ok = bool(first) and norm(first[0].value) == "self.get_mx(tree.operands[0])" and bool(loop) and norm(loop[0].iter) == "tree.operands[1:]" \
            and any(isinstance(s, ast.Assign) and is_name(s.targets[0], "src") and norm(inlined(s.value, loop[0].body, keep={"src", loop[0].target.id})) == "ca.mtimes(src, self.get_mx(%s))" % loop[0].target.id
                    for s in loop[0].body)
    rep.ob(R, SITE, "matrix product", ok, "`a * b` must translate to ca.mtimes(a, b) in operand order (matrix product is not commutative)")
    # the table-driven branch applies the method of the LEFT operand to the right one
    b = None
    for test, body in chain:
        if "op in OP_MAP" in norm(test) and "n_operands == 2" in norm(test):
            b = body
    ok = False
    if b:
        v = src_value(b)
        t = norm(inlined(v, b, keep={"src"})) if v is not None else ""
        ok = t == "getattr(ca.MX(self.get_mx(tree.operands[0])), OP_MAP[op])(ca.MX(self.get_mx(tree.operands[1])))"
    rep.ob(R, SITE, "binary table application", ok, "binary operators must be applied as getattr(<operand 0>, OP_MAP[op])(<operand 1>)")


SHAPE_ATTRS = {"size1", "size2", "shape", "size", "numel", "is_empty"}


def _value_nodes(e):
    """nodes whose *value* flows into e (index expressions and shape queries do not)."""
    stack = [e]
    while stack:
        x = stack.pop()
        yield x
        if isinstance(x, ast.Subscript):
            stack.append(x.value)
            continue
        if isinstance(x, ast.Call) and isinstance(x.func, ast.Attribute) and x.func.attr in SHAPE_ATTRS:
            continue
        if isinstance(x, ast.Attribute) and x.attr in SHAPE_ATTRS:
            continue
        stack.extend(ast.iter_child_nodes(x))


def _sources(fn, roots):
    """var -> set of root names its value may derive from (flow-insensitive closure over assignments)."""
    src = {}
    changed = True
    while changed:
        changed = False
        for n in walk_local(fn):
            if isinstance(n, ast.Assign) and len(n.targets) == 1 and isinstance(n.targets[0], ast.Name):
                s = set()
                for x in _value_nodes(n.value):
                    if isinstance(x, ast.Attribute):
                        t = norm(x)
                        if t in roots:
                            s.add(roots[t])
                    if isinstance(x, ast.Name) and x.id in src:
                        s |= src[x.id]
                old = src.get(n.targets[0].id, set())
                if not s <= old:
                    src[n.targets[0].id] = old | s
                    changed = True
    return src


@SPEC.rule("R11.4", "residual orientation: Generator.exitEquation stores <value derived from tree.left> - <value derived from tree.right>")
def r11_4(ctx, rep):
    R = "R11.4"
    fn = ctx.func(GEN, "Generator.exitEquation", R)
    src = _sources(fn, {"tree.left": "left", "tree.right": "right"})
    ok, found = False, None
    for n in walk_local(fn):
        if isinstance(n, ast.Assign) and norm(n.targets[0]) == "self.src[tree]":
            v = n.value
            found = norm(v)
            if isinstance(v, ast.BinOp) and isinstance(v.op, ast.Sub) and isinstance(v.left, ast.Name) and isinstance(v.right, ast.Name):
                ok = src.get(v.left.id) == {"left"} and src.get(v.right.id) == {"right"}
    rep.ob(R, GEN + ":Generator.exitEquation", "lhs - rhs", ok,
           "the residual of `lhs = rhs` must be lhs - rhs with each operand derived only from its own side; found %s with sources %s"
           % (found, {k: sorted(v) for k, v in src.items() if k.startswith("src_")}))
    # if-expression / if-equation: condition k guards branch k, the else value is the default.
    # Decided by interpreting the handler on symbolic inputs (sa/symexec.py), not by matching its text.
    from ..symexec import Interp, Obj, SymExecError

    def ite(c, a, b, *rest):
        return ("ite", c, a, b)

    def expect(conds, vals):
        out = vals[-1]
        for c, v in reversed(list(zip(conds, vals[:-1]))):
            out = ("ite", c, v, out)
        return out

    for hname, mk in (("exitIfExpression", "expr"), ("exitIfEquation", "eq")):
        fn = ctx.func(GEN, "Generator." + hname, R)
        site = GEN + ":Generator." + hname
        verdict, why = True, "conditions pair with their own branches for 1, 2 and 3 conditions"
        for k in (1, 2, 3):
            conds = ["c%d" % i for i in range(k)]
            if mk == "expr":
                vals = ["e%d" % i for i in range(k)] + ["else"]
                tree = Obj(conditions=list(conds), expressions=list(vals))
                want = expect(conds, vals)
                calls_ = {"self.get_mx": lambda x: x, "ca.if_else": ite, "logger.debug": lambda *a: None}
            else:
                blocks = [["b%d_0" % i, "b%d_1" % i] for i in range(k)] + [["else_0", "else_1"]]
                tree = Obj(conditions=list(conds) + [True], blocks=blocks)
                want = expect(conds, [("vcat",) + tuple(b_) for b_ in blocks])
                calls_ = {"self.get_mx": lambda x: x, "ca.if_else": ite, "ca.vertcat": lambda *a: ("vcat",) + tuple(a), "logger.debug": lambda *a: None}
            src = {}
            it = Interp(calls_, {"tree": tree, "self": Obj(src=src)})
            try:
                it.run(fn.body)
            except SymExecError as e:
                verdict, why = False, "handler could not be interpreted symbolically (%s)" % e
                break
            got = src.get(tree)
            if got != want:
                verdict, why = False, "with %d condition(s) the handler builds %s, Modelica means %s" % (k, got, want)
                break
        rep.ob(R, site, "condition/branch pairing", verdict,
               "`if c1 then a elseif c2 then b else d` must translate to if_else(c1, a, if_else(c2, b, d)): " + why)


@SPEC.rule(
    "R11.5",
    "algorithm order in function for-loops: the assignment list built by exitForStatement is iteration-major (outer: "
    "loop iterations, inner: the statements of the body in source order), because get_function replays the list "
    "sequentially",
)
def r11_5(ctx, rep):
    R = "R11.5"
    fn = ctx.func(GEN, "Generator.exitForStatement", R)
    site = GEN + ":Generator.exitForStatement"
    found = False
    for node in ast.walk(fn):
        if isinstance(node, ast.Call) and is_name(node.func, "Assignment") and len(node.args) == 2 and any(
                isinstance(x, ast.Subscript) and isinstance(x.slice, ast.Tuple) and len(x.slice.elts) == 2 for x in ast.walk(node.args[1])):
            found = True
            # collect the enclosing loops, outermost first
            order = []
            p = getattr(node, "_parent", None)
            chain = []
            from ..pyutil import inlined as _inl
            while p is not None and p is not fn:
                # iterables are compared after resolving explanatory temporaries (`n = len(f.values)` ... `range(n)`)
                if isinstance(p, ast.For):
                    chain.append(norm(_inl(p.iter, fn.body)))
                if isinstance(p, (ast.ListComp, ast.GeneratorExp)):
                    chain.extend(reversed([norm(_inl(g.iter, fn.body)) for g in p.generators]))
                p = getattr(p, "_parent", None)
            order = list(reversed(chain))
            it = [i for i, x in enumerate(order) if x.startswith("range(len(") and x.endswith(".values))")]
            st = [i for i, x in enumerate(order) if x.startswith("enumerate(")]
            ok = bool(it) and bool(st) and it[0] < st[0]
            rep.ob(R, site, "assignment list order", ok,
                   "loops around Assignment(...) are nested %s: the outer loop must run over the iterations (range(len(<loop>.values))) and the inner one "
                   "over the body's statements; otherwise a statement that reads a variable assigned earlier in the same body sees the "
                   "value of the last iteration" % order)
    if not found:
        raise MechanismMissing(R, "construction of the assignment list not found in exitForStatement")


@SPEC.rule(
    "R11.6",
    "range expressions: `a:b` is Slice(start=a, stop=b, step=1) and `a:s:b` is Slice(start=a, stop=b, step=s) — in "
    "Modelica the MIDDLE expression of a three-part range is the step (decided by interpreting "
    "ASTListener.exitSimple_expression on symbolic children)",
)
def r11_6(ctx, rep):
    from ..symexec import Interp, Obj, SymExecError
    R = "R11.6"
    PARSER = "src/pymoca/parser.py"
    fn = ctx.func(PARSER, "ASTListener.exitSimple_expression", R)
    site = PARSER + ":ASTListener.exitSimple_expression"
    cparam = fn.args.args[1].arg
    for n in (2, 3):
        kids = ["e%d" % i for i in range(n)]
        table = {k: k.upper() for k in kids}
        node = Obj()
        calls_ = {
            cparam + ".expr": lambda *a, _k=kids: (_k if not a else _k[a[0]]),
            "ast.Slice": lambda **kw: ("Slice", kw.get("start"), kw.get("stop"), kw.get("step")),
            "ast.Primary": lambda **kw: ("Primary", kw.get("value")),
        }
        it = Interp(calls_, {cparam: node, "self": Obj(ast=table), "self.ast": table})
        got, why = None, ""
        try:
            it.run(fn.body)
            got = table.get(node)
        except SymExecError as e:
            why = "cannot interpret the handler: %s" % e
        want = ("Slice", "E0", "E%d" % (n - 1), "E1" if n == 3 else ("Primary", 1))
        rep.ob(R, site, "%d-part range" % n, got == want,
               "%s must become Slice(start=%s, stop=%s, step=%s); the handler builds %s %s — `1:2:5` would run 1, 6 instead of 1, 3, 5"
               % (":".join("e%d" % i for i in range(n)), want[1], want[2], want[3], got, why))


@SPEC.rule(
    "R11.7",
    "for-loop iteration values: ForLoop.__init__ resolves start, step and stop of the range the same way (get_integer) and "
    "the exclusive bound given to np.arange is stop plus ONE UNIT in the direction of the step (stop + sign(step)) — "
    "`stop + step` overshoots whenever stop - start is not a multiple of step (1:2:4 would run 1, 3, 5)",
)
def r11_7(ctx, rep):
    from ..pyutil import inlined
    R = "R11.7"
    fn = ctx.func(GEN, "ForLoop.__init__", R)
    site = GEN + ":ForLoop.__init__"
    ar = [c for c in calls(fn) if (call_name(c) or "").endswith("arange")]
    if not ar or len(ar[0].args) < 3:
        raise MechanismMissing(R, "np.arange(start, bound, step) no longer builds the iteration values")
    # temporaries are inlined, so the three arguments are compared as expressions over the loop's range node
    a0, a1, a2 = (inlined(x, fn.body) for x in ar[0].args[:3])
    how = {}
    for nm, e in (("start", a0), ("step", a2), ("stop", a1.left if isinstance(a1, ast.BinOp) else a1)):
        if isinstance(e, ast.Call) and (call_name(e) or "").endswith("get_integer") and e.args and isinstance(e.args[0], ast.Attribute) and e.args[0].attr == nm:
            how[nm] = ("get_integer", norm(e.args[0].value))
        else:
            how[nm] = (norm(e)[:60], None)
    uniform = all(v[0] == "get_integer" for v in how.values()) and len({v[1] for v in how.values()}) == 1
    rep.ob(R, site, "range parts resolved uniformly", uniform,
           "start, step and stop of the loop range must all be resolved with get_integer on the same range node (found %s): a part read "
           "as `.value` fails for `for i in k:n`" % how)
    ok, why = False, "np.arange(%s)" % ", ".join(norm(x)[:50] for x in (a0, a1, a2))
    if isinstance(a1, ast.BinOp) and isinstance(a1.op, ast.Add):
        unit = a1.right
        signed = any(isinstance(x, ast.Call) and (call_name(x) or "").split(".")[-1] in ("sign", "copysign") and any(norm(y) == norm(a2) for y in x.args)
                     for x in ast.walk(unit)) or (isinstance(unit, ast.IfExp) and {literal(unit.body), literal(unit.orelse)} == {1, -1})
        ok = signed and norm(unit) != norm(a2)
        why += " — the bound must be stop + sign(step), found stop + %s" % norm(unit)[:50]
    rep.ob(R, site, "exclusive bound one unit past stop", ok, why)


@SPEC.rule(
    "R11.8",
    "a translated function is cached under the name it is looked up by: in Generator.get_function the membership test, the "
    "read and the store on self.functions use one and the same key, and it is the key that selects the class in "
    "self.root.classes (the fully qualified name) — a coarser key (the class's short name, the CasADi function's name) makes "
    "P1.f and P2.f share one translation and the second call silently evaluates the first function's body",
)
def r11_8(ctx, rep):
    from ..pyutil import inlined
    R = "R11.8"
    fn = ctx.func(GEN, "Generator.get_function", R)
    site = GEN + ":Generator.get_function"
    keys = []
    for n in ast.walk(fn):
        if isinstance(n, ast.Subscript) and norm(n.value) == "self.functions":
            keys.append(("store" if isinstance(n.ctx, ast.Store) else "read", norm(inlined(n.slice, fn.body))))
        elif isinstance(n, ast.Compare) and len(n.ops) == 1 and isinstance(n.ops[0], (ast.In, ast.NotIn)) and norm(n.comparators[0]) == "self.functions":
            keys.append(("test", norm(inlined(n.left, fn.body))))
    src = [norm(inlined(n.slice, fn.body)) for n in ast.walk(fn) if isinstance(n, ast.Subscript) and norm(n.value) == "self.root.classes"]
    if not keys or not src:
        raise MechanismMissing(R, "get_function no longer caches in self.functions / looks the class up in self.root.classes")
    kinds = {k for k, _ in keys}
    rep.ob(R, site, "cache is tested, read and stored", {"store"} <= kinds and ({"test"} <= kinds or {"read"} <= kinds), "found only %s on self.functions" % sorted(kinds))
    distinct = sorted({t for _, t in keys})
    rep.ob(R, site, "one key for test, read and store", len(distinct) == 1 and distinct[0] in src,
           "self.functions is accessed with the keys %s while the class is selected by %s: two functions that differ only in their package "
           "share one cache entry" % (distinct, src))


@SPEC.rule(
    "R11.9",
    "a side of an equation is only re-shaped when the shapes disagree: in Generator.exitEquation and exitAssignmentStatement "
    "every statement that transposes one side (ca.transpose(x) / x.T assigned back to a side) is dominated by the test that the "
    "two sides' shapes differ (`<left>.shape != <right>.shape`) — for square operands the 'transposed shapes match' test alone "
    "is always true and A = 2*B would be translated as A - (2*B)'",
)
def r11_9(ctx, rep):
    from ..cfg import CFG, assume_truth
    R = "R11.9"
    n = 0
    for hname in ("exitEquation", "exitAssignmentStatement"):
        fn = ctx.find(GEN, "Generator." + hname)
        if not isinstance(fn, ast.FunctionDef):
            continue
        site = GEN + ":Generator." + hname
        cfg = CFG(fn, R)
        for x in cfg.stmts():
            if not isinstance(x.ast, ast.Assign) or not isinstance(x.ast.targets[0], ast.Name):
                continue
            v = x.ast.value
            tr = (isinstance(v, ast.Call) and (call_name(v) or "").split(".")[-1] == "transpose" and v.args and is_name(v.args[0], x.ast.targets[0].id)) or \
                 (isinstance(v, ast.Attribute) and v.attr == "T" and is_name(v.value, x.ast.targets[0].id))
            if not tr:
                continue
            n += 1
            side = x.ast.targets[0].id

            def differs(g):
                if g.kind != "assume":
                    return False
                for c in ast.walk(g.ast):
                    if isinstance(c, ast.Compare) and len(c.ops) == 1 and isinstance(c.ops[0], (ast.NotEq, ast.Eq)) and isinstance(c.left, ast.Attribute) \
                            and c.left.attr == "shape" and isinstance(c.comparators[0], ast.Attribute) and c.comparators[0].attr == "shape" \
                            and side in (norm(c.left.value), norm(c.comparators[0].value)):
                        if assume_truth(g, norm(ast.Compare(left=c.left, ops=[ast.Eq()], comparators=c.comparators))) is False:
                            return True
                return False

            rep.ob(R, site, "transpose of `%s` only when the shapes differ" % side, bool(cfg.dominated_by(x.id, differs)),
                   "`%s` is reached without having established that the two sides' shapes differ: for square matrices the transposed shape "
                   "always matches, and the residual becomes lhs - rhs'" % norm(x.ast))
    if n < 1:
        raise MechanismMissing(R, "no auto-transpose found in exitEquation / exitAssignmentStatement")


@SPEC.rule(
    "R11.10",
    "for-loop subscripts select the elements they name: the subscript values of a loop are the loop's own values or the subscript "
    "expression evaluated (as a ca.Function) over all of them — not read off the expression node, not evaluated at the first value and "
    "extrapolated with slope one (x[2*i], x[n+1-i], A[2, 2*i-1])",
)
def r11_10(ctx, rep):
    from .c12 import loop_subscripts_evaluated
    loop_subscripts_evaluated(ctx, rep, "R11.10")


@SPEC.rule(
    "R11.11",
    "the branches of an if-statement are joined per assigned variable: Generator.exitIfStatement collects each branch's right-hand "
    "sides in a mapping keyed by the assignment's own left-hand side, and builds each result from one entry of that mapping — branches "
    "may assign their variables in different textual order, so pairing the k-th assignment of every branch mixes variables",
)
def r11_11(ctx, rep):
    R = "R11.11"
    fn = ctx.func(GEN, "Generator.exitIfStatement", R)
    site = GEN + ":Generator.exitIfStatement"
    grouped = None
    for c in calls(fn):
        # M.setdefault(A.left, []).append(A.right)   /   M[A.left].append(A.right)
        if isinstance(c.func, ast.Attribute) and c.func.attr == "append" and c.args and isinstance(c.args[0], ast.Attribute) and c.args[0].attr == "right":
            a = norm(c.args[0].value)
            tgt = c.func.value
            key = None
            if isinstance(tgt, ast.Call) and isinstance(tgt.func, ast.Attribute) and tgt.func.attr == "setdefault" and tgt.args:
                key, grouped_name = tgt.args[0], norm(tgt.func.value)
            elif isinstance(tgt, ast.Subscript):
                key, grouped_name = tgt.slice, norm(tgt.value)
            if key is not None and isinstance(key, ast.Attribute) and key.attr == "left" and norm(key.value) == a:
                grouped = grouped_name
    rep.ob(R, site, "right-hand sides are collected under their own left-hand side", grouped is not None,
           "no `<mapping>[<assignment>.left]….append(<assignment>.right)` found: the values of the branches are no longer grouped by the variable they "
           "are assigned to (zip over the branches pairs the k-th statements, whatever they assign)")
    if grouped is None:
        return
    out = False
    for lp in walk_local(fn):
        if isinstance(lp, ast.For) and norm(lp.iter) == grouped + ".items()" and isinstance(lp.target, ast.Tuple) and len(lp.target.elts) == 2:
            k, vs = [norm(e) for e in lp.target.elts]
            for c in ast.walk(lp):
                if isinstance(c, ast.Call) and (call_name(c) or "").endswith("Assignment") and c.args and norm(c.args[0]) == k:
                    used = {x.id for x in ast.walk(lp) if isinstance(x, ast.Name)}
                    out = vs in used
    rep.ob(R, site, "each result is built from one entry of that mapping", out,
           "the output assignments are not built as Assignment(<key>, <fold of that key's values>) in a loop over %s.items()" % grouped)


@SPEC.rule(
    "R11.14",
    "every subscript, dimension and operand is taken at the position it was computed for: no function of the CasADi generator reads a for-loop's variable after that loop has ended (the value the last iteration left behind)",
)
def r11_14(ctx, rep):
    from ._literal import no_stale_loop_variables
    no_stale_loop_variables(ctx, rep, "R11.14", GEN, "the CasADi generator")


@SPEC.rule(
    "R11.12",
    "values meet the symbols they belong to: where Generator.get_integer builds ca.Function(<name>, <inputs>, ...) and calls it with a list of "
    "values, that list is filled in one pass over <inputs> itself (an empty list, appended to inside a single `for x in <inputs>` loop, or one "
    "unfiltered comprehension over it) — values collected group by group (loop indices first, parameters after) are paired with the inputs by "
    "position, and x[n + 1 - i] is evaluated with n and i exchanged",
)
def r11_12(ctx, rep):
    R = "R11.12"
    fn = ctx.func(GEN, "Generator.get_integer", R)
    site = GEN + ":Generator.get_integer"
    n = 0
    # (inputs, values) pairs: F = ca.Function(name, INPUTS, ...) ... F.call(VALS) / F(*VALS), or the same in one expression
    pairs = []
    ctors = {}
    for st in walk_local(fn):
        if isinstance(st, ast.Assign) and isinstance(st.value, ast.Call) and (call_name(st.value) or "").endswith("Function") and len(st.value.args) >= 2 \
                and isinstance(st.value.args[1], ast.Name) and isinstance(st.targets[0], ast.Name):
            ctors[st.targets[0].id] = st.value.args[1].id
    for c in calls(fn):
        callee = c.func.value if isinstance(c.func, ast.Attribute) and c.func.attr == "call" else c.func
        inputs = None
        if isinstance(callee, ast.Name) and callee.id in ctors:
            inputs = ctors[callee.id]
        elif isinstance(callee, ast.Call) and (call_name(callee) or "").endswith("Function") and len(callee.args) >= 2 and isinstance(callee.args[1], ast.Name):
            inputs = callee.args[1].id
        if inputs is None or not c.args:
            continue
        a0 = c.args[0].value if isinstance(c.args[0], ast.Starred) else c.args[0]
        if isinstance(a0, ast.Name):
            pairs.append((inputs, a0.id))
    for inputs, vals in pairs:
        if True:
            n += 1
            problems = []
            loops = [lp for lp in walk_local(fn) if isinstance(lp, ast.For) and is_name(lp.iter, inputs)]
            in_loop = {id(x) for lp in loops for x in ast.walk(lp)}
            for x in walk_local(fn):
                if isinstance(x, ast.Assign) and any(is_name(t, vals) for t in x.targets):
                    v = x.value
                    ok = (isinstance(v, ast.List) and not v.elts) or (isinstance(v, (ast.ListComp,)) and len(v.generators) == 1 and is_name(v.generators[0].iter, inputs)
                                                                      and not v.generators[0].ifs)
                    if not ok:
                        problems.append("line %d: %s" % (x.lineno, norm(x)[:60]))
                elif isinstance(x, ast.AugAssign) and is_name(x.target, vals):
                    problems.append("line %d: %s" % (x.lineno, norm(x)[:60]))
                elif isinstance(x, ast.Call) and isinstance(x.func, ast.Attribute) and is_name(x.func.value, vals) and x.func.attr in ("append", "extend", "insert"):
                    if id(x) not in in_loop or x.func.attr != "append":
                        problems.append("line %d: %s outside the loop over %s" % (x.lineno, norm(x)[:50], inputs))
            if len(loops) > 1:
                problems.append("%d loops over %s" % (len(loops), inputs))
            rep.ob(R, site, "`%s` is filled in one pass over `%s`" % (vals, inputs), not problems,
                   "%s — the k-th value is no longer the value of the k-th input symbol" % "; ".join(problems[:3]))
    if n < 1:
        raise MechanismMissing(R, "no ca.Function(..., <inputs>, ...) called with a value list found in get_integer")


@SPEC.rule(
    "R11.13",
    "the derivative of a slice is the same slice of the derivative: where Generator.get_derivative answers for an already indexed symbol, "
    "every value it returns is the derivative symbol subscripted with a slice whose start, stop and step all come from the indexed symbol's "
    "own slice — der(x[2:3]) is two elements",
)
def r11_13(ctx, rep):
    from ..pyutil import inlined
    R = "R11.13"
    fn = ctx.func(GEN, "Generator.get_derivative", R)
    site = GEN + ":Generator.get_derivative"
    branch = [b for b in ast.walk(fn) if isinstance(b, ast.If) and "OP_GETNONZEROS" in norm(b.test)]
    if not branch:
        raise MechanismMissing(R, "branch for already indexed symbols (OP_GETNONZEROS) not found in get_derivative")
    body = [st for st in ast.walk(fn) if isinstance(st, ast.stmt)]
    rets = [r for st in branch[0].body for r in ast.walk(st) if isinstance(r, ast.Return) and r.value is not None]
    if not rets:
        raise MechanismMissing(R, "the indexed-symbol branch returns nothing")
    for r in rets:
        v = inlined(r.value, body)
        ok = isinstance(v, ast.Subscript) and isinstance(v.slice, ast.Slice) and all(
            part is not None and key in norm(part) and "slice" in norm(part) for part, key in ((v.slice.lower, "start"), (v.slice.upper, "stop"), (v.slice.step, "step")))
        rep.ob(R, site, "`%s` keeps start, stop and step" % norm(r)[:60], ok,
               "the derivative symbol is subscripted with `%s`: a slice of several elements is differentiated as its first element only (and broadcast)"
               % (norm(v.slice)[:60] if isinstance(v, ast.Subscript) else norm(v)[:60]))


@SPEC.rule(
    "R11.15",
    "a condition selects, it is not computed with: in exitIfExpression, exitIfEquation and exitIfStatement the translated condition of a branch "
    "is used as the first argument of ca.if_else and nowhere else — `or` is translated to a sum, so a condition can evaluate to 2, and "
    "`c * a + (1 - c) * b` is then neither branch",
)
def r11_15(ctx, rep):
    R = "R11.15"
    n = 0
    for hname in ("exitIfExpression", "exitIfEquation", "exitIfStatement"):
        fn = ctx.func(GEN, "Generator." + hname, R)
        site = GEN + ":Generator." + hname
        parents = {}
        for p_ in ast.walk(fn):
            for ch in ast.iter_child_nodes(p_):
                parents[id(ch)] = p_
        # loop variables that run over tree.conditions (directly or zipped)
        cond_iter = set()
        for lp in ast.walk(fn):
            if isinstance(lp, ast.For) and any(isinstance(a, ast.Attribute) and a.attr == "conditions" for a in ast.walk(lp.iter)):
                cond_iter |= {x.id for x in ast.walk(lp.target) if isinstance(x, ast.Name)}

        def is_cond_source(e):
            return any(isinstance(c.func, ast.Attribute) and c.func.attr == "get_mx" and c.args and (
                any(isinstance(a, ast.Attribute) and a.attr == "conditions" for a in ast.walk(c.args[0]))
                or (isinstance(c.args[0], ast.Name) and c.args[0].id in cond_iter)) for c in calls(e))

        def is_cond_value(v):
            # the translated condition itself, possibly passed through conversions (`ca.MX(self.get_mx(c))`)
            while isinstance(v, ast.Call) and len(v.args) == 1 and not v.keywords and not (isinstance(v.func, ast.Attribute) and v.func.attr == "get_mx"):
                v = v.args[0]
            return isinstance(v, ast.Call) and isinstance(v.func, ast.Attribute) and v.func.attr == "get_mx" and is_cond_source(v)

        cond_names = {st.targets[0].id for st in walk_local(fn) if isinstance(st, ast.Assign) and isinstance(st.targets[0], ast.Name) and is_cond_value(st.value)}
        sources = [e for st in walk_local(fn) for e in ast.walk(st) if isinstance(e, ast.Call) and isinstance(e.func, ast.Attribute) and e.func.attr == "get_mx" and is_cond_source(e)]
        if not sources:
            raise MechanismMissing(R, "%s does not translate tree.conditions with get_mx" % hname)

        def selecting_use(node):
            """node (a Name load or the get_mx call) is the first argument of ca.if_else, possibly through a pure re-binding of the same name"""
            par = parents.get(id(node))
            if isinstance(par, ast.Call) and (call_name(par) or "").split(".")[-1] == "if_else" and par.args and par.args[0] is node:
                return True
            return False

        uses = []
        for x in ast.walk(fn):
            if isinstance(x, ast.Name) and isinstance(x.ctx, ast.Load) and x.id in cond_names:
                # re-binding `cond = f(cond)` of the translated condition counts as a use by f
                uses.append(x)
        for src_ in sources:
            top = src_
            while isinstance(parents.get(id(top)), ast.Call) and len(parents[id(top)].args) == 1 and parents[id(top)].args[0] is top \
                    and (call_name(parents[id(top)]) or "").split(".")[-1] != "if_else":
                top = parents[id(top)]
            par = parents.get(id(top))
            if not (isinstance(par, ast.Assign) and par.value is top):
                uses.append(src_)
        for u in uses:
            n += 1
            # `cond` handed to get_mx itself (cond = self.get_mx(cond)) is the untranslated condition, not a use of the translated one
            par = parents.get(id(u))
            if isinstance(par, ast.Call) and isinstance(par.func, ast.Attribute) and par.func.attr == "get_mx":
                continue
            rep.ob(R, site, "condition `%s` (line offset %d) only selects" % (norm(u)[:40], len([y for y in uses[:uses.index(u)]])), selecting_use(u),
                   "the translated condition is used in `%s`, not as the selector of ca.if_else: with a condition that evaluates to 2 (`a or b`, "
                   "both true) an arithmetic blend gives a value that is neither branch" % norm(parents.get(id(u)))[:80])
    if n < 3:
        raise MechanismMissing(R, "fewer than 3 uses of translated conditions found in the if handlers")


@SPEC.rule(
    "R11.16",
    "every equation's residual is lhs - rhs: each value Generator.exitEquation stores for the equation is <derived from tree.left> - <derived "
    "from tree.right>, on every path — no special form for `0 = expr` or `x = 0` (rhs alone is the residual with its sign flipped)",
)
def r11_16(ctx, rep):
    from ..cfg import CFG
    R = "R11.16"
    fn = ctx.func(GEN, "Generator.exitEquation", R)
    site = GEN + ":Generator.exitEquation"
    src = _sources(fn, {"tree.left": "left", "tree.right": "right"})
    stores = [n for n in walk_local(fn) if isinstance(n, ast.Assign) and norm(n.targets[0]) == "self.src[tree]"]
    if not stores:
        raise MechanismMissing(R, "exitEquation stores nothing under self.src[tree]")
    for k, st in enumerate(stores):
        v = st.value
        ok = isinstance(v, ast.BinOp) and isinstance(v.op, ast.Sub) and isinstance(v.left, ast.Name) and isinstance(v.right, ast.Name) \
            and src.get(v.left.id) == {"left"} and src.get(v.right.id) == {"right"}
        rep.ob(R, site, "store #%d is lhs - rhs" % (k + 1), ok,
               "`%s`: the value stored for the equation is not <left side> - <right side>" % norm(st)[:80])
    cfg = CFG(fn, R)
    nodes = {x.id for x in cfg.stmts() if x.ast in stores}
    bad = cfg.must_pass(cfg.entry, cfg.exit, nodes)
    rep.ob(R, site, "every equation gets a residual", bad is None, "exitEquation can return without storing the equation's residual", path=cfg.describe(bad) if bad else "")


@SPEC.rule(
    "R11.17",
    "outputs of a function call are discarded whenever the other side is shorter: in Generator.exitEquation the statement that cuts the "
    "right-hand side down to the length of the left-hand side is guarded by tests about the right-hand side (it is a call of a user "
    "function) and about the two lengths only — not by the syntactic kind of the left-hand side (`a = f(x)` with a two-output f discards "
    "the second output just as `(a) = f(x)` does); and symmetrically for the left-hand side",
)
def r11_17(ctx, rep):
    R = "R11.17"
    fn = ctx.func(GEN, "Generator.exitEquation", R)
    site = GEN + ":Generator.exitEquation"
    src = _sources(fn, {"tree.left": "left", "tree.right": "right"})
    parents = {}
    for p_ in ast.walk(fn):
        for ch in ast.iter_child_nodes(p_):
            parents[id(ch)] = p_
    n = 0
    for st in walk_local(fn):
        if not (isinstance(st, ast.Assign) and isinstance(st.targets[0], ast.Name) and isinstance(st.value, ast.Subscript) and isinstance(st.value.slice, ast.Slice)
                and is_name(st.value.value, st.targets[0].id)):
            continue
        side = src.get(st.targets[0].id)
        if side not in ({"left"}, {"right"}):
            continue
        n += 1
        other = "left" if side == {"right"} else "right"
        tests = []
        q = st
        while id(q) in parents and parents[id(q)] is not fn:
            pq = parents[id(q)]
            if isinstance(pq, ast.If) and q in pq.body:
                tests.append(pq.test)
            q = pq
        kind_tests = [norm(c)[:60] for t in tests for c in ast.walk(t) if isinstance(c, ast.Call) and is_name(c.func, "isinstance") and c.args
                      and norm(c.args[0]) == "tree." + other]
        rep.ob(R, site, "truncation of the %s side does not depend on what kind of node the %s side is" % (list(side)[0], other), not kind_tests,
               "`%s` runs only under `%s`: for the other spellings of the same equation the surplus outputs stay and the residual gets extra rows" % (
                   norm(st)[:60], "; ".join(kind_tests)))
    if n < 2:
        raise MechanismMissing(R, "the two truncation statements (src = src[0:<other>.size1()]) were not found in exitEquation")


@SPEC.rule(
    "R11.18",
    "der(<expression>) keeps every variable the expression depends on: where Generator.get_derivative decides from the Jacobian's sparsity "
    "that a dependency does not matter, it looks at all Jacobian entries of that dependency — the columns from its offset to its offset + "
    "its number of elements, in every row — not at entry (0, j) with j the position of the dependency in the list (for a vector x, "
    "der(5*x[2]) depends on the second column only, and the derivative would be dropped)",
)
def r11_18(ctx, rep):
    R = "R11.18"
    fn = ctx.func(GEN, "Generator.get_derivative", R)
    site = GEN + ":Generator.get_derivative"
    hz = [c for c in ast.walk(fn) if isinstance(c, ast.Call) and isinstance(c.func, ast.Attribute) and c.func.attr == "has_nz" and len(c.args) == 2]
    if not hz:
        # another spelling of the same question (`J_sparsity[:, a:b].nnz() > 0`, `ca.depends_on(s, dep)`) asks about the whole dependency by construction
        if any(isinstance(c, ast.Call) and isinstance(c.func, ast.Attribute) and c.func.attr in ("nnz", "depends_on", "which_depends") for c in ast.walk(fn)):
            rep.ob(R, site, "the dependency test asks about the dependency as a whole", True, "")
            return
        raise MechanismMissing(R, "the sparsity test of the Jacobian (has_nz) was not found in get_derivative")
    # the counters of enumerations over the dependency list
    counters = set()
    for n_ in ast.walk(fn):
        gens = n_.generators if isinstance(n_, (ast.ListComp, ast.GeneratorExp, ast.SetComp)) else []
        loops = [(g.target, g.iter) for g in gens] + ([(n_.target, n_.iter)] if isinstance(n_, ast.For) else [])
        for tgt, it in loops:
            if isinstance(it, ast.Call) and is_name(it.func, "enumerate") and isinstance(tgt, ast.Tuple) and isinstance(tgt.elts[0], ast.Name):
                counters.add(tgt.elts[0].id)
    for k, c in enumerate(hz):
        row, col = c.args
        col_ok = not (isinstance(col, ast.Name) and col.id in counters)
        row_ok = not isinstance(row, ast.Constant)
        rep.ob(R, site, "sparsity test #%d covers the dependency's own Jacobian entries" % (k + 1), col_ok and row_ok,
               "`%s` tests one entry — column = position of the dependency in the list, row = %s: for a dependency with several elements (or an "
               "expression with several rows) the other entries are not looked at and a non-zero derivative is dropped" % (norm(c), norm(row)))


@SPEC.rule(
    "R11.19",
    "a slice subscript is shifted to 0-based at its start only: in the slice branch of Generator.get_indexed_symbol the converted subscript is "
    "slice(<start - 1, or None>, <the slice's stop>, <the slice's step>) — Modelica's inclusive 1-based stop is Python's exclusive 0-based stop, "
    "so the stop (and the step) pass through unchanged; any arithmetic on them drops or adds an element for some start/stop/step",
)
def r11_19(ctx, rep):
    from ..pyutil import inlined
    R = "R11.19"
    fn = ctx.func(GEN, "Generator.get_indexed_symbol", R)
    site = GEN + ":Generator.get_indexed_symbol"
    n = 0
    for br in ast.walk(fn):
        if not (isinstance(br, ast.If) and isinstance(br.test, ast.Call) and is_name(br.test.func, "isinstance") and len(br.test.args) == 2 and is_name(br.test.args[1], "slice")):
            continue
        v = norm(br.test.args[0])
        block = [st for b in br.body for st in ast.walk(b) if isinstance(st, ast.stmt)]
        for c in [c for b in br.body for c in ast.walk(b) if isinstance(c, ast.Call) and is_name(c.func, "slice") and len(c.args) == 3]:
            n += 1
            a0, a1, a2 = [norm(inlined(a, block, keep={v})) for a in c.args]
            rep.ob(R, site, "converted slice keeps the stop", a1 == v + ".stop", "the stop of the converted slice is `%s`, not %s.stop" % (a1[:70], v))
            rep.ob(R, site, "converted slice keeps the step", a2 == v + ".step", "the step of the converted slice is `%s`, not %s.step" % (a2[:70], v))
            rep.ob(R, site, "converted slice starts one earlier", (v + ".start - 1") in a0 and a0.count(v + ".start") <= 2 and "None" in a0,
                   "the start of the converted slice is `%s`, not `None if %s.start is None else %s.start - 1`" % (a0[:70], v, v))
    if n < 1:
        raise MechanismMissing(R, "the conversion of a slice subscript (slice(start - 1, stop, step)) was not found in get_indexed_symbol")


@SPEC.rule(
    "R11.20",
    "a two-argument built-in keeps its argument order: where Generator.exitExpression translates an operator that is a method of MX "
    "(`getattr(<receiver>, op)(<argument>)`), the receiver is the translation of tree.operands[0] and the argument that of tree.operands[1] "
    "— `copysign(u, v)`, `fmod(u, v)`, `atan2(u, v)` are not symmetric",
)
def r11_20(ctx, rep):
    import re
    from ..pyutil import inlined, stmt_list_of
    R = "R11.20"
    fn = ctx.func(GEN, "Generator.exitExpression", R)
    site = GEN + ":Generator.exitExpression"
    n = 0
    for st in ast.walk(fn):
        if not isinstance(st, ast.stmt) or isinstance(st, (ast.If, ast.For, ast.While, ast.Try, ast.With, ast.FunctionDef)):
            continue
        sib = stmt_list_of(st) or []
        block = [x for b_ in sib for x in ast.walk(b_) if isinstance(x, ast.stmt)]

        def resolve(e):
            r = inlined(e, block)
            if isinstance(r, ast.Name):
                i = next((k for k, s_ in enumerate(sib) if s_ is st), None)
                if i:
                    prev = sib[i - 1]
                    if isinstance(prev, ast.Assign) and len(prev.targets) == 1 and is_name(prev.targets[0], r.id):
                        return prev.value
            return r

        for c in ast.walk(st):
            if not isinstance(c, ast.Call):
                continue
            f = inlined(c.func, block)
            # the method named by the operator itself (not looked up in the operator table: those are R11.1-R11.3's)
            if not (isinstance(f, ast.Call) and is_name(f.func, "getattr") and len(f.args) == 2 and isinstance(f.args[1], ast.Name)):
                continue
            recv = norm(resolve(f.args[0]))
            if re.fullmatch(r"ca(\.\w+)+", recv):
                continue  # a constructor of the CasADi module (`getattr(ca.DM, 'zeros')(*dims)`), not a method of an operand
            if "operands" not in recv and "operands" not in " ".join(norm(inlined(a, block)) for a in c.args):
                continue
            n += 1
            rep.ob(R, site, "receiver of `%s` is the first operand" % norm(c)[:50], set(re.findall(r"operands\[(\w+)\]", recv)) == {"0"},
                   "the method is looked up on `%s`: for a two-argument built-in the operands are swapped (or not taken by position at all)" % recv[:80])
            for a in c.args:
                an = norm(inlined(a, block))
                rep.ob(R, site, "argument of `%s` is the second operand" % norm(c)[:50], set(re.findall(r"operands\[(\w+)\]", an)) == {"1"} and not isinstance(a, ast.Starred),
                       "the argument handed to the method is `%s`" % an[:80])
    if n < 1:
        raise MechanismMissing(R, "the method-call translation of built-in operators (getattr(<operand>, op)(...)) was not found in exitExpression (found %d)" % n)


# -- seeded variants ---------------------------------------------------------
from ._mut import replace_in_func  # noqa: E402


def _set_map(key, val):
    def m(mod):
        for st in mod.body:
            if isinstance(st, ast.Assign) and is_name(st.targets[0], "OP_MAP"):
                for k, v in zip(st.value.keys, st.value.values):
                    if const_str(k) == key:
                        v.value = val
                        return mod
        return None

    return m


SPEC.mutant("'<' mapped to __le__", GEN, "R11.3", "'<'")(_set_map("<", "__le__"))
SPEC.mutant("'-' mapped to missing method", GEN, "R11.2", "'-'")(_set_map("-", "__minus__"))


@SPEC.mutant("'>=' removed from table", GEN, "R11.1", "'>='")
def _m3(mod):
    for st in mod.body:
        if isinstance(st, ast.Assign) and is_name(st.targets[0], "OP_MAP"):
            ks = [(k, v) for k, v in zip(st.value.keys, st.value.values) if const_str(k) != ">="]
            st.value.keys = [k for k, v in ks]
            st.value.values = [v for k, v in ks]
            return mod
    return None


@SPEC.mutant("der() of an expression looks at Jacobian entry (0, position) only", GEN, "R11.18", "covers the dependency's own Jacobian entries")
def _m_diag_sparsity(mod):
    def edit(fn):
        for n in ast.walk(fn):
            if isinstance(n, ast.Call) and isinstance(n.func, ast.Attribute) and n.func.attr == "has_nz" and len(n.args) == 2:
                n.args = [ast.Constant(value=0), ast.Name(id="j", ctx=ast.Load())]
                return True
        return False

    return mod if replace_in_func(mod, "Generator.get_derivative", edit) else None


@SPEC.mutant("residual reversed", GEN, "R11.4", "lhs - rhs")
def _m4(mod):
    def edit(fn):
        for n in ast.walk(fn):
            if isinstance(n, ast.Assign) and norm(n.targets[0]) == "self.src[tree]" and isinstance(n.value, ast.BinOp):
                n.value.left, n.value.right = n.value.right, n.value.left
                return True
        return False

    return mod if replace_in_func(mod, "Generator.exitEquation", edit) else None


@SPEC.mutant("not translated to if_else(x, 1, 0)", GEN, "R11.3", "not")
def _m5(mod):
    def edit(fn):
        for n in ast.walk(fn):
            if isinstance(n, ast.Call) and call_name(n) == "ca.if_else" and len(n.args) == 4 and literal(n.args[1]) == 0 and literal(n.args[2]) == 1:
                n.args[1], n.args[2] = n.args[2], n.args[1]
                return True
        return False

    return mod if replace_in_func(mod, "Generator.exitExpression", edit) else None


@SPEC.mutant("elementwise dot not stripped", GEN, "R11.1", "'./'")
def _m6(mod):
    def edit(fn):
        for i, st in enumerate(fn.body):
            if isinstance(st, ast.If) and norm(st.test) == "op.startswith('.')":
                fn.body[i] = ast.Pass()
                return True
        return False

    return mod if replace_in_func(mod, "Generator.exitExpression", edit) else None


@SPEC.mutant("for-statement assignments grouped by variable", GEN, "R11.5", "order")
def _m7(mod):
    def edit(fn):
        for n in ast.walk(fn):
            if isinstance(n, ast.For) and norm(n.iter) == "range(len(f.values))" and n.body and isinstance(n.body[0], ast.For):
                inner = n.body[0]
                n.target, inner.target = inner.target, n.target
                n.iter, inner.iter = inner.iter, n.iter
                return True
            # the same nest once the engine has brought it to a comprehension
            if isinstance(n, ast.ListComp) and len(n.generators) == 2 and norm(n.generators[0].iter) == "range(len(f.values))":
                n.generators.reverse()
                return True
        return False

    return mod if replace_in_func(mod, "Generator.exitForStatement", edit) else None


@SPEC.mutant("three-part range stored as start:stop:step", "src/pymoca/parser.py", "R11.6", "3-part range")
def _m_range(mod):
    def edit(fn):
        done = 0
        for n in ast.walk(fn):
            if isinstance(n, ast.Subscript) and norm(n.value).endswith(".expr()") and isinstance(n.slice, ast.Constant) and n.slice.value == 1 and not done:
                n.slice = ast.Constant(value=2)
                done += 1
            elif isinstance(n, ast.Subscript) and norm(n.value).endswith(".expr()") and isinstance(n.slice, ast.UnaryOp):
                n.slice = ast.Constant(value=1)
                done += 1
        return done == 2

    return mod if replace_in_func(mod, "ASTListener.exitSimple_expression", edit) else None


@SPEC.mutant("loop bound stop + step", GEN, "R11.7", "exclusive bound")
def _m_bound(mod):
    def edit(fn):
        for c in ast.walk(fn):
            if isinstance(c, ast.Call) and (call_name(c) or "").endswith("arange") and len(c.args) >= 3 and isinstance(c.args[1], ast.BinOp):
                c.args[1].right = ast.Name(id=c.args[2].id, ctx=ast.Load())
                return True
        return False

    return mod if replace_in_func(mod, "ForLoop.__init__", edit) else None


@SPEC.mutant("function cache keyed by the short name", GEN, "R11.8", "one key")
def _m_fcache(mod):
    def edit(fn):
        done = False
        for n in ast.walk(fn):
            if isinstance(n, ast.Subscript) and norm(n.value) == "self.functions" and isinstance(n.ctx, ast.Store):
                n.slice = ast.parse("func.name()", mode="eval").body
                done = True
        return done

    return mod if replace_in_func(mod, "Generator.get_function", edit) else None


@SPEC.mutant("auto-transpose also for equal shapes", GEN, "R11.9", "transpose of")
def _m_transpose(mod):
    def edit(fn):
        for n in ast.walk(fn):
            if isinstance(n, ast.If) and isinstance(n.test, ast.BoolOp) and any(isinstance(v, ast.Compare) and isinstance(v.ops[0], ast.NotEq) and ".shape" in norm(v) for v in n.test.values):
                n.test.values = [v for v in n.test.values if not (isinstance(v, ast.Compare) and isinstance(v.ops[0], ast.NotEq))] or [ast.Constant(value=True)]
                if len(n.test.values) == 1:
                    n.test = n.test.values[0]
                return True
        return False

    return mod if replace_in_func(mod, "Generator.exitEquation", edit) else None


@SPEC.mutant("if-statement branches paired positionally", GEN, "R11.11", "collected under their own")
def _m_positional(mod):
    def edit(fn):
        for c in ast.walk(fn):
            if isinstance(c, ast.Call) and isinstance(c.func, ast.Attribute) and c.func.attr == "setdefault" and c.args and norm(c.args[0]).endswith(".left"):
                c.args[0] = ast.parse("len(expanded_blocks)", mode="eval").body
                return True
        return False

    return mod if replace_in_func(mod, "Generator.exitIfStatement", edit) else None


@SPEC.mutant("values gathered loop indices first", GEN, "R11.12", "filled in one pass")
def _m_vals_groups(mod):
    def edit(fn):
        for n in ast.walk(fn):
            for f in ("body", "orelse"):
                lst = getattr(n, f, None)
                if isinstance(lst, list):
                    for i, st in enumerate(lst):
                        if isinstance(st, ast.For) and norm(st.iter) == "free_vars":
                            lst[i] = ast.parse("vals = [self.for_loops[-1].index_variable for v in free_vars if self.for_loops and v.name() == self.for_loops[-1].name]").body[0]
                            lst.insert(i + 1, ast.parse("vals += [self.get_integer(self.current_class.symbols[v.name()].value) for v in free_vars if not (self.for_loops and v.name() == self.for_loops[-1].name)]").body[0])
                            return True
        return False

    return mod if replace_in_func(mod, "Generator.get_integer", edit) else None


@SPEC.mutant("residual of `0 = expr` is expr", GEN, "R11.16", "store #")
def _m_zero_lhs(mod):
    def edit(fn):
        for i, st in enumerate(fn.body):
            if isinstance(st, ast.Assign) and norm(st.targets[0]) == "self.src[tree]":
                fn.body[i] = ast.parse("if src_left.is_zero():\n    self.src[tree] = src_right\nelse:\n    self.src[tree] = src_left - src_right").body[0]
                return True
        return False

    return mod if replace_in_func(mod, "Generator.exitEquation", edit) else None


@SPEC.mutant("if-statement branches blended arithmetically", GEN, "R11.15", "only selects")
def _m_blend(mod):
    def edit(fn):
        for st in ast.walk(fn):
            if isinstance(st, ast.Assign) and isinstance(st.value, ast.Call) and norm(st.value.func) == "ca.if_else" and len(st.value.args) >= 3:
                c, a, b = [norm(x) for x in st.value.args[:3]]
                st.value = ast.parse("(%s) * (%s) + (1 - (%s)) * (%s)" % (c, a, c, b), mode="eval").body
                return True
        return False

    return mod if replace_in_func(mod, "Generator.exitIfStatement", edit) else None


@SPEC.mutant("slice stop shifted to 0-based as well", GEN, "R11.19", "keeps the stop")
def _m_slice_stop(mod):
    def edit(fn):
        for c in ast.walk(fn):
            if isinstance(c, ast.Call) and is_name(c.func, "slice") and len(c.args) == 3 and norm(c.args[1]).endswith(".stop"):
                c.args[1] = ast.BinOp(left=c.args[1], op=ast.Sub(), right=ast.Constant(value=1))
                return True
        return False

    return mod if replace_in_func(mod, "Generator.get_indexed_symbol", edit) else None


@SPEC.mutant("two-argument built-in called on its second operand", GEN, "R11.20", "is the first operand")
def _m_swapped_builtin(mod):
    def edit(fn):
        done = False
        for br in ast.walk(fn):
            if isinstance(br, ast.If) and any(isinstance(c, ast.Call) and is_name(c.func, "hasattr") for c in ast.walk(br.test)):
                for st in ast.walk(br):
                    if isinstance(st, ast.Assign) and isinstance(st.targets[0], ast.Name) and st.targets[0].id in ("lhs", "rhs"):
                        for x in ast.walk(st.value):
                            if isinstance(x, ast.Subscript) and norm(x.value) == "tree.operands" and isinstance(x.slice, ast.Constant):
                                x.slice = ast.Constant(value=1 - x.slice.value)
                                done = True
        return done

    return mod if replace_in_func(mod, "Generator.exitExpression", edit) else None
