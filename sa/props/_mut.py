"""Helpers to compute seeded edits on a module AST (used only by the thorough tier)."""
from __future__ import annotations

import ast
from typing import Callable, Optional


def find_def(mod: ast.AST, qualname: str):
    node = mod
    for part in qualname.split("."):
        nxt = None
        for st in ast.walk(node) if node is mod else node.body:
            if isinstance(st, (ast.FunctionDef, ast.ClassDef)) and st.name == part:
                nxt = st
                break
        if nxt is None:
            # nested search
            for st in ast.walk(node):
                if isinstance(st, (ast.FunctionDef, ast.ClassDef)) and st.name == part and st is not node:
                    nxt = st
                    break
        if nxt is None:
            return None
        node = nxt
    return node


def replace_in_func(mod, qualname: str, edit: Callable[[ast.AST], bool]) -> bool:
    fn = find_def(mod, qualname)
    if fn is None:
        return False
    return bool(edit(fn))


def replace_const_str(mod, qualname: str, f: Callable[[str], Optional[str]]) -> bool:
    fn = find_def(mod, qualname)
    if fn is None:
        return False
    hit = False
    for n in ast.walk(fn):
        if isinstance(n, ast.Constant) and isinstance(n.value, str):
            new = f(n.value)
            if new is not None and new != n.value:
                n.value = new
                hit = True
    return hit


def _bodies(node):
    for n in ast.walk(node):
        for f in ("body", "orelse", "finalbody"):
            lst = getattr(n, f, None)
            if isinstance(lst, list) and lst and isinstance(lst[0], ast.stmt):
                yield lst
        if isinstance(n, ast.Try):
            for h in n.handlers:
                yield h.body


def delete_stmt_where(mod, qualname: str, pred: Callable[[ast.stmt], bool], which: int = 0, simple_only=True) -> bool:
    """Replace the which-th (simple) statement satisfying pred by ``pass``."""
    fn = find_def(mod, qualname)
    if fn is None:
        return False
    k = 0
    for lst in _bodies(fn):
        for i, st in enumerate(lst):
            if simple_only and isinstance(st, (ast.If, ast.For, ast.While, ast.Try, ast.With, ast.FunctionDef, ast.ClassDef)):
                continue
            try:
                hit = pred(st)
            except Exception:
                hit = False
            if hit:
                if k == which:
                    lst[i] = ast.Pass()
                    return True
                k += 1
    return False


def replace_stmt_where(mod, qualname: str, pred, new_stmts_fn, which: int = 0) -> bool:
    fn = find_def(mod, qualname)
    if fn is None:
        return False
    k = 0
    for lst in _bodies(fn):
        for i, st in enumerate(lst):
            try:
                hit = pred(st)
            except Exception:
                hit = False
            if hit:
                if k == which:
                    new = new_stmts_fn(st)
                    lst[i: i + 1] = new
                    return True
                k += 1
    return False


def parse_stmt(src: str) -> ast.stmt:
    return ast.parse(src).body[0]


def parse_expr(src: str) -> ast.expr:
    return ast.parse(src, mode="eval").body
