"""C09 — connections produce the connection-set equations (structural clauses of the set bookkeeping only)."""
from __future__ import annotations

import ast

from ..cfg import CFG
from ..engine import AnalysisError, MechanismMissing, PropertySpec, norm
from ..pyutil import call_name, calls, is_name, literal, walk_local

TREE = "src/pymoca/tree.py"
SITE = TREE + ":expand_connectors"

SPEC = PropertySpec(
    "C09",
    "Connections produce exactly the Modelica connection-set equations",
    decided=(
        "the bookkeeping every correct implementation of connection sets needs, read off expand_connectors and the two places "
        "that produce the inside/outside flag: (1) union — when a connect clause joins two flow variables, the merged set "
        "contains the members of both previous sets and both ends with their own reference and their own inside flag, and "
        "every member of the merged set is re-pointed to it; (2) one zero-sum equation per distinct set, whose operands are the "
        "set's members, un-negated when inside and negated when outside, with right-hand side 0; (3) unconnected flows — both "
        "ends of every flow connection leave the 'disconnected' table, and every variable left in it gets `= 0`; (4) potential "
        "variables get `left = right` per connect clause; (5) the inside flag stored on the connect clause is computed from "
        "the reference's depth in flatten_symbols and read back under the same attribute names."
    ),
    not_decided=(
        "equality of solution sets for all connection graphs (needs the semantics of the generated equations), arrays of "
        "connectors whose size is not known when the sets are built, and expandable connectors."
    ),
)


UNIONS = ("left_set.update(right_set)", "right_set.update(left_set)", "left_set.update(flow_connections.get(right_key, OrderedDict()))")


def _flow_table_generator(st, node):
    """the generator of `X = OrderedDict((s.name, s) for s in <node>.symbols.values() if 'flow' in s.prefixes)` / the dict comprehension of the same, else None"""
    if not (isinstance(st, ast.Assign) and len(st.targets) == 1 and isinstance(st.targets[0], ast.Name)):
        return None
    v = st.value
    comp = None
    if isinstance(v, ast.Call) and (call_name(v) or "").split(".")[-1] in ("OrderedDict", "dict") and len(v.args) == 1 and isinstance(v.args[0], (ast.GeneratorExp, ast.ListComp)):
        comp = v.args[0]
    elif isinstance(v, ast.DictComp):
        comp = v
    if comp is None or len(comp.generators) != 1 or norm(comp.generators[0].iter) != "%s.symbols.values()" % node:
        return None
    return comp


def _fn(ctx, R):
    """expand_connectors with role-named locals: flow_connections (key -> its set), disconnected (name -> Symbol),
    connected (the merged set of the clause being processed), left_key/right_key, equation (loop variable)"""
    from ..pyutil import renamed_copy
    if "c09_fn" in ctx.cache:
        return ctx.cache["c09_fn"]
    fn = ctx.func(TREE, "expand_connectors", R)
    roles = {}
    node = fn.args.args[0].arg
    for st in fn.body:
        if isinstance(st, ast.For) and norm(st.iter) == "%s.symbols.values()" % node:
            for a in ast.walk(st):
                if isinstance(a, ast.Assign) and isinstance(a.targets[0], ast.Subscript) and isinstance(a.targets[0].value, ast.Name) \
                        and any(isinstance(t, ast.Compare) and "flow" in norm(t) for t in ast.walk(st)):
                    roles[a.targets[0].value.id] = "disconnected"
        # the same table built in one expression (the engine's normal form of the loop above): X = OrderedDict((s.name, s) for s in node.symbols.values() if 'flow' in s.prefixes)
        g = _flow_table_generator(st, node)
        if g is not None:
            roles[st.targets[0].id] = "disconnected"
    for lp in ast.walk(fn):
        if isinstance(lp, ast.For) and isinstance(lp.target, ast.Name) and any(isinstance(t, ast.Call) and is_name(t.func, "isinstance") and "ConnectClause" in norm(t) for t in ast.walk(lp)):
            roles.setdefault(lp.target.id, "equation")
    # the table of sets: X.get(<key>, OrderedDict()) twice
    gets = [c for c in ast.walk(fn) if isinstance(c, ast.Call) and isinstance(c.func, ast.Attribute) and c.func.attr == "get" and isinstance(c.func.value, ast.Name)
            and len(c.args) == 2 and isinstance(c.args[1], ast.Call) and (call_name(c.args[1]) or "").endswith(("OrderedDict", "dict"))]
    for c in gets:
        roles.setdefault(c.func.value.id, "flow_connections")
    # the two previous sets: `<s> = table.get(<key>, OrderedDict())`, or the same call written in place as argument of `<s>.update(..)`
    bound = [(st.value.args[0].id, st.targets[0].id) for st in ast.walk(fn) if isinstance(st, ast.Assign) and isinstance(st.targets[0], ast.Name)
             and isinstance(st.value, ast.Call) and any(st.value is g for g in gets) and isinstance(st.value.args[0], ast.Name)]
    inplace = [c.args[0].id for c in gets if isinstance(c.args[0], ast.Name) and not any(c.args[0].id == k for k, _ in bound)]
    if len(bound) >= 1:
        roles.setdefault(bound[0][0], "left_key")
        roles.setdefault(bound[0][1], "left_set")
        for st in ast.walk(fn):
            if isinstance(st, ast.Assign) and isinstance(st.targets[0], ast.Name) and isinstance(st.value, ast.Name) and st.value.id == bound[0][1]:
                roles.setdefault(st.targets[0].id, "connected")
    if len(bound) >= 2:
        roles.setdefault(bound[1][0], "right_key")
        roles.setdefault(bound[1][1], "right_set")
    elif inplace:
        roles.setdefault(inplace[0], "right_key")
    # per clause: the flat names of the two ends (built from <clause>.left.name / .right.name) and the references made from them
    eqv = next((k for k, v in roles.items() if v == "equation"), None)
    for st in ast.walk(fn):
        if isinstance(st, ast.Assign) and isinstance(st.targets[0], ast.Name) and eqv:
            v = norm(st.value)
            for side in ("left", "right"):
                if isinstance(st.value, ast.BinOp) and v.startswith("%s.%s.name + " % (eqv, side)):
                    roles.setdefault(st.targets[0].id, side + "_name")
    nm = {k: v for k, v in roles.items() if v in ("left_name", "right_name")}
    for st in ast.walk(fn):
        if isinstance(st, ast.Assign) and isinstance(st.targets[0], ast.Name) and isinstance(st.value, ast.Call) and (call_name(st.value) or "").endswith("ComponentRef"):
            for k in st.value.keywords:
                if k.arg == "name" and isinstance(k.value, ast.Name) and k.value.id in nm:
                    roles.setdefault(st.targets[0].id, nm[k.value.id][:-5])
    ctx.cache["c09_fn"] = renamed_copy(fn, {k: v for k, v in roles.items() if k != v})
    ctx.cache["c09_roles"] = roles
    return ctx.cache["c09_fn"]


@SPEC.rule(
    "R09.1",
    "union of connection sets: the merged set is the left end's previous set updated with the right end's previous set; both "
    "ends are then stored in it under their own key with (their own reference, their own inside flag); every member of the "
    "merged set — the loop runs over the merged set itself — is re-pointed to the merged set in the table of sets",
)
def r09_1(ctx, rep):
    R = "R09.1"
    fn = _fn(ctx, R)
    roles = set(ctx.cache["c09_roles"].values())
    need = {"flow_connections", "left_key", "right_key", "left_set"}
    if not need <= roles:
        raise MechanismMissing(R, "set bookkeeping of expand_connectors not found (missing roles %s)" % sorted(need - roles))
    t = [norm(s) for s in ast.walk(fn) if isinstance(s, (ast.Assign, ast.Expr))]
    merged = "connected" if "connected" in roles else "left_set"
    right_prev = ("right_set = flow_connections.get(right_key, OrderedDict())" in t, "flow_connections.get(right_key, OrderedDict())")
    rep.ob(R, SITE, "previous sets looked up by the two ends' keys",
           "left_set = flow_connections.get(left_key, OrderedDict())" in t and (right_prev[0] or any(right_prev[1] in x for x in t)),
           "each end's previous set must be fetched from the table under that end's own key")
    rep.ob(R, SITE, "sets united", any(x in t for x in UNIONS),
           "the merged set must contain the members of both previous sets (chains a-b, b-c put a and c into one set)")
    for side in ("left", "right"):
        want = "%s[%s_key] = (%s, equation.__%s_inner)" % (merged, side, side, side)
        rep.ob(R, SITE, "%s end stored with its own reference and flag" % side, want in t,
               "expected `%s`: an end stored under the other end's key, reference or inside flag enters the zero-sum equation with the "
               "wrong name or sign" % want)
    ok = False
    for lp in ast.walk(fn):
        if isinstance(lp, ast.For) and isinstance(lp.target, ast.Name) and is_name(lp.iter, merged):
            ok = any(norm(s) == "flow_connections[%s] = %s" % (lp.target.id, merged) for s in lp.body)
    rep.ob(R, SITE, "every member re-pointed to the merged set", ok,
           "after a union every key of the merged set must map to the merged set (`for k in <merged>: table[k] = <merged>`); re-pointing "
           "only the two ends leaves earlier members attached to a stale set and their flows are summed twice")
    # the keys carry name, indices and the inside flag of their own end
    for side in ("left", "right"):
        kdef = [s.value for s in ast.walk(fn) if isinstance(s, ast.Assign) and is_name(s.targets[0], "%s_key" % side)]
        ok = bool(kdef) and isinstance(kdef[0], ast.Tuple) and len(kdef[0].elts) == 3 and norm(kdef[0].elts[0]) == "%s_name" % side \
            and ("%s.indices" % side) in norm(kdef[0].elts[1]) and norm(kdef[0].elts[2]) == "equation.__%s_inner" % side
        rep.ob(R, SITE, "%s key built from its own name, indices and flag" % side, ok,
               "the set key of the %s end must be (its flat name, its subscripts, its inside flag)" % side)


@SPEC.rule(
    "R09.2",
    "one zero-sum equation per distinct set: the loop over the table of sets skips sets already processed and records each set "
    "it handles; the operands are the members' references, negated exactly when the member's inside flag is false; they are "
    "folded with '+' and equated to the literal 0",
)
def r09_2(ctx, rep):
    R = "R09.2"
    fn = _fn(ctx, R)
    loop = None
    for lp in fn.body:
        if isinstance(lp, ast.For) and norm(lp.iter) == "flow_connections.values()" and isinstance(lp.target, ast.Name):
            loop = lp
    if loop is None:
        raise MechanismMissing(R, "loop over the table of sets (flow_connections.values()) not found")
    sv = loop.target.id
    # decided on the control-flow graph, so that `if s not in done: ...` and `if s in done: continue` are the same thing
    from ..cfg import CFG, assume_truth
    cfg = CFG(ast.Module(body=[loop], type_ignores=[]), R)
    it = [x for x in cfg.nodes if x.kind == "iter" and x.ast is loop][0]
    once = False
    proc = None
    cands = {c.comparators[0].id for c in ast.walk(loop) if isinstance(c, ast.Compare) and len(c.ops) == 1 and isinstance(c.ops[0], (ast.In, ast.NotIn))
             and is_name(c.left, sv) and isinstance(c.comparators[0], ast.Name)}
    for P in sorted(cands):
        expr = "%s in %s" % (sv, P)
        seen_yes = [x for x in cfg.nodes if assume_truth(x, expr) is True]
        seen_no = [x for x in cfg.nodes if assume_truth(x, expr) is False]
        records = {x.id for x in cfg.stmts() if any(isinstance(c.func, ast.Attribute) and c.func.attr in ("append", "add") and is_name(c.func.value, P)
                                                    and c.args and is_name(c.args[0], sv) for c in calls(x.ast))}
        emits = {x.id for x in cfg.stmts() if "Equation(" in norm(x.ast)}
        if not seen_yes or not seen_no or not records:
            continue
        recorded = all(cfg.path(a.id, it.id, avoid=records) is None for a in seen_no)
        skipped = all(not (cfg.reachable(a.id, avoid={it.id}) & emits) for a in seen_yes)
        if recorded and skipped:
            once, proc = True, P
    rep.ob(R, SITE, "each set handled once", once,
           "every key of a set maps to the same set object, so the loop meets a set once per member: it must skip sets it has recorded and "
           "record each set it handles — otherwise the zero-sum equation is emitted once per member")
    # sign: negated iff not inside
    t = norm(loop)
    specs = [s.targets[0].id for s in ast.walk(loop) if isinstance(s, ast.Assign) and isinstance(s.targets[0], ast.Name) and norm(s.value) == "list(%s.values())" % sv]
    neg_ok = False
    for e in ast.walk(loop):
        if not isinstance(e, ast.IfExp):
            continue
        # the member's (reference, inside flag) pair: `m[0]` / `m[1]` of the loop variable, or the two names it is unpacked into
        ref = flag = None
        if isinstance(e.test, ast.Subscript) and literal(e.test.slice) == 1:
            m = norm(e.test.value)
            ref, flag = "%s[0]" % m, "%s[1]" % m
        elif isinstance(e.test, ast.Name):
            comp = getattr(e, "_parent", None)
            while comp is not None and not isinstance(comp, (ast.ListComp, ast.GeneratorExp, ast.For)):
                comp = getattr(comp, "_parent", None)
            tg = comp.generators[0].target if isinstance(comp, (ast.ListComp, ast.GeneratorExp)) else (comp.target if comp is not None else None)
            src = comp.generators[0].iter if isinstance(comp, (ast.ListComp, ast.GeneratorExp)) else (comp.iter if comp is not None else None)
            if isinstance(tg, ast.Tuple) and len(tg.elts) == 2 and all(isinstance(x, ast.Name) for x in tg.elts) and tg.elts[1].id == e.test.id \
                    and isinstance(src, ast.Name) and src.id in specs:
                ref, flag = tg.elts[0].id, tg.elts[1].id
        if ref is None:
            continue
        plain = norm(e.body) == ref and norm(e.test) == flag
        negd = isinstance(e.orelse, ast.Call) and (call_name(e.orelse) or "").endswith("Expression") and any(
            k.arg == "operator" and literal(k.value) == "-" for k in e.orelse.keywords) and ("[%s]" % ref) in norm(e.orelse)
        neg_ok = neg_ok or (plain and negd)
    rep.ob(R, SITE, "outside members negated, inside members not", neg_ok,
           "an operand must be the member's reference when its inside flag (element 1 of the stored pair) is true and Expression('-', [ref]) "
           "otherwise: flows into inside connectors count positive, flows into outside connectors negative")
    fold = any(isinstance(s, ast.Assign) and isinstance(s.value, ast.Call) and (call_name(s.value) or "").endswith("Expression")
               and any(k.arg == "operator" and literal(k.value) == "+" for k in s.value.keywords) for s in ast.walk(loop))
    eq0 = any(isinstance(c, ast.Call) and (call_name(c) or "").endswith("Equation") and any(
        k.arg == "right" and isinstance(k.value, ast.Call) and (call_name(k.value) or "").endswith("Primary") and any(
            kk.arg == "value" and literal(kk.value) == 0 for kk in k.value.keywords) for k in c.keywords) for c in ast.walk(loop))
    app = any(isinstance(s, ast.Expr) and norm(s.value).startswith("%s.equations.append(" % fn.args.args[0].arg) for s in ast.walk(loop))
    rep.ob(R, SITE, "operands summed and equated to zero", fold and eq0 and app and bool(specs),
           "the members of a set must be folded with '+' into one expression and `<sum> = 0` appended to the class's equations")


@SPEC.rule(
    "R09.3",
    "unconnected flow variables default to zero: every flow-prefixed symbol enters the 'disconnected' table; both ends of every "
    "flow connection are removed from it on the path that unites their sets; after all clauses every symbol left in it gets "
    "`<name> = 0`",
)
def r09_3(ctx, rep):
    R = "R09.3"
    fn = _fn(ctx, R)
    if "disconnected" not in ctx.cache["c09_roles"].values():
        raise MechanismMissing(R, "table of not-yet-connected flow variables not found")
    node = fn.args.args[0].arg
    init = False
    for lp in fn.body:
        if isinstance(lp, ast.For) and norm(lp.iter) == "%s.symbols.values()" % node and isinstance(lp.target, ast.Name):
            s = lp.target.id
            for i in ast.walk(lp):
                if isinstance(i, ast.If) and norm(i.test) in ("'flow' in %s.prefixes" % s,) and any(norm(x) == "disconnected[%s.name] = %s" % (s, s) for x in i.body):
                    init = True
    for st in fn.body:
        comp = _flow_table_generator(st, node)
        if comp is not None and is_name(st.targets[0], "disconnected") and isinstance(comp.generators[0].target, ast.Name):
            s = comp.generators[0].target.id
            key, val = (comp.key, comp.value) if isinstance(comp, ast.DictComp) else (comp.elt.elts if isinstance(comp.elt, ast.Tuple) and len(comp.elt.elts) == 2 else (None, None))
            init = init or (key is not None and norm(key) == "%s.name" % s and norm(val) == s and [norm(c) for c in comp.generators[0].ifs] == ["'flow' in %s.prefixes" % s])
    rep.ob(R, SITE, "every flow symbol starts as unconnected", init, "`if 'flow' in sym.prefixes: disconnected[sym.name] = sym` for every symbol of the class")
    cfg = CFG(fn, R)
    unions = [x for x in cfg.stmts() if norm(x.ast) in UNIONS]
    pops = {side: {x.id for x in cfg.stmts() if any(isinstance(c.func, ast.Attribute) and c.func.attr in ("pop", "__delitem__") and is_name(c.func.value, "disconnected")
                                                   and c.args and norm(c.args[0]) == "%s_name" % side for c in calls(x.ast))} for side in ("left", "right")}
    # the end of the processing of one clause = the header of the loop over the class's equations
    loops = [x.id for x in cfg.nodes if x.kind == "iter" and is_name(x.ast.target, "equation")]
    for side in ("left", "right"):
        ok = bool(unions) and bool(pops[side])
        for u in unions:
            for tgt in loops:
                if tgt in cfg.reachable(u.id) and cfg.must_pass(u.id, tgt, pops[side]) is not None:
                    w = cfg.must_pass(u.id, tgt, pops[side])
                    if not any(n.kind in ("handler",) for n in w):
                        ok = False
        rep.ob(R, SITE, "%s end leaves the unconnected table" % side, ok,
               "after two flow variables were united, the %s one must be removed from the table of unconnected flows on every path — it would "
               "otherwise also get `= 0`, which over-determines the model" % side)
    zero = False
    for lp in fn.body:
        if isinstance(lp, ast.For) and norm(lp.iter) in ("disconnected.values()", "disconnected.items()", "disconnected") and isinstance(lp.target, (ast.Name, ast.Tuple)):
            t = norm(lp)
            zero = "ast.Equation(left=ast.ComponentRef(name=" in t and "right=ast.Primary(value=0)" in t and ".equations.append(" in t
    rep.ob(R, SITE, "left-over flows get `= 0`", zero, "for every symbol still in the table an equation `<name> = 0` must be appended")


@SPEC.rule(
    "R09.4",
    "potential variables and the inside flag: a non-flow connector variable yields `left = right` per connect clause; the "
    "inside flags read in expand_connectors (`__left_inner` / `__right_inner` of the connect clause) are the ones "
    "flatten_symbols stores, computed from the depth of each reference",
)
def r09_4(ctx, rep):
    R = "R09.4"
    fn = _fn(ctx, R)
    t = [norm(s) for s in ast.walk(fn) if isinstance(s, (ast.Assign, ast.Expr))]
    node = fn.args.args[0].arg
    pot = False
    for i in ast.walk(fn):
        if isinstance(i, ast.If) and "prefixes" in norm(i.test) and ("'input'" in norm(i.test) or "len(" in norm(i.test)):
            b = [norm(s) for s in i.body]
            mk = [s for s in i.body if isinstance(s, ast.Assign) and isinstance(s.value, ast.Call) and (call_name(s.value) or "").endswith("Equation")
                  and norm(s.value) in ("ast.Equation(left=left, right=right)",)]
            direct = any(x == "%s.equations.append(ast.Equation(left=left, right=right))" % node for x in b)
            pot = pot or direct or (bool(mk) and any(x == "%s.equations.append(%s)" % (node, mk[0].targets[0].id) for x in b))
    rep.ob(R, SITE, "potential variables equated", pot, "for a connector variable without flow prefix the clause must add `left = right`")
    fs = ctx.func(TREE, "flatten_symbols", R)
    stores = {}
    for s in ast.walk(fs):
        if isinstance(s, ast.Assign) and isinstance(s.targets[0], ast.Attribute) and s.targets[0].attr in ("__left_inner", "__right_inner"):
            stores[s.targets[0].attr] = norm(s.value)
    reads = {a.attr for a in ast.walk(fn) if isinstance(a, ast.Attribute) and a.attr.endswith("_inner")}
    rep.ob(R, TREE + ":flatten_symbols", "inside flags written under the names that are read", set(stores) == {"__left_inner", "__right_inner"} and reads <= set(stores),
           "expand_connectors reads %s, flatten_symbols writes %s" % (sorted(reads), sorted(stores)))
    ok = all(("equation.%s" % side) in stores.get("__%s_inner" % side, "") and "child" in stores.get("__%s_inner" % side, "") for side in ("left", "right")) if len(stores) == 2 else False
    if not ok and len(stores) == 2:
        # accept any expression over the same side's reference
        ok = all(side in stores["__%s_inner" % side] and other not in stores["__%s_inner" % side] for side, other in (("left", "right"), ("right", "left")))
    rep.ob(R, TREE + ":flatten_symbols", "each flag computed from its own side's reference", ok,
           "`__left_inner` must be computed from the clause's left reference and `__right_inner` from its right reference (found %s)" % stores)


@SPEC.rule(
    "R09.5",
    "connection sets are built from the classes of the model at hand: tree.py keeps no module-level memo (a flattened connector "
    "class remembered by name is reused for another connector class of the same name, whose extra variables then get no "
    "equations and whose flows are zeroed)",
)
def r09_5(ctx, rep):
    from .c25 import module_state_free

    module_state_free(ctx, rep, "R09.5", TREE, "tree.py (expand_connectors and its helpers)")


@SPEC.rule(
    "R09.6",
    "connection sets only grow: expand_connectors never empties, pops from or deletes from a set it got out of the connection tables — the set "
    "fetched for the right end may be the very object fetched for the left end (a connect that closes a cycle), so clearing `the absorbed one` "
    "wipes the merged set",
)
def r09_6(ctx, rep):
    R = "R09.6"
    fn = _fn(ctx, R) if "_fn" in globals() else ctx.func(TREE, "expand_connectors", R)
    site = TREE + ":expand_connectors"
    sets = {st.targets[0].id for st in ast.walk(fn) if isinstance(st, ast.Assign) and isinstance(st.targets[0], ast.Name) and isinstance(st.value, ast.Call)
            and isinstance(st.value.func, ast.Attribute) and st.value.func.attr in ("get", "setdefault", "pop")}
    sets |= {st.targets[0].id for st in ast.walk(fn) if isinstance(st, ast.Assign) and isinstance(st.targets[0], ast.Name) and isinstance(st.value, ast.Name) and st.value.id in sets}
    fetches = [c for c in calls(fn) if isinstance(c.func, ast.Attribute) and c.func.attr in ("get", "setdefault") and "connections" in norm(c.func.value)]
    if len(sets) < 1 or len(fetches) < 2:
        raise MechanismMissing(R, "fewer than 2 fetches from the connection tables (or no local holding a fetched set)")
    bad = []
    for c in calls(fn):
        if isinstance(c.func, ast.Attribute) and isinstance(c.func.value, ast.Name) and c.func.value.id in sets and c.func.attr in ("clear", "pop", "popitem", "remove", "discard", "difference_update"):
            bad.append("line %d: %s" % (c.lineno, norm(c)[:60]))
        # ... or on the fetched set itself, without a name in between
        elif isinstance(c.func, ast.Attribute) and c.func.attr in ("clear", "pop", "popitem", "remove", "discard", "difference_update") and isinstance(c.func.value, ast.Call) \
                and isinstance(c.func.value.func, ast.Attribute) and c.func.value.func.attr in ("get", "setdefault") and "connections" in norm(c.func.value.func.value):
            bad.append("%s" % norm(c)[:70])
    for st in ast.walk(fn):
        if isinstance(st, ast.Delete):
            for t in st.targets:
                if isinstance(t, ast.Subscript) and isinstance(t.value, ast.Name) and t.value.id in sets:
                    bad.append("line %d: %s" % (st.lineno, norm(st)[:60]))
    rep.ob(R, site, "no connection set is shrunk", not bad, "; ".join(bad[:3]) + " — members disappear from a set that other keys still point to: they are in no flow sum and get no zero-flow default either")


@SPEC.rule(
    "R09.7",
    "nothing is left out: no loop of expand_connectors is left early with `break` (the connector variables after a parameter, the clauses "
    "after a special one would stay unconnected), and every iteration over what is left in the table of unconnected flow variables appends "
    "that variable's `= 0` equation — `it already has a defining equation` is not `it is connected`",
)
def r09_7(ctx, rep):
    from ..cfg import CFG, iteration_skips
    R = "R09.7"
    fn = ctx.func(TREE, "expand_connectors", R)
    site = TREE + ":expand_connectors"
    loops = [lp for lp in walk_local(fn) if isinstance(lp, ast.For)]
    if len(loops) < 4:
        raise MechanismMissing(R, "fewer than 4 loops found in expand_connectors")
    for lp in loops:
        early = []

        def own(node, top):
            for ch in ast.iter_child_nodes(node):
                if isinstance(ch, (ast.For, ast.While, ast.FunctionDef, ast.Lambda)) and ch is not top:
                    continue
                if isinstance(ch, ast.Break):
                    early.append(ch)
                own(ch, top)

        own(lp, lp)
        rep.ob(R, site, "loop `for %s in %s` runs to the end" % (norm(lp.target)[:30], norm(lp.iter)[:40]), not early,
               "the loop is left with `break` (line %s): the elements after that point are not connected / not given an equation" % (early[0].lineno if early else "?"))
    # the table of unconnected flows: popped with a default while connecting, iterated at the end
    popped = {norm(c.func.value) for c in calls(fn) if isinstance(c.func, ast.Attribute) and c.func.attr == "pop" and len(c.args) == 2}
    finals = [lp for lp in loops if isinstance(lp.iter, ast.Call) and isinstance(lp.iter.func, ast.Attribute) and lp.iter.func.attr in ("values", "items", "keys")
              and norm(lp.iter.func.value) in popped]
    if not finals:
        raise MechanismMissing(R, "the loop over the table of unconnected flow variables was not found")
    cfg = CFG(fn, R)
    for lp in finals:
        head = {x.id for x in cfg.nodes if x.kind == "iter" and x.ast is lp}
        w0 = cfg.must_pass(cfg.entry, cfg.exit, head)
        rep.ob(R, site, "the unconnected flow variables are always looked at", w0 is None,
               "expand_connectors can return before the loop that gives the unconnected flow variables their `= 0` (`nothing was connected` is "
               "exactly the case in which all of them are unconnected)", path=cfg.describe(w0) if w0 else "")
        w = iteration_skips(cfg, lp, lambda x: x.kind == "stmt" and any(isinstance(c.func, ast.Attribute) and c.func.attr == "append" and norm(c.func.value).endswith(".equations")
                                                                         for c in calls(x.ast)))
        rep.ob(R, site, "every unconnected flow variable gets its `= 0`", w is None,
               "an iteration over the unconnected flow variables can end without appending an equation: that flow is neither in a connection "
               "sum nor zero", path=cfg.describe(w) if w else "")


# -- seeded variants ---------------------------------------------------------
from ._mut import delete_stmt_where, replace_in_func  # noqa: E402


@SPEC.mutant("only the two ends re-pointed after a union", TREE, "R09.1", "re-pointed")
def _m1(mod):
    def edit(fn):
        for lp in ast.walk(fn):
            if isinstance(lp, ast.For) and isinstance(lp.iter, ast.Name) and len(lp.body) == 1 and isinstance(lp.body[0], ast.Assign) \
                    and norm(lp.body[0].targets[0]).startswith("flow_connections["):
                lp.iter = ast.parse("[left_key, right_key]", mode="eval").body
                return True
        return False

    return mod if replace_in_func(mod, "expand_connectors", edit) else None


@SPEC.mutant("inside members negated instead of outside ones", TREE, "R09.2", "negated")
def _m2(mod):
    def edit(fn):
        for e in ast.walk(fn):
            if isinstance(e, ast.IfExp) and isinstance(e.test, ast.Subscript) and literal(e.test.slice) == 1:
                e.body, e.orelse = e.orelse, e.body
                return True
        return False

    return mod if replace_in_func(mod, "expand_connectors", edit) else None


@SPEC.mutant("right end stays in the unconnected table", TREE, "R09.3", "right end")
def _m3(mod):
    return mod if delete_stmt_where(mod, "expand_connectors", lambda st: norm(st) == "disconnected_flow_variables.pop(right_name, None)") else None


@SPEC.mutant("sets not recorded as processed", TREE, "R09.2", "handled once")
def _m4(mod):
    return mod if delete_stmt_where(mod, "expand_connectors", lambda st: norm(st) == "processed.append(connected_variables)") else None


@SPEC.mutant("right end stored with the left flag", TREE, "R09.1", "right end stored")
def _m5(mod):
    def edit(fn):
        for st in ast.walk(fn):
            if isinstance(st, ast.Assign) and norm(st.targets[0]) == "connected_variables[right_key]":
                st.value = ast.parse("(right, equation.__left_inner)", mode="eval").body
                return True
        return False

    return mod if replace_in_func(mod, "expand_connectors", edit) else None


@SPEC.mutant("absorbed right-hand set cleared", TREE, "R09.6", "no connection set is shrunk")
def _m_clear_right(mod):
    def edit(fn):
        for n in ast.walk(fn):
            for f in ("body", "orelse"):
                lst = getattr(n, f, None)
                if isinstance(lst, list):
                    for i, st in enumerate(lst):
                        if isinstance(st, ast.Expr) and norm(st).endswith(".update(right_connected_variables)"):
                            lst.insert(i + 1, ast.parse("right_connected_variables.clear()").body[0])
                            return True
                        # the engine's form: the right-hand set is not a named local any more
                        if isinstance(st, ast.Expr) and isinstance(st.value, ast.Call) and norm(st.value.func).endswith("_connected_variables.update") \
                                and st.value.args and "flow_connections.get(" in norm(st.value.args[0]):
                            lst.insert(i + 1, ast.parse("%s.clear()" % norm(st.value.args[0])).body[0])
                            return True
        return False

    return mod if replace_in_func(mod, "expand_connectors", edit) else None


@SPEC.mutant("connector loop left at the first parameter", TREE, "R09.7", "runs to the end")
def _m_break_at_parameter(mod):
    def edit(fn):
        for lp in ast.walk(fn):
            if isinstance(lp, ast.For) and norm(lp.iter).endswith(".symbols.values()") and "flat_class" in norm(lp.iter):
                lp.body.insert(0, ast.parse("if %s.prefixes[:1] == ['parameter']:\n    break" % norm(lp.target)).body[0])
                return True
        return False

    return mod if replace_in_func(mod, "expand_connectors", edit) else None
